#!/usr/bin/env python3
"""C08 fact extractor: the micro-operation table of IntrusivePtr<T>'s special members and the
facts about RefCountedObject's counter, read from the clang JSON AST of the working tree.

Per special member (destructor, default/copy/move/converting/raw constructor, copy/move/raw
assignment) of the *instantiated* IntrusivePtr<Base> the statements are turned, in source order,
into the micro-operations of coq/C08/Model.v:
    MInc g p / MDec g p   p->refInc() / p->refDec(); g = guarded by a null test of the same p
    MStore d p            member initialiser or assignment of a pointer (this->ptr, input.ptr /
                          the raw parameter, a local pointer variable)
    MUnknown              anything the extractor does not recognise (makes the Coq check fail)
For RefCountedObject: the declared type and initial value of refCounter, that refInc is exactly
one ++ of it, that refDec is exactly one -- whose own result is compared with zero and guards
`delete this`, that useCount returns its value.

usage: factgen.py [--repo DIR] [--out Facts.v] [--json facts.json] [--work DIR]
"""
import json
import os
import subprocess
import sys

HERE = os.path.dirname(os.path.abspath(__file__))
sys.path.insert(0, os.path.join(os.path.dirname(os.path.dirname(HERE)), "tools", "cxx2coq"))
from astutil import load_docs, walk  # noqa: E402

INST = r'''
#include "rkcommon/memory/IntrusivePtr.h"
#include "rkcommon/memory/RefCount.h"
namespace c08inst {
struct Base : rkcommon::memory::RefCountedObject {};
struct Derived : Base {};
}
template class rkcommon::memory::IntrusivePtr<c08inst::Base>;
template rkcommon::memory::IntrusivePtr<c08inst::Base>::IntrusivePtr(const rkcommon::memory::IntrusivePtr<c08inst::Derived> &);
template bool rkcommon::memory::operator==<c08inst::Base>(const rkcommon::memory::IntrusivePtr<c08inst::Base> &, const rkcommon::memory::IntrusivePtr<c08inst::Base> &);
template bool rkcommon::memory::operator!=<c08inst::Base>(const rkcommon::memory::IntrusivePtr<c08inst::Base> &, const rkcommon::memory::IntrusivePtr<c08inst::Base> &);
template bool rkcommon::memory::operator< <c08inst::Base>(const rkcommon::memory::IntrusivePtr<c08inst::Base> &, const rkcommon::memory::IntrusivePtr<c08inst::Base> &);
namespace c08inst { inline void use_default() { rkcommon::memory::IntrusivePtr<Base> x; (void)x; } }
@@SEL@@
static_assert(std::is_same<rkcommon::memory::Ref<c08inst::Base>, rkcommon::memory::IntrusivePtr<c08inst::Base>>::value, "Ref alias");
static_assert(std::is_same<rkcommon::memory::RefCount, rkcommon::memory::RefCountedObject>::value, "RefCount alias");
'''

METHS = ["MDtor", "MDefCtor", "MCopyCtor", "MMoveCtor", "MConvCtor", "MRawCtor", "MCopyAssign", "MMoveAssign", "MRawAssign"]
TRANSPARENT = {"ImplicitCastExpr", "ParenExpr", "ExprWithCleanups", "CStyleCastExpr", "CXXStaticCastExpr",
               "CXXConstCastExpr", "CXXFunctionalCastExpr", "MaterializeTemporaryExpr", "CXXBindTemporaryExpr"}


def dump(repo, work, filt):
    os.makedirs(work, exist_ok=True)
    src = os.path.join(work, "c08_inst.cpp")
    with open(src, "w") as f:
        f.write(INST.replace("@@SEL@@", SEL_TU + MIX_TU))
    out = os.path.join(work, "ast_%s.json" % filt)
    cmd = ["clang++", "-std=c++11", "-I" + repo, "-fsyntax-only", "-Xclang", "-ast-dump=json",
           "-Xclang", "-ast-dump-filter=" + filt, src]
    with open(out, "w") as f:
        p = subprocess.run(cmd, stdout=f, stderr=subprocess.PIPE, timeout=120, universal_newlines=True)
    if p.returncode != 0:
        raise RuntimeError("clang failed: " + p.stderr[-2000:])
    return load_docs(out)


def inner(n):
    return [c for c in (n.get("inner") or []) if isinstance(c, dict) and c]


def strip(n):
    while n.get("kind") in TRANSPARENT and len(inner(n)) >= 1:
        n = inner(n)[-1] if n.get("kind") in ("CStyleCastExpr", "CXXStaticCastExpr", "CXXConstCastExpr", "CXXFunctionalCastExpr") else inner(n)[0]
    return n


class Ctx:
    def __init__(self, params):
        self.params = params          # ids of ParmVarDecls
        self.locals = {}              # VarDecl id -> k


def pexp(n, cx):
    """pointer expression -> 'PThis' | 'PArg' | 'PNull' | 'PLoc k' | None"""
    n = strip(n)
    k = n.get("kind")
    if k in ("CXXNullPtrLiteralExpr", "GNUNullExpr"):
        return "PNull"
    if k == "InitListExpr":
        return pexp(inner(n)[0], cx) if len(inner(n)) == 1 else ("PNull" if not inner(n) else None)
    if k == "ImplicitValueInitExpr" or k == "CXXScalarValueInitExpr":
        return "PNull"
    if k == "IntegerLiteral" and n.get("value") == "0":
        return "PNull"
    if k == "MemberExpr" and n.get("name") == "ptr":
        base = strip(inner(n)[0]) if inner(n) else {}
        if base.get("kind") == "CXXThisExpr":
            return "PThis"
        if base.get("kind") == "DeclRefExpr" and base.get("referencedDecl", {}).get("id") in cx.params:
            return "PArg"
        if base.get("kind") == "UnaryOperator" and base.get("opcode") == "*" and strip(inner(base)[0]).get("kind") == "CXXThisExpr":
            return "PThis"
        return None
    if k == "DeclRefExpr":
        rid = n.get("referencedDecl", {}).get("id")
        if rid in cx.params and "*" in n.get("type", {}).get("qualType", ""):
            return "PArg"
        if rid in cx.locals:
            return "PLoc %d" % cx.locals[rid]
    return None


def null_test(cond, cx):
    """condition of `if (p)` / `if (p != nullptr)` / `if (nullptr != p)` / `if (!!p)` -> pexp or None"""
    c = strip(cond)
    if c.get("kind") == "BinaryOperator" and c.get("opcode") == "!=":
        a, b = [pexp(x, cx) for x in inner(c)]
        if a == "PNull" and b not in (None, "PNull"):
            return b
        if b == "PNull" and a not in (None, "PNull"):
            return a
        return None
    return pexp(c, cx)


def ref_call(n, cx):
    """p->refInc() / p->refDec() -> ('MInc'|'MDec', pexp) or None"""
    n = strip(n)
    if n.get("kind") != "CXXMemberCallExpr":
        return None
    callee = inner(n)[0] if inner(n) else {}
    if callee.get("kind") != "MemberExpr" or callee.get("name") not in ("refInc", "refDec") or len(inner(n)) != 1:
        return None
    obj = pexp(inner(callee)[0], cx)
    if obj is None or obj == "PNull":
        return None
    return ("MInc" if callee["name"] == "refInc" else "MDec", obj)


def stmts(n):
    if n.get("kind") == "CompoundStmt":
        out = []
        for c in inner(n):
            out += stmts(c)
        return out
    return [n]


def translate_body(body, cx):
    ops = []
    for st in (stmts(body) if body else []):
        s = strip(st)
        k = s.get("kind")
        if k == "NullStmt":
            continue
        if k == "ReturnStmt":
            continue
        if k == "IfStmt":
            parts = inner(s)
            if s.get("hasElse") or len(parts) != 2:
                ops.append("MUnknown")
                continue
            p = null_test(parts[0], cx)
            thens = stmts(parts[1])
            calls = [ref_call(t, cx) for t in thens]
            if p is not None and len(calls) >= 1 and all(c is not None and c[1] == p for c in calls):
                for c in calls:
                    ops.append("%s true %s" % (c[0], wrap(p)))
            else:
                ops.append("MUnknown")
            continue
        rc = ref_call(s, cx)
        if rc is not None:
            ops.append("%s false %s" % (rc[0], wrap(rc[1])))
            continue
        if k == "BinaryOperator" and s.get("opcode") == "=":
            lhs, rhs = inner(s)
            d = pexp(lhs, cx)
            v = pexp(rhs, cx)
            if d is not None and d != "PNull" and v is not None:
                ops.append("MStore %s %s" % (wrap(d.replace("P", "D", 1)), wrap(v)))
            else:
                ops.append("MUnknown")
            continue
        if k == "DeclStmt":
            ok = True
            for vd in inner(s):
                if vd.get("kind") != "VarDecl" or "*" not in vd.get("type", {}).get("qualType", "") or not inner(vd):
                    ok = False
                    break
                v = pexp(inner(vd)[-1], cx)
                if v is None:
                    ok = False
                    break
                kk = len(cx.locals)
                cx.locals[vd["id"]] = kk
                ops.append("MStore (DLoc %d) %s" % (kk, wrap(v)))
            if not ok:
                ops.append("MUnknown")
            continue
        ops.append("MUnknown")
    return ops


def wrap(s):
    return "(%s)" % s if " " in s else s


def translate_method(m, field_default):
    """m: CXXConstructorDecl / CXXDestructorDecl / CXXMethodDecl (instantiated)"""
    params = {c["id"] for c in inner(m) if c.get("kind") == "ParmVarDecl"}
    cx = Ctx(params)
    ops = []
    body = None
    inits = []
    for c in inner(m):
        if c.get("kind") == "CXXCtorInitializer":
            inits.append(c)
        elif c.get("kind") == "CompoundStmt":
            body = c
    if m.get("kind") == "CXXConstructorDecl":
        ptr_init = [c for c in inits if c.get("anyInit", {}).get("name") == "ptr"]
        if ptr_init:
            e = inner(ptr_init[0])
            v = pexp(e[0], cx) if e else None
            if v is None and e and strip(e[0]).get("kind") == "CXXDefaultInitExpr":
                v = field_default
            ops.append("MStore DThis %s" % wrap(v) if v else "MUnknown")
        else:
            ops.append("MStore DThis %s" % wrap(field_default) if field_default else "MUnknown")
        if m.get("explicitlyDefaulted") == "default" or (body is None and not m.get("isImplicit") and m.get("explicitlyDefaulted")):
            return ops
        if body is None and not ptr_init:
            # declared but no body visible in this TU
            if m.get("explicitlyDefaulted") or m.get("isImplicit"):
                return ops
            return ops + ["MUnknown"]
    if body is None and m.get("kind") != "CXXConstructorDecl":
        return ["MUnknown"]
    return ops + translate_body(body, cx)


def classify(spec):
    """map meth name -> AST node among the members of the class template specialization"""
    found = {}
    field_default = None
    for c in inner(spec):
        if c.get("kind") == "FieldDecl" and c.get("name") == "ptr":
            e = inner(c)
            if e:
                v = pexp(e[-1], Ctx(set()))
                field_default = v if v == "PNull" else None
    for c in inner(spec):
        k = c.get("kind")
        if k == "CXXDestructorDecl":
            found["MDtor"] = c
        elif k == "CXXConstructorDecl" and not c.get("isImplicit"):
            ps = [p for p in inner(c) if p.get("kind") == "ParmVarDecl"]
            if not ps:
                found["MDefCtor"] = c
            elif len(ps) == 1:
                t = ps[0].get("type", {}).get("qualType", "")
                if t.endswith("&&"):
                    found["MMoveCtor"] = c
                elif t.endswith("&"):
                    found["MCopyCtor"] = c
                elif "*" in t:
                    found["MRawCtor"] = c
        elif k == "FunctionTemplateDecl":
            for d in inner(c):
                if d.get("kind") == "CXXConstructorDecl" and any(x.get("kind") == "CompoundStmt" for x in inner(d)) \
                        and self_param_kind(param_of(d.get("type", {}).get("qualType", ""))) == "convcopy":
                    found["MConvCtor"] = d
        elif k == "CXXMethodDecl" and c.get("name") == "operator=" and not c.get("isImplicit"):
            ps = [p for p in inner(c) if p.get("kind") == "ParmVarDecl"]
            if len(ps) == 1:
                t = ps[0].get("type", {}).get("qualType", "")
                if t.endswith("&&"):
                    found["MMoveAssign"] = c
                elif t.endswith("&"):
                    found["MCopyAssign"] = c
                elif "*" in t:
                    found["MRawAssign"] = c
    return found, field_default


# ------------------------------------------------------------------ RefCountedObject
def counter_uses(n):
    return [x for x, _ in walk(n) if x.get("kind") == "MemberExpr" and x.get("name") == "refCounter"]


def rmw_kind(n):
    """n (stripped): an RMW of refCounter? -> ('inc'|'dec', 'pre'|'post'|'fetch') or None"""
    n = strip(n)
    k = n.get("kind")
    if k == "CXXOperatorCallExpr":
        parts = inner(n)
        callee = strip(parts[0])
        name = callee.get("referencedDecl", {}).get("name")
        if name in ("operator++", "operator--") and len(counter_uses(parts[1])) == 1:
            return ("inc" if name == "operator++" else "dec", "post" if len(parts) == 3 else "pre")
    if k == "UnaryOperator" and n.get("opcode") in ("++", "--") and len(counter_uses(n)) == 1:
        return ("inc" if n["opcode"] == "++" else "dec", "post" if n.get("isPostfix") else "pre")
    if k == "CXXMemberCallExpr":
        callee = inner(n)[0]
        if callee.get("kind") == "MemberExpr" and callee.get("name") in ("fetch_add", "fetch_sub") and len(counter_uses(callee)) == 1:
            args = inner(n)[1:]
            if args and strip(args[0]).get("kind") == "IntegerLiteral" and strip(args[0]).get("value") == "1":
                return ("inc" if callee["name"] == "fetch_add" else "dec", "post")
    return None


def int_lit(n):
    n = strip(n)
    if n.get("kind") == "IntegerLiteral":
        return int(n.get("value"))
    return None


def rc_facts(docs):
    f = dict(rc_atomic=False, rc_init_one=False, rc_inc_single=False, rc_dec_single=False,
             rc_dec_own_result=False, rc_dec_deletes=False, rc_use_load=False, rc_width64=False)
    info = {}
    bodies = {}
    for d in docs:
        if d.get("kind") == "CXXRecordDecl" and d.get("name") == "RefCountedObject":
            for c in inner(d):
                if c.get("kind") == "FieldDecl" and c.get("name") == "refCounter":
                    t = c.get("type", {}).get("qualType", "")
                    info["counter_type"] = t
                    f["rc_atomic"] = t.replace(" ", "").startswith("std::atomic<") and not any(
                        w in t for w in ("float", "double", "*"))
                    td = (c.get("type", {}).get("desugaredQualType") or t).replace("const ", "").replace("volatile ", "").strip()
                    val = td[td.find("<") + 1:td.rfind(">")].strip() if "<" in td else td
                    info["counter_value_type"] = val
                    # LP64: long and long long are 64-bit signed; anything else (int, unsigned ..., short) is not
                    f["rc_width64"] = val in ("long long", "long", "long long int", "long int", "signed long long", "signed long",
                                              "int64_t", "std::int64_t", "__int64_t", "ptrdiff_t", "std::ptrdiff_t", "intptr_t", "ssize_t")
                    lits = [int(x.get("value")) for x, _ in walk(c) if x.get("kind") == "IntegerLiteral"]
                    f["rc_init_one"] = lits == [1]
                if c.get("kind") == "CXXMethodDecl" and c.get("name") in ("refInc", "refDec", "useCount"):
                    b = [x for x in inner(c) if x.get("kind") == "CompoundStmt"]
                    if b:
                        bodies[c["name"]] = b[0]
        if d.get("kind") == "CXXMethodDecl" and d.get("name") in ("refInc", "refDec", "useCount"):
            b = [x for x in inner(d) if x.get("kind") == "CompoundStmt"]
            if b:
                bodies[d["name"]] = b[0]
    # refInc
    b = bodies.get("refInc")
    if b is not None:
        ss = [s for s in stmts(b) if strip(s).get("kind") != "NullStmt"]
        f["rc_inc_single"] = len(ss) == 1 and (rmw_kind(ss[0]) or (None,))[0] == "inc" and len(counter_uses(b)) == 1
    # refDec
    b = bodies.get("refDec")
    if b is not None:
        ss = [s for s in stmts(b) if strip(s).get("kind") != "NullStmt"]
        uses = counter_uses(b)
        rmws = [x for x, _ in walk(b) if rmw_kind(x) is not None and x.get("kind") not in TRANSPARENT]
        f["rc_dec_single"] = len(uses) == 1 and len(rmws) == 1 and rmw_kind(rmws[0])[0] == "dec"
        info["refDec_counter_accesses"] = len(uses)
        if len(ss) == 1 and strip(ss[0]).get("kind") == "IfStmt" and not strip(ss[0]).get("hasElse"):
            cond, then = inner(strip(ss[0]))[:2]
            c = strip(cond)
            if c.get("kind") == "BinaryOperator" and c.get("opcode") == "==":
                a, bb = inner(c)
                for x, y in ((a, bb), (bb, a)):
                    r = rmw_kind(x)
                    lit = int_lit(y)
                    if r and r[0] == "dec" and lit is not None and lit == (0 if r[1] == "pre" else 1):
                        f["rc_dec_own_result"] = True
            ts = [strip(t) for t in stmts(then)]
            f["rc_dec_deletes"] = len(ts) == 1 and ts[0].get("kind") == "CXXDeleteExpr" and \
                strip(inner(ts[0])[0]).get("kind") == "CXXThisExpr" and not ts[0].get("isArray")
    # useCount
    b = bodies.get("useCount")
    if b is not None:
        ss = [s for s in stmts(b) if strip(s).get("kind") != "NullStmt"]
        if len(ss) == 1 and strip(ss[0]).get("kind") == "ReturnStmt" and len(counter_uses(b)) == 1:
            e = strip(inner(strip(ss[0]))[0])
            ok = False
            if e.get("kind") == "CXXMemberCallExpr":
                cal = inner(e)[0]
                ok = cal.get("kind") == "MemberExpr" and cal.get("name") in ("load", "operator long long", "operator __int_type",
                                                                                "operator long") and len(inner(e)) <= 2
                if not ok and cal.get("kind") == "MemberExpr" and cal.get("name", "").startswith("operator "):
                    ok = True
            elif e.get("kind") == "MemberExpr" and e.get("name") == "refCounter":
                ok = True
            f["rc_use_load"] = ok
    return f, info


# ------------------------------------------------------------------ comparison operators, accessors
CMPK = {"==": "KEq", "!=": "KNe", "<": "KLt", "<=": "KLe", ">": "KGt", ">=": "KGe"}


def cmp_operand(x, pa, pb):
    """operand of a comparison: a.ptr / b.ptr, possibly under an explicit cast -> CA | CB | CAvoid | CBvoid | None"""
    void = False
    while True:
        k = x.get("kind")
        if k in ("ImplicitCastExpr", "ParenExpr", "ExprWithCleanups") and inner(x):
            x = inner(x)[0]
        elif k in ("CStyleCastExpr", "CXXStaticCastExpr", "CXXReinterpretCastExpr", "CXXConstCastExpr", "CXXFunctionalCastExpr") and inner(x):
            if "void" in x.get("type", {}).get("qualType", ""):
                void = True
            else:
                return None          # an explicit cast to some other pointer type: not classified
            x = inner(x)[-1]
        else:
            break
    if x.get("kind") == "MemberExpr" and x.get("name") == "ptr" and inner(x):
        b = strip(inner(x)[0])
        rid = b.get("referencedDecl", {}).get("id") if b.get("kind") == "DeclRefExpr" else None
        side = "CA" if rid == pa else "CB" if rid == pb else None
        return side + ("void" if void else "") if side else None
    return None


def cexp(n, pa, pb):
    """boolean expression over a.ptr / b.ptr -> Coq cexp text"""
    n = strip(n)
    k = n.get("kind")
    if k == "UnaryOperator" and n.get("opcode") == "!":
        return "(CNot %s)" % cexp(inner(n)[0], pa, pb)
    if k == "BinaryOperator" and n.get("opcode") in CMPK:
        sides = [cmp_operand(x, pa, pb) for x in inner(n)]
        if len(sides) == 2 and None not in sides:
            return "(CCmp %s %s %s)" % (CMPK[n["opcode"]], sides[0], sides[1])
    return "CUnk"


def single_return(fn):
    body = [c for c in inner(fn) if c.get("kind") == "CompoundStmt"]
    if not body:
        return None
    ss = [s for s in stmts(body[0]) if strip(s).get("kind") != "NullStmt"]
    if len(ss) != 1 or strip(ss[0]).get("kind") != "ReturnStmt" or not inner(strip(ss[0])):
        return None
    return inner(strip(ss[0]))[0]


def cmp_facts(repo, work, spec):
    out = {"c_eq": "CUnk", "c_ne": "CUnk", "c_lt": "CUnk", "a_bool": False, "a_arrow": False, "a_deref": False, "c_mixed": False}
    docs = dump(repo, work, "memory::operator")
    key = {"operator==": "c_eq", "operator!=": "c_ne", "operator<": "c_lt"}
    for d in docs:
        if d.get("kind") != "FunctionTemplateDecl" or d.get("name") not in key:
            continue
        for f in inner(d):
            if f.get("kind") != "FunctionDecl" or not any(x.get("kind") == "TemplateArgument" for x in inner(f)):
                continue
            ps = [p["id"] for p in inner(f) if p.get("kind") == "ParmVarDecl"]
            if len(ps) != 2 or "IntrusivePtr" not in f.get("type", {}).get("qualType", ""):
                continue
            if "Derived" in f.get("type", {}).get("qualType", ""):
                continue            # a mixed-type instantiation (from the c08mix functions); the Base/Base one is read
            e = single_return(f)
            if e is not None:
                out[key[d["name"]]] = cexp(e, ps[0], ps[1])
    cx = Ctx(set())
    for c in inner(spec) if spec else []:
        k, nm = c.get("kind"), c.get("name", "")
        if k == "CXXConversionDecl" and nm == "operator bool":
            e = single_return(c)
            out["a_bool"] = e is not None and null_test(e, cx) == "PThis"
        elif k == "CXXMethodDecl" and nm == "operator->":
            e = single_return(c)
            out["a_arrow"] = e is not None and pexp(e, cx) == "PThis"
        elif k == "CXXMethodDecl" and nm == "operator*":
            e = single_return(c)
            if e is not None:
                e = strip(e)
                out["a_deref"] = e.get("kind") == "UnaryOperator" and e.get("opcode") == "*" and pexp(inner(e)[0], cx) == "PThis"
    # mixed-type comparisons: which function does `b == d` etc. call?
    mdocs = dump(repo, work, "c08mix")
    ns = [d for d in mdocs if d.get("kind") == "NamespaceDecl" and d.get("name") == "c08mix"]
    ok, seen = True, 0
    for f in inner(ns[0]) if ns else []:
        if f.get("kind") != "FunctionDecl":
            continue
        e = single_return(f)
        e = strip(e) if e is not None else {}
        want = {"eq": "operator==", "ne": "operator!=", "lt": "operator<"}.get(f.get("name", "")[:2])
        seen += 1
        if not (e.get("kind") == "CXXOperatorCallExpr" and inner(e) and
                strip(inner(e)[0]).get("referencedDecl", {}).get("name") == want):
            ok = False           # e.g. a built-in comparison of two operator bool() results
    out["c_mixed"] = ok and seen == 6
    return out


# ------------------------------------------------------------------ declared members (closed list) and overload resolution
IP_ORDER = ["DFieldPtr", "DDefCtor", "DDtor", "DCopyCtor", "DMoveCtor", "DConvCopyCtorT", "DRawCtor",
            "DCopyAssign", "DMoveAssign", "DRawAssign", "DOpBool", "DOpStar", "DOpArrow"]
RC_ORDER = ["DFieldCounter", "DRcDefCtor", "DRcVirtDtor", "DRcDeletedCopy", "DRefInc", "DRefDec", "DUseCount"]
IGNORED_DECLS = {"AccessSpecDecl", "StaticAssertDecl", "FullComment", "TypeAliasDecl", "TypedefDecl", "UsingDecl",
                 "ParagraphComment", "TextComment"}


def param_of(qt):
    """'R (P)' / 'R (P) const' -> P (single parameter text, '' if none)"""
    a = qt.find("(")
    b = qt.rfind(")")
    return qt[a + 1:b].strip() if a >= 0 and b > a else "?"


def self_param_kind(p):
    """parameter text of a constructor / operator= of IntrusivePtr<T> (pattern or instantiation)"""
    q = p.replace("rkcommon::memory::", "").replace(" ", "")
    if q == "":
        return "none"
    if q in ("constIntrusivePtr<T>&", "constIntrusivePtr&", "constIntrusivePtr<c08inst::Base>&"):
        return "copy"
    if q in ("IntrusivePtr<T>&&", "IntrusivePtr&&", "IntrusivePtr<c08inst::Base>&&"):
        return "move"
    if q in ("T*const", "T*", "c08inst::Base*const", "c08inst::Base*"):
        return "raw"
    if q in ("constIntrusivePtr<O>&", "constIntrusivePtr<c08inst::Derived>&"):
        return "convcopy"
    return "other:" + q


def inv_key(cls, c, qt, kind):
    """stable, signature-carrying name of a class member for the inventory"""
    nm = c.get("name") or ""
    if kind == "FieldDecl":
        return "%s::%s : %s%s" % (cls, nm, "mutable " if c.get("mutable") else "", qt)
    if kind == "FunctionTemplateDecl":
        tps = [x.get("name") for x in inner(c) if x.get("kind") == "TemplateTypeParmDecl"]
        return "%s::template<%s> %s(%s)" % (cls, ",".join(tps), nm.split("<")[0], param_of(qt))
    base = nm.split("<")[0] if kind in ("CXXConstructorDecl", "CXXDestructorDecl") else nm
    tail = qt[qt.rfind(")") + 1:].strip()
    suffix = " = delete" if c.get("explicitlyDeleted") else (" = default" if c.get("explicitlyDefaulted") == "default" else "")
    ret = "" if kind in ("CXXConstructorDecl", "CXXDestructorDecl", "CXXConversionDecl") else qt[:qt.find("(")].strip() + " "
    return "%s::%s%s%s(%s)%s%s" % (cls, "virtual " if c.get("virtual") else "", ret, base, param_of(qt), (" " + tail) if tail else "", suffix)


def members(ipdocs, rcdocs):
    names = []       # human-readable, for the report
    inv = []         # inventory keys: Class::name(params) quals [= delete|default] / Class::field : type
    ip, rc = [], []
    pat = None
    for d in ipdocs:
        if d.get("kind") == "ClassTemplateDecl" and d.get("name") == "IntrusivePtr":
            recs = [c for c in inner(d) if c.get("kind") == "CXXRecordDecl"]
            if recs:
                pat = recs[0]
    other = 0
    for c in inner(pat) if pat else []:
        k = c.get("kind")
        if k in IGNORED_DECLS or c.get("isImplicit"):
            continue
        qt = c.get("type", {}).get("qualType", "")
        tag = None
        if k == "FieldDecl":
            tag = "DFieldPtr" if c.get("name") == "ptr" else None
        elif k == "CXXConstructorDecl":
            tag = {"none": "DDefCtor", "copy": "DCopyCtor", "move": "DMoveCtor", "raw": "DRawCtor"}.get(self_param_kind(param_of(qt)))
        elif k == "CXXDestructorDecl":
            tag = "DDtor"
        elif k == "FunctionTemplateDecl":
            ds = [x for x in inner(c) if x.get("kind") in ("CXXConstructorDecl", "CXXMethodDecl", "CXXConversionDecl")]
            if ds and ds[0].get("kind") == "CXXConstructorDecl" and \
                    self_param_kind(param_of(ds[0].get("type", {}).get("qualType", ""))) == "convcopy":
                tag = "DConvCopyCtorT"
            qt = ds[0].get("type", {}).get("qualType", "") if ds else ""
        elif k == "CXXMethodDecl":
            nm = c.get("name")
            if nm == "operator=":
                tag = {"copy": "DCopyAssign", "move": "DMoveAssign", "raw": "DRawAssign"}.get(self_param_kind(param_of(qt)))
            elif nm == "operator*" and param_of(qt) == "":
                tag = "DOpStar"
            elif nm == "operator->" and param_of(qt) == "":
                tag = "DOpArrow"
        elif k == "CXXConversionDecl":
            tag = "DOpBool" if c.get("name") == "operator bool" else None
        if tag is None:
            tag = "DOther %d" % other
            other += 1
        ip.append(tag)
        names.append("IntrusivePtr::%s %s -> %s" % (c.get("name"), qt, tag))
        inv.append(inv_key("IntrusivePtr<T>", c, qt, k))
    ndel = 0
    rec = None
    for d in rcdocs:
        if d.get("kind") == "CXXRecordDecl" and d.get("name") == "RefCountedObject" and inner(d):
            rec = d
    for c in inner(rec) if rec else []:
        k = c.get("kind")
        if k in IGNORED_DECLS or c.get("isImplicit"):
            continue
        qt = c.get("type", {}).get("qualType", "")
        tag = None
        if c.get("explicitlyDeleted") and (k == "CXXConstructorDecl" or (k == "CXXMethodDecl" and c.get("name") == "operator=")):
            ndel += 1
            names.append("RefCountedObject::%s %s -> deleted" % (c.get("name"), qt))
            inv.append(inv_key("RefCountedObject", c, qt, k))
            continue
        if k == "FieldDecl":
            tag = "DFieldCounter" if c.get("name") == "refCounter" else None
        elif k == "CXXConstructorDecl" and param_of(qt) == "":
            tag = "DRcDefCtor"
        elif k == "CXXDestructorDecl":
            tag = "DRcVirtDtor" if c.get("virtual") else None
        elif k == "CXXMethodDecl" and c.get("name") in ("refInc", "refDec", "useCount") and param_of(qt) == "":
            tag = {"refInc": "DRefInc", "refDec": "DRefDec", "useCount": "DUseCount"}[c["name"]]
        if tag is None:
            tag = "DOther %d" % other
            other += 1
        rc.append(tag)
        names.append("RefCountedObject::%s %s -> %s" % (c.get("name"), qt, tag))
        inv.append(inv_key("RefCountedObject", c, qt, k))
    if ndel:
        rc.append("DRcDeletedCopy %d" % ndel)

    def order(lst, ref):
        key = lambda t: (ref.index(t.split()[0]) if t.split()[0] in ref else len(ref), t)
        return sorted(lst, key=key)
    return order(ip, IP_ORDER) + order(rc, RC_ORDER), names, inv


MIX_TU = r"""
namespace c08mix {
using B = rkcommon::memory::IntrusivePtr<c08inst::Base>;
using D = rkcommon::memory::IntrusivePtr<c08inst::Derived>;
bool eq_bd(const B &b, const D &d) { return b == d; }
bool eq_db(const B &b, const D &d) { return d == b; }
bool ne_bd(const B &b, const D &d) { return b != d; }
bool ne_db(const B &b, const D &d) { return d != b; }
bool lt_bd(const B &b, const D &d) { return b < d; }
bool lt_db(const B &b, const D &d) { return d < b; }
}
"""
SEL_TU = r"""
namespace c08sel {
using B = rkcommon::memory::IntrusivePtr<c08inst::Base>;
using D = rkcommon::memory::IntrusivePtr<c08inst::Derived>;
void FDef() { B x; }
void FCopyL(B &a) { B x(a); }
void FMoveR(B &a) { B x(static_cast<B &&>(a)); }
void FConvL(D &d) { B x(d); }
void FConvR(D &d) { B x(static_cast<D &&>(d)); }
void FConvTemp(c08inst::Derived *p) { B x = D(p); }
void FRawC(c08inst::Base *p) { B x(p); }
void FAssignL(B &a, B &b) { a = b; }
void FAssignR(B &a, B &b) { a = static_cast<B &&>(b); }
void FAssignRaw(B &a, c08inst::Base *p) { a = p; }
void FAssignConvL(B &a, D &d) { a = d; }
void FAssignConvR(B &a, D &d) { a = static_cast<D &&>(d); }
void FRawNull() { B x(nullptr); }
void FAssignNull(B &a) { a = nullptr; }
}
"""
CTOR_METH = {"none": "MDefCtor", "copy": "MCopyCtor", "move": "MMoveCtor", "raw": "MRawCtor", "convcopy": "MConvCtor"}
ASSIGN_METH = {"copy": "MCopyAssign", "move": "MMoveAssign", "raw": "MRawAssign"}


def selection(repo, work):
    """for every call form: the member clang's overload resolution selects (by its signature) and
    how the argument reaches it"""
    docs = dump(repo, work, "c08sel")
    sel = {}
    detail = {}
    ns = [d for d in docs if d.get("kind") == "NamespaceDecl" and d.get("name") == "c08sel"]
    for f in inner(ns[0]) if ns else []:
        if f.get("kind") != "FunctionDecl":
            continue
        form = f.get("name")
        ctors = []
        assign = None
        for n, _ in walk(f):
            if n.get("kind") in ("CXXConstructExpr", "CXXTemporaryObjectExpr"):
                res = n.get("type", {}).get("desugaredQualType") or n.get("type", {}).get("qualType", "")
                ctors.append((res, param_of(n.get("ctorType", {}).get("qualType", "")), bool(n.get("elidable"))))
            if n.get("kind") == "CXXOperatorCallExpr" and assign is None:
                callee = strip(inner(n)[0])
                if callee.get("referencedDecl", {}).get("name") == "operator=":
                    assign = param_of(callee["referencedDecl"].get("type", {}).get("qualType", ""))
        detail[form] = {"constructors": ctors, "assignment_param": assign}
        bctors = [c for c in ctors if "Base" in c[0] and "Derived" not in c[0]]
        if form.startswith("FAssign"):
            m = ASSIGN_METH.get(self_param_kind(assign)) if assign is not None else None
            if bctors:
                v = CTOR_METH.get(self_param_kind(bctors[0][1]))
                via = "(VTemp %s)" % v if v else "VUnknown"
            else:
                via = "VDirect"
            sel[form] = (m, via)
        elif form == "FConvTemp":
            # B x = D(p): the constructor of B that takes the D temporary (the outer move of the B temporary is elidable)
            cs = [c for c in bctors if "Derived" in c[1]]
            sel[form] = (CTOR_METH.get(self_param_kind(cs[0][1])) if cs else None, "VDirect")
        else:
            cs = [c for c in bctors if not c[2]]
            sel[form] = (CTOR_METH.get(self_param_kind(cs[0][1])) if cs else None, "VDirect")
    sel["FDtorF"] = ("MDtor", "VDirect")
    return sel, detail


def free_decls(repo, work):
    """every free function / function template / alias declared in namespace rkcommon::memory by
    IntrusivePtr.h and RefCount.h (out-of-line member definitions are not free functions)"""
    docs = dump(repo, work, "rkcommon::memory")
    out, names, finv = [], [], []
    other = 0
    kinds = {"operator<": "KLt", "operator==": "KEq", "operator!=": "KNe", "operator<=": "KLe", "operator>": "KGt", "operator>=": "KGe"}
    seen_ns = False
    for d in docs:
        if d.get("kind") != "NamespaceDecl" or d.get("name") != "memory":
            continue
        seen_ns = True
        for c in inner(d):
            k = c.get("kind")
            if c.get("isImplicit") or k in ("ClassTemplateDecl", "CXXRecordDecl", "ClassTemplateSpecializationDecl"):
                continue
            if c.get("parentDeclContextId") or k in ("CXXMethodDecl", "CXXConstructorDecl", "CXXDestructorDecl", "CXXConversionDecl"):
                continue                      # out-of-line definition of a member
            tag = None
            if k == "FunctionTemplateDecl":
                tps = [x for x in inner(c) if x.get("kind") in ("TemplateTypeParmDecl", "NonTypeTemplateParmDecl", "TemplateTemplateParmDecl")]
                fns = [x for x in inner(c) if x.get("kind") == "FunctionDecl"]
                if any(x.get("parentDeclContextId") for x in fns):
                    continue
                qt = fns[0].get("type", {}).get("qualType", "") if fns else ""
                ps = param_of(qt).replace(" ", "")
                if c.get("name") in kinds and all(x.get("kind") == "TemplateTypeParmDecl" for x in tps) and qt.startswith("bool"):
                    if ps == "constIntrusivePtr<T>&,constIntrusivePtr<U>&" and len(tps) == 2:
                        tag = "FCmpOp %s 2 true" % kinds[c["name"]]
                    elif ps == "constIntrusivePtr<T>&,constIntrusivePtr<T>&" and len(tps) == 1:
                        tag = "FCmpOp %s 1 false" % kinds[c["name"]]
                names.append("%s<%d> %s" % (c.get("name"), len(tps), qt))
                finv.append("template<%s> %s %s(%s)" % (",".join(x.get("name") or "?" for x in tps), qt[:qt.find("(")].strip(), c.get("name"), param_of(qt)))
            elif k == "TypeAliasTemplateDecl" and c.get("name") == "Ref":
                tag = "FAliasRef"
                al = [x for x in inner(c) if x.get("kind") == "TypeAliasDecl"]
                finv.append("template<T> using Ref = %s" % (al[0].get("type", {}).get("qualType", "?") if al else "?"))
            elif k == "TypeAliasDecl" and c.get("name") == "RefCount":
                tag = "FAliasRefCount"
                finv.append("using RefCount = %s" % c.get("type", {}).get("qualType", "?"))
            elif k == "FunctionDecl":
                finv.append("%s %s(%s)" % (c.get("type", {}).get("qualType", "").split("(")[0].strip(), c.get("name"), param_of(c.get("type", {}).get("qualType", ""))))
            if tag is None:
                tag = "FOtherFree %d" % other
                other += 1
                names.append("unclassified %s %s" % (k, c.get("name")))
                if k not in ("FunctionTemplateDecl", "FunctionDecl"):
                    finv.append("%s %s" % (k, c.get("name")))
            out.append(tag)
    if not seen_ns:
        out.append("FOtherFree 0")
    order = ["FCmpOp KLt", "FCmpOp KEq", "FCmpOp KNe", "FAliasRef", "FAliasRefCount"]
    key = lambda t: (next((i for i, o in enumerate(order) if t.startswith(o)), len(order)), t)
    return sorted(out, key=key), names, finv


def extract(repo, work):
    docs = dump(repo, work, "IntrusivePtr")
    spec = [d for d in docs if d.get("kind") == "ClassTemplateSpecializationDecl" and d.get("name") == "IntrusivePtr"
            and any("c08inst::Base" in json.dumps(a) for a in inner(d)[:1])]
    if not spec:
        spec = [d for d in docs if d.get("kind") == "ClassTemplateSpecializationDecl" and d.get("name") == "IntrusivePtr"]
    table = {}
    notes = []
    if not spec:
        notes.append("no instantiated IntrusivePtr<Base> in the AST dump")
        found, fd = {}, None
    else:
        found, fd = classify(spec[0])
    for m in METHS:
        if m not in found:
            if m == "MDefCtor" and fd:
                table[m] = ["MStore DThis %s" % fd]          # implicit default constructor
            else:
                table[m] = ["MUnknown"]
                notes.append("%s: member not found" % m)
            continue
        try:
            table[m] = translate_method(found[m], fd)
        except Exception as ex:   # extractor confusion is a broken fact, not a crash
            table[m] = ["MUnknown"]
            notes.append("%s: %r" % (m, ex))
    rdocs = dump(repo, work, "RefCountedObject")
    rc, info = rc_facts(rdocs)
    try:
        cmpf = cmp_facts(repo, work, spec[0] if spec else None)
    except Exception as ex:
        cmpf = {"c_eq": "CUnk", "c_ne": "CUnk", "c_lt": "CUnk", "a_bool": False, "a_arrow": False, "a_deref": False, "c_mixed": False}
        notes.append("comparison facts: %r" % (ex,))
    info["cmp"] = cmpf
    try:
        mem, names, minv = members(docs, rdocs)
    except Exception as ex:
        mem, names, minv = ["DOther 0"], [], []
        notes.append("member enumeration: %r" % (ex,))
    info["members"] = mem
    info["member_decls"] = names
    try:
        sel, detail = selection(repo, work)
    except Exception as ex:
        sel, detail = {}, {}
        notes.append("overload selection: %r" % (ex,))
    try:
        free, fnames, finv = free_decls(repo, work)
    except Exception as ex:
        free, fnames, finv = ["FOtherFree 0"], [], []
        notes.append("free declarations: %r" % (ex,))
    info["free"] = free
    info["free_decls"] = fnames
    info["inventory"] = list(minv) + list(finv)
    info["sel"] = {k: list(v) for k, v in sel.items()}
    info["sel_detail"] = detail
    return table, rc, info, notes


def coq_text(table, rc, cmpf=None, mem=None, sel=None, free=None):
    b = lambda x: "true" if x else "false"
    lines = ["(* GENERATED by props/C08/factgen.py from the working tree - do not edit, not under version control. *)",
             "From Coq Require Import List.", "From C08 Require Import Model.", "Import ListNotations.", "",
             "Definition gen_table (m : meth) : list mop :=", "  match m with"]
    for m in METHS:
        lines.append("  | %s => [%s]" % (m, "; ".join(table[m])))
    lines += ["  end.", "",
              "Definition gen_rc : rcfacts :=",
              "  mkRc %s %s %s %s %s %s %s %s." % tuple(b(rc.get(k, False)) for k in (
                  "rc_atomic", "rc_init_one", "rc_inc_single", "rc_dec_single", "rc_dec_own_result", "rc_dec_deletes", "rc_use_load", "rc_width64")),
              ""]
    cmpf = cmpf or {"c_eq": "CUnk", "c_ne": "CUnk", "c_lt": "CUnk", "a_bool": False, "a_arrow": False, "a_deref": False, "c_mixed": False}
    mem = mem if mem is not None else ["DOther 0"]
    sel = sel or {}
    forms = ["FDef", "FCopyL", "FMoveR", "FConvL", "FConvR", "FConvTemp", "FRawC", "FDtorF",
             "FAssignL", "FAssignR", "FAssignRaw", "FAssignConvL", "FAssignConvR", "FRawNull", "FAssignNull"]
    lines += ["Definition gen_members : list mdecl :=", "  [%s]." % "; ".join(mem), "",
              "Definition gen_sel (f : cform) : option meth * via :=", "  match f with"]
    for f in forms:
        m, v = sel.get(f, (None, "VUnknown"))
        lines.append("  | %s => (%s, %s)" % (f, "Some %s" % m if m else "None", v))
    lines += ["  end.", ""]
    lines += ["Definition gen_free : list fdecl :=", "  [%s]." % "; ".join(free if free is not None else ["FOtherFree 0"]), ""]
    lines += ["Definition gen_cmp : cmpfacts :=",
              "  mkCmp %s %s %s %s %s %s %s." % (cmpf["c_eq"], cmpf["c_ne"], cmpf["c_lt"], b(cmpf["a_bool"]), b(cmpf["a_arrow"]), b(cmpf["a_deref"]), b(cmpf.get("c_mixed", False))),
              ""]
    return "\n".join(lines)


# the table the Coq model uses (for the python-side diff that steers the search)
MODEL = {
    "MDtor": ["MDec true PThis"],
    "MDefCtor": ["MStore DThis PNull"],
    "MCopyCtor": ["MStore DThis PArg", "MInc true PThis"],
    "MMoveCtor": ["MStore DThis PArg", "MStore DArg PNull"],
    "MConvCtor": ["MStore DThis PArg", "MInc true PThis"],
    "MRawCtor": ["MStore DThis PArg", "MInc true PThis"],
    "MCopyAssign": ["MInc true PArg", "MDec true PThis", "MStore DThis PArg"],
    "MMoveAssign": ["MDec true PThis", "MStore DThis PArg", "MStore DArg PNull"],
    "MRawAssign": ["MInc true PArg", "MDec true PThis", "MStore DThis PArg"],
}


def main(argv):
    repo = os.environ.get("VERIF_REPO", "/repo")
    out = None
    js = None
    work = "/tmp/c08-factgen-%d" % os.getpid()
    i = 0
    while i < len(argv):
        if argv[i] == "--repo":
            repo = argv[i + 1]; i += 2
        elif argv[i] == "--out":
            out = argv[i + 1]; i += 2
        elif argv[i] == "--json":
            js = argv[i + 1]; i += 2
        elif argv[i] == "--work":
            work = argv[i + 1]; i += 2
        else:
            i += 1
    table, rc, info, notes = extract(repo, work)
    txt = coq_text(table, rc, info.get("cmp"), info.get("members"), {k: tuple(v) for k, v in (info.get("sel") or {}).items()}, info.get("free"))
    if out:
        os.makedirs(os.path.dirname(os.path.abspath(out)), exist_ok=True)
        if not os.path.exists(out) or open(out).read() != txt:
            with open(out, "w") as f:
                f.write(txt)
    else:
        print(txt)
    if js:
        with open(js, "w") as f:
            json.dump({"table": table, "rc": rc, "info": info, "notes": notes,
                       "differs_textually": [m for m in METHS if table[m] != MODEL[m]]}, f, indent=1)
    return 0


if __name__ == "__main__":
    sys.exit(main(sys.argv[1:]))
