#!/usr/bin/env python3
"""C16 fact extractor: reads the clang JSON AST of rkcommon/xml/XML.cpp in the working tree and writes
coq/C16/gen/Facts.v -- per static parsing function its body as a program of the cursor language of
coq/C16/FactsDefs.v (Peek = CRead p k, ++p, while with its progress pointer, if, throw, return, calls,
char-class tests ...), plus two fact records (makeString's guards/copy, readXML's buffer set-up).
Whatever is not recognised becomes CUnk / BUnk / SUnk / GOther / CopyOther, which no expected program
contains, so the obligations of coq/C16/PropertiesFacts.v fail closed.

usage: factgen.py [--repo DIR] [--out Facts.v] [--json facts.json] [--work DIR]
"""
import json
import os
import sys

HERE = os.path.dirname(os.path.abspath(__file__))
VERIF = os.path.dirname(os.path.dirname(HERE))
sys.path.insert(0, os.path.join(VERIF, "tools", "sxast"))
import sxast  # noqa: E402
from sxast import inner  # noqa: E402

# ---------------------------------------------------------------- sxast extensions (local, by patching the
# module's globals in this process only): character literals, throw, try/catch, switch
_orig_ex, _orig_st = sxast.ex, sxast.st


def _ex(n):
    k = n.get("kind")
    if k == "CharacterLiteral":
        return ("char", int(n.get("value")))
    if k == "CXXThrowExpr":
        ch = inner(n)
        return ("throw", _orig_ex(ch[0]) if ch else None)
    return _orig_ex(n)


def _st(n):
    k = n.get("kind")
    if k == "CXXTryStmt":
        ch = inner(n)
        handlers = []
        for c in ch[1:]:
            if c.get("kind") == "CXXCatchStmt":
                ty, body = None, None
                for x in (c.get("inner") or []):
                    if isinstance(x, dict) and x.get("kind") == "VarDecl":
                        ty = x.get("type", {}).get("qualType")
                    elif isinstance(x, dict) and x.get("kind") == "CompoundStmt":
                        body = sxast.st(x)
                handlers.append((ty, body))
        return ("try", sxast.st(ch[0]), handlers)
    if k == "SwitchStmt":
        # switch (e) { case a: case b: ... S; default: T; }  ->  ('switch', e, [([a, b], S)], T)   (no fall-through
        # between groups is accepted: every group must end in a return)
        ch = inner(n)
        cond, body = sxast.ex(ch[0]), ch[-1]
        groups, default = [], None
        for c in inner(body):
            labels, cur = [], c
            while cur.get("kind") in ("CaseStmt", "DefaultStmt"):
                sub = inner(cur)
                if cur.get("kind") == "CaseStmt":
                    labels.append(sxast.ex(sub[0]))
                else:
                    labels.append("default")
                cur = sub[-1]
            if not labels:
                return ("?", "SwitchStmt")
            s = sxast.st(cur)
            if "default" in labels:
                if len(labels) > 1:
                    return ("?", "SwitchStmt")
                default = s
            else:
                groups.append((labels, s))
        return ("switch", cond, groups, default)
    return _orig_st(n)


sxast.ex, sxast.st = _ex, _st

FUNCS = ["isWhite", "expect1", "expect2", "consume", "consumeComment", "consume_word", "makeString", "parseString",
         "parseIdentifier", "skipWhites", "parseProp", "skipComment", "parseNode", "parseHeader", "parseXML", "readXML"]
PARSE_FNS = {"expect", "consume", "consumeComment", "skipWhites", "parseIdentifier", "parseString", "parseProp",
             "skipComment", "parseNode", "parseHeader"}
CLASSES = {"isalpha": "KAlpha", "isdigit": "KDigit", "isspace": "KSpace"}


# ------------------------------------------------------------------ Coq printing
def q(s):
    return '"%s"' % s.replace('"', '""')


def nlist(b):
    return "[" + "; ".join("%d%%N" % c for c in b) + "]"


def slist(l):
    return "[" + "; ".join(q(x) for x in l) + "]"


class Tr:
    """translator of one function body; env: name -> 'ptr' | 'lit' | 'char' | 'str' | 'node' | 'doc'"""

    def __init__(self, env, notes, fname):
        self.env = dict(env)
        self.notes = notes
        self.fname = fname

    def note(self, what, s):
        self.notes.append("%s: unrecognised %s: %r" % (self.fname, what, s if len(repr(s)) < 300 else repr(s)[:300]))

    def kind(self, e):
        if isinstance(e, tuple) and len(e) == 3 and e[0] == "ref":
            return self.env.get(e[1])
        return None

    # ---- bytes
    def cexp(self, e):
        if isinstance(e, tuple):
            if e[0] == "char" or e[0] == "int":
                return "CLit %d%%N" % int(e[1])
            if e[0] == "un" and e[1] == "*" and self.kind(e[3]) == "ptr":
                return "CRead %s 0" % q(e[3][1])
            if e[0] == "un" and e[1] == "*" and self.kind(e[3]) == "lit":
                return "CVar %s" % q("*" + e[3][1])
            if e[0] == "idx" and self.kind(e[1]) == "ptr":
                i = e[2]
                if i[0] == "int":
                    return "CRead %s %d" % (q(e[1][1]), int(i[1]))
                if i[0] == "un" and i[1] == "-" and i[3][0] == "int":
                    return "CRead %s (-%d)" % (q(e[1][1]), int(i[3][1]))
            if e[0] == "ref" and self.kind(e) == "char":
                return "CVar %s" % q(e[1])
        self.note("byte expression", e)
        return "CUnk"

    def is_c(self, e):
        n = len(self.notes)
        r = self.cexp(e)
        del self.notes[n:]
        return r != "CUnk"

    def strname(self, e):
        if isinstance(e, tuple) and e[0] == "ref" and self.kind(e) == "str":
            return e[1]
        if isinstance(e, tuple) and e[0] == "mem" and self.kind(e[2]) in ("node", "doc"):
            return e[2][1] + "." + e[1]
        return None

    # ---- calls
    def call(self, e):
        """('call', f, s, args...) -> Coq Call term or None"""
        if not (isinstance(e, tuple) and e[0] == "call" and e[1] in PARSE_FNS and len(e) >= 3 and e[2] == ("ref", "s", "ParmVarDecl")):
            return None
        chars, words, outs = [], [], []
        for a in e[3:]:
            if isinstance(a, tuple) and a[0] == "str":
                words.append(a[1].encode("latin-1"))
            elif self.strname(a) is not None:
                outs.append(self.strname(a))
            elif self.is_c(a):
                chars.append(self.cexp(a))
            else:
                return None
        f = e[1]
        if f == "expect":
            f = "expect%d" % len(chars)
        if f == "consume" and words:
            f = "consume_word"
        return "(Call %s [%s] [%s] %s)" % (q(f), "; ".join(chars), "; ".join(nlist(w) for w in words), slist(outs))

    # ---- conditions
    def bexp(self, e):
        if isinstance(e, tuple):
            if e[0] == "bin" and e[1] in ("&&", "||"):
                return "(%s %s %s)" % ("BAnd" if e[1] == "&&" else "BOr", self.bexp(e[2]), self.bexp(e[3]))
            if e[0] == "bin" and e[1] in ("==", "!=", ">", "<"):
                a, b = e[2], e[3]
                if self.kind(a) in ("ptr", "lit") and self.kind(b) in ("ptr", "lit"):
                    if e[1] == "<":
                        a, b = b, a
                    return "(%s %s %s)" % ({"==": "BPtrEq", "!=": "BPtrNe", ">": "BPtrGt", "<": "BPtrGt"}[e[1]], q(a[1]), q(b[1]))
                if e[1] in ("==", "!=") and self.is_c(a) and self.is_c(b):
                    return "(%s (%s) (%s))" % ("BEq" if e[1] == "==" else "BNe", self.cexp(a), self.cexp(b))
            if e[0] == "un" and e[1] == "!":
                if self.kind(e[3]) in ("ptr", "lit"):
                    return "(BPtrNull %s)" % q(e[3][1])
                return "(BNot %s)" % self.bexp(e[3])
            if e[0] == "call" and e[1] in CLASSES and len(e) == 3 and self.is_c(e[2]):
                return "(BCls %s (%s))" % (CLASSES[e[1]], self.cexp(e[2]))
            if e[0] == "call" and e[1] == "isWhite" and len(e) == 3 and self.is_c(e[2]):
                return "(BPred %s (%s))" % (q("isWhite"), self.cexp(e[2]))
            if e[0] == "call":
                c = self.call(e)
                if c:
                    return "(BCall %s)" % c
            if e[0] == "op" and e[1] == "operator!=" and len(e) == 4:
                a, b = self.strname(e[2]), self.strname(e[3])
                if a and b:
                    return "(BStrNe %s %s)" % (q(a), q(b))
                if a and e[3] == ("str", ""):
                    return "(BStrNonEmpty %s)" % q(a)
            if e == ("int", "1") or e == ("bool", True):
                return "BTrue"
            if self.is_c(e) and e[0] in ("un", "idx"):          # while ( *word )
                return "(BNe (%s) (CLit 0%%N))" % self.cexp(e)
        self.note("condition", e)
        return "BUnk"

    # ---- statements
    def block(self, s):
        if s is None:
            return []
        if isinstance(s, tuple) and s and s[0] == "block":
            out = []
            for x in s[1]:
                out += self.block(x)
            return out
        return self.stmt(s)

    def seq(self, l):
        return "SSkip" if not l else (l[0] if len(l) == 1 else "(seq [%s])" % "; ".join(l))

    @staticmethod
    def msg_building(s):
        """std::stringstream err; err << ... ;  (builds the text of the exception)"""
        if isinstance(s, tuple) and s and s[0] == "decl" and s[2] == "std::stringstream":
            return True
        if isinstance(s, tuple) and s and s[0] == "expr":
            e = s[1]
            while isinstance(e, tuple) and e and e[0] == "op" and e[1] == "operator<<":
                e = e[2]
            return e == ("ref", "err", "VarDecl")
        return False

    def measure(self, body_sexp, cond_sexp):
        """the pointer whose movement bounds the loop: --p in the body (not inside a nested loop) -> MDown p;
        ++s or a call taking the cursor -> MUp "s" """
        found = {"dec": None, "up": False}

        def walk(x):
            if isinstance(x, tuple):
                if x and x[0] == "while":
                    return
                if len(x) == 4 and x[0] == "un" and x[1] == "--" and isinstance(x[3], tuple) and x[3][0] == "ref":
                    found["dec"] = found["dec"] or x[3][1]
                if x == ("ref", "s", "ParmVarDecl"):
                    found["up"] = True
                for y in x:
                    walk(y)
            elif isinstance(x, list):
                for y in x:
                    walk(y)
        walk(body_sexp)
        walk(cond_sexp)
        if found["dec"]:
            return "(MDown %s)" % q(found["dec"])
        return '(MUp "s")' if found["up"] else "MNone"

    def stmt(self, s):
        if s == "break":
            return ["SBreak"]
        if s == "continue":
            return ["SContinue"]
        if not isinstance(s, tuple) or not s:
            self.note("statement", s)
            return ['SUnk "?"']
        if self.msg_building(s):
            return []
        k = s[0]
        if k == "decls":
            out = []
            for d in s[1]:
                out += self.stmt(d)
            return out
        if k == "decl":
            name, ty, ini = s[1], s[2], s[3]
            if ty in ("char *", "const char *") and self.kind(ini) == "ptr":
                self.env[name] = "ptr"
                return ["SSetP %s %s" % (q(name), q(ini[1]))]
            if ty == "const char *" and self.kind(ini) == "lit":       # const char *in = word  (only used in the message)
                self.env[name] = "lit"
                return []
            if ty == "std::string" and ini in (None, ("construct", "std::string")):
                self.env[name] = "str"
                return ["SDeclStr %s" % q(name)]
            if ty == "rkcommon::xml::Node" and ini in (None, ("construct", "rkcommon::xml::Node")):
                self.env[name] = "node"
                return ["SDeclNode"]
        if k == "expr":
            e = s[1]
            if e[0] == "un" and e[1] in ("++", "--") and self.kind(e[3]) in ("ptr", "lit"):
                return ["%s %s" % ("SInc" if e[1] == "++" else "SDec", q(e[3][1]))]
            if e[0] == "bin" and e[1] == "=" and self.kind(e[2]) == "ptr" and self.kind(e[3]) == "ptr":
                return ["SSetP %s %s" % (q(e[2][1]), q(e[3][1]))]
            if e[0] == "call":
                c = self.call(e)
                if c:
                    return ["SDo %s" % c]
            if e[0] == "op" and e[1] == "operator=" and len(e) == 4:
                tgt, rhs = e[2], e[3]
                if self.strname(tgt) and rhs[0] == "call" and rhs[1] == "makeString" and len(rhs) == 4 \
                        and self.kind(rhs[2]) == "ptr" and self.kind(rhs[3]) == "ptr":
                    return ["SMakeStr %s %s %s" % (q(self.strname(tgt)), q(rhs[2][1]), q(rhs[3][1]))]
                if tgt[0] == "op" and tgt[1] == "operator[]" and self.strname(tgt[2]) == "node.properties" \
                        and self.strname(tgt[3]) and self.strname(rhs):
                    return ["SPropSet %s %s" % (q(self.strname(tgt[3])), q(self.strname(rhs)))]
            if e[0] == "mcall" and e[1] == "push_back" and len(e) == 4 and self.strname(e[2]) in ("node.child", "doc.child"):
                c = self.call(e[3])
                if c:
                    return ["SPushChild %s" % c]
            if e[0] == "throw":
                t = e[1]
                if isinstance(t, tuple) and t[0] == "construct" and t[1] == "std::runtime_error":
                    return ["SThrow"]
                self.note("throw (not std::runtime_error)", e)
                return ['SUnk "throw"']
            if e[0] == "op" and e[1] == "operator<<" and "('ref', 'cout', 'VarDecl')" in repr(e):
                return ["SWarn"]
        if k == "if":
            return ["SIf %s (%s) (%s)" % (self.bexp(s[1]), self.seq(self.block(s[2])), self.seq(self.block(s[3])))]
        if k == "for" and s[1] is None and s[2] is None and s[3] is None and s[4][0] == "block" and s[4][1] \
                and s[4][1][0][0] == "if" and s[4][1][0][3] is None and sxast_single(s[4][1][0][2]) == "break" \
                and "'break'" not in repr(s[4][1][1:]) and "'continue'" not in repr(s[4][1][1:]):
            c = s[4][1][0][1]
            c = c[3] if (c[0] == "un" and c[1] == "!") else ("un", "!", "pre", c)
            return self.stmt(("while", c, ("block", s[4][1][1:])))
        if k == "while":
            return ["SWhile %s %s (%s)" % (self.measure(s[2], s[1]), self.bexp(s[1]), self.seq(self.block(s[2])))]
        if k == "try" and len(s[2]) == 1 and s[2][0][0] is None:
            # catch (...) { build message; throw std::runtime_error }  : any failure is rethrown as runtime_error
            return ["STry (%s) (%s)" % (self.seq(self.block(s[1])), self.seq(self.block(s[2][0][1])))]
        if k == "ret":
            e = s[1]
            if e is None:
                return ["SRet RVoid"]
            if e[0] == "bool":
                return ["SRet (RBool %s)" % ("true" if e[1] else "false")]
            if e[0] == "construct" and e[1] == "rkcommon::xml::Node" and len(e) == 3 and self.kind(e[2]) == "node":
                return ["SRet RNode"]
        self.note("statement", s)
        return ['SUnk %s' % q(str(k))]


# ------------------------------------------------------------------ per-function extraction
def ptype(t):
    t = t.replace(" ", "")
    if t in ("char*&", "char*"):
        return "ptr"
    if t == "constchar*":
        return "lit"
    if t in ("constchar", "char"):
        return "char"
    if t == "std::string&":
        return "str"
    if t == "rkcommon::xml::XMLDoc&":
        return "doc"
    return None


def functions(docs):
    fns = []

    def walk(n):
        if n.get("kind") == "FunctionDecl" and any(c.get("kind") == "CompoundStmt" for c in inner(n)):
            fns.append(n)
        elif n.get("kind") == "NamespaceDecl":
            for c in inner(n):
                walk(c)

    for d in docs:
        walk(d)
    out = {}
    for f in fns:
        params = [(c.get("name"), c.get("type", {}).get("qualType", "")) for c in inner(f) if c.get("kind") == "ParmVarDecl"]
        nm = f.get("name")
        if nm == "expect":
            nm = "expect%d" % (len(params) - 1)
        elif nm == "consume" and params and ptype(params[-1][1]) == "lit":
            nm = "consume_word"
        if nm in out:
            out[nm] = None                      # ambiguous: fail closed
        else:
            out[nm] = (f, params)
    return out


def make_string_facts(body, notes):
    guards, empty, copy = ["GOther"], False, "CopyOther"
    if not body or body[0] != "block":
        return guards, empty, copy
    b = list(body[1])
    if b and b[0][0] == "if" and b[0][3] is None and repr(b[0][2]).find("'std::runtime_error'") >= 0 and "'throw'" in repr(b[0][2]):
        guards = []

        def disj(e):
            if e[0] == "bin" and e[1] == "||":
                disj(e[2])
                disj(e[3])
            elif e == ("un", "!", "pre", ("ref", "begin", "ParmVarDecl")):
                guards.append("GNullBegin")
            elif e == ("un", "!", "pre", ("ref", "end", "ParmVarDecl")):
                guards.append("GNullEnd")
            elif e in (("bin", ">", ("ref", "begin", "ParmVarDecl"), ("ref", "end", "ParmVarDecl")),
                       ("bin", "<", ("ref", "end", "ParmVarDecl"), ("ref", "begin", "ParmVarDecl"))):
                guards.append("GBeginGtEnd")
            else:
                guards.append("GOther")
                notes.append("makeString: unrecognised guard %r" % (e,))
        disj(b[0][1])
        b = b[1:]
    else:
        guards = []
    if b and b[0][0] == "if" and b[0][3] is None and b[0][1] in (("bin", "==", ("ref", "begin", "ParmVarDecl"), ("ref", "end", "ParmVarDecl")),
                                                                   ("bin", "==", ("ref", "end", "ParmVarDecl"), ("ref", "begin", "ParmVarDecl"))) \
            and "('str', '')" in repr(b[0][2]) and sxast_single(b[0][2])[0] == "ret":
        empty = True
        b = b[1:]
    rest = repr(b)
    diff = "('bin', '-', ('ref', 'end', 'ParmVarDecl'), ('ref', 'begin', 'ParmVarDecl'))"
    cstr = ("[('decl', 'mem', 'char *', ('?', 'CXXNewExpr')), "
            "('expr', ('call', 'memcpy', ('ref', 'mem', 'VarDecl'), ('ref', 'begin', 'ParmVarDecl'), %s)), "
            "('expr', ('bin', '=', ('idx', ('ref', 'mem', 'VarDecl'), %s), ('int', '0'))), "
            "('decl', 's', 'std::string', ('construct', 'std::string', ('construct', 'std::string', ('ref', 'mem', 'VarDecl')))), "
            "('expr', ('?', 'CXXDeleteExpr')), ('ret', ('construct', 'std::string', ('ref', 's', 'VarDecl')))]" % (diff, diff))
    if rest == cstr:
        copy = "CopyCStr"
    elif rest == "[('ret', ('construct', 'std::string', ('ref', 'begin', 'ParmVarDecl'), ('ref', 'end', 'ParmVarDecl')))]":
        copy = "CopyRange"
    else:
        notes.append("makeString: unrecognised copy %s" % rest[:400])
    return guards, empty, copy


def sxast_single(s):
    while isinstance(s, tuple) and s and s[0] == "block" and len(s[1]) == 1:
        s = s[1][0]
    return s


def read_xml_facts(body, notes):
    f = {"size_plus": 0, "fill": 255, "reads_numBytes": False, "parses_mem_data": False, "catch_rethrow": False, "open_throws": False}
    if not body or body[0] != "block":
        return f
    for s in body[1]:
        if s[0] == "decl" and s[1] == "mem" and s[2] == "std::vector<char>" and s[3] and s[3][0] == "construct" and len(s[3]) == 4:
            sz, fill = s[3][2], s[3][3]
            if sz[0] == "bin" and sz[1] == "+" and sz[2] == ("ref", "numBytes", "VarDecl") and sz[3][0] == "int":
                f["size_plus"] = int(sz[3][1])
            elif sz[0] == "bin" and sz[1] == "+" and sz[3] == ("ref", "numBytes", "VarDecl") and sz[2][0] == "int":
                f["size_plus"] = int(sz[2][1])
            if fill[0] in ("int", "char"):
                f["fill"] = int(fill[1])
        if s[0] == "if" and s[1] == ("un", "!", "pre", ("ref", "file", "VarDecl")) and "'std::runtime_error'" in repr(s[2]) and "'throw'" in repr(s[2]):
            f["open_throws"] = True
        if s[0] == "try":
            body_r = repr(s[1])
            f["reads_numBytes"] = "('call', 'fread', ('mcall', 'data', ('ref', 'mem', 'VarDecl')), ('int', '1'), ('ref', 'numBytes', 'VarDecl'), ('ref', 'file', 'VarDecl'))" in body_r
            f["parses_mem_data"] = "('call', 'parseXML', ('ref', 'doc', 'VarDecl'), ('mcall', 'data', ('ref', 'mem', 'VarDecl')))" in body_r
            hs = s[2]
            f["catch_rethrow"] = len(hs) == 1 and (hs[0][0] or "").replace(" ", "") == "conststd::runtime_error&" and "('throw'," in repr(hs[0][1])
    return f


def extract(repo, work):
    notes = []
    inc = os.path.join(VERIF, "build", "include")
    if not os.path.exists(os.path.join(inc, "rkcommon", "version.h")):       # bin/setup before any check ran
        os.makedirs(os.path.join(work, "rkcommon"), exist_ok=True)
        open(os.path.join(work, "rkcommon", "version.h"), "w").write(
            "#pragma once\n#define RKCOMMON_VERSION_MAJOR 1\n#define RKCOMMON_VERSION_MINOR 0\n#define RKCOMMON_VERSION_PATCH 0\n"
            "#define RKCOMMON_VERSION \"1.0.0\"\n")
    docs = sxast.dump(repo, work, '#include "rkcommon/xml/XML.cpp"\n', "rkcommon::xml", "xmlfacts", extra=["-I" + inc])
    fns = functions(docs)
    progs, sexps = {}, {}
    for nm in FUNCS:
        ent = fns.get(nm)
        if ent is None:
            notes.append("%s: function not found (or ambiguous)" % nm)
            progs[nm] = None
            continue
        f, params = ent
        body = sxast.body_of(f)
        sexps[nm] = body
        if nm == "makeString":
            progs[nm] = make_string_facts(body, notes)
            continue
        if nm == "readXML":
            progs[nm] = read_xml_facts(body, notes)
            continue
        env = {}
        for (pn, pt) in params:
            k = ptype(pt)
            if k is None:
                notes.append("%s: unrecognised parameter type %s" % (nm, pt))
            env[pn] = k
        tr = Tr(env, notes, nm)
        if nm == "isWhite":
            b = sxast_single(body)
            if b and b[0] == "switch" and b[3] == ("ret", ("bool", False)) and b[2] \
                    and all(s == ("ret", ("bool", True)) for (_, s) in b[2]):
                # switch (c) { case a: ... return true; default: return false; }  ==  c == a || ...
                e = None
                for (labels, _) in b[2]:
                    for lab in labels:
                        d = ("bin", "==", b[1], lab)
                        e = d if e is None else ("bin", "||", e, d)
                b = ("ret", e)
            progs[nm] = tr.bexp(b[1]) if (b and b[0] == "ret" and b[1] is not None) else "BUnk"
            if progs[nm] == "BUnk" and not any(n.startswith("isWhite") for n in notes):
                notes.append("isWhite: body is not a single return of a condition")
        else:
            progs[nm] = tr.seq(tr.block(body))
    try:
        progs.update(writer_facts(docs, notes))
        progs["_inventory"] = [list(x) for x in members(docs)[1]]
    except Exception as ex:
        notes.append("Writer fact extraction failed: %r" % (ex,))
    return progs, notes


# ------------------------------------------------------------------ Writer members, Node accessors
WRITER = ["spaces", "writeHeader", "writeFooter", "openNode", "writeProperty", "closeNode"]
THIS_XML = ("mem", "xml", "this")
THIS_STATE = ("mem", "state", "this")


def assert_of(e):
    """('cond', c, 0, __assert_fail(...)) -> assertion kind"""
    if not (isinstance(e, tuple) and e[0] == "cond" and isinstance(e[3], tuple) and e[3][:2] == ("call", "__assert_fail")):
        return None
    c = e[1]
    if c == THIS_XML:
        return "AXml"
    if c == ("un", "!", "pre", ("mcall", "empty", THIS_STATE)):
        return "ANonEmpty"
    if c == ("ref", "s", "VarDecl"):
        return "ATopPtr"
    if c == ("un", "!", "pre", ("mem", "hasContent", ("ref", "s", "VarDecl"))):
        return "ANoContent"
    return "AUnk"


def printf_of(e, notes, fn):
    if not (isinstance(e, tuple) and e[:3] == ("call", "fprintf", THIS_XML) and len(e) >= 4 and e[3][0] == "str"):
        return None
    args = []
    for a in e[4:]:
        if a[0] == "mcall" and a[1] == "c_str" and len(a) == 3 and a[2][0] == "ref" and a[2][2] == "ParmVarDecl":
            args.append("GParam %s" % q(a[2][1]))
        elif a == ("mcall", "c_str", ("mem", "type", ("ref", "s", "VarDecl"))):
            args.append("GTopType")
        else:
            notes.append("%s: unrecognised fprintf argument %r" % (fn, a))
            args.append("GUnk")
    return "WPrintf %s [%s]" % (nlist(e[3][1].encode("latin-1")), "; ".join(args))


def wstmt(s, notes, fn):
    if isinstance(s, tuple) and s and s[0] == "expr":
        e = s[1]
        a = assert_of(e)
        if a:
            return "WAssert %s" % a
        pf = printf_of(e, notes, fn)
        if pf:
            return pf
        if e == ("mcall", "spaces", "this"):
            return "WSpaces"
        if e == ("ref", "s", "VarDecl"):
            return "WNop"
    if isinstance(s, tuple) and s and s[0] == "decl" and s[1] == "s" and s[3] == ("mcall", "top", THIS_STATE):
        return "WTop"
    if isinstance(s, tuple) and s and s[0] == "if" and s[1] == ("mem", "hasContent", ("ref", "s", "VarDecl")) and s[3] is not None:
        return "WIfHasContent (%s) (%s)" % (wstmt(sxast_single(s[2]), notes, fn), wstmt(sxast_single(s[3]), notes, fn))
    if isinstance(s, tuple) and s and s[0] == "for" and s[1] == ("decl", "i", "size_t", ("int", "0")) \
            and s[2] == ("bin", "<", ("ref", "i", "VarDecl"), ("mcall", "size", THIS_STATE)) \
            and s[3] in (("un", "++", "post", ("ref", "i", "VarDecl")), ("un", "++", "pre", ("ref", "i", "VarDecl"))):
        return "WRepeatDepth (%s)" % wstmt(sxast_single(s[4]), notes, fn)
    notes.append("%s: unrecognised statement %r" % (fn, s if len(repr(s)) < 240 else repr(s)[:240]))
    return "WUnkS %s" % q(str(s[0]) if isinstance(s, tuple) and s else "?")


def writer_prog(body, notes, fn):
    if not body or body[0] != "block":
        return ['WUnkS "nobody"']
    b, out, i = list(body[1]), [], 0
    while i < len(b):
        s = b[i]
        # State *s = new State; s->type = X; state.push(s);
        if i + 2 < len(b) and s == ("decl", "s", "rkcommon::xml::Writer::State *", ("?", "CXXNewExpr")) \
                and b[i + 1][0] == "expr" and b[i + 1][1][:3] == ("op", "operator=", ("mem", "type", ("ref", "s", "VarDecl"))) \
                and b[i + 1][1][3][0] == "ref" and b[i + 1][1][3][2] == "ParmVarDecl" \
                and b[i + 2] == ("expr", ("mcall", "push", THIS_STATE, ("ref", "s", "VarDecl"))):
            out.append("WPushNew %s" % q(b[i + 1][1][3][1]))
            i += 3
            continue
        # delete s; state.pop();
        if i + 1 < len(b) and s == ("expr", ("?", "CXXDeleteExpr")) and b[i + 1] == ("expr", ("mcall", "pop", THIS_STATE)):
            out.append("WPop")
            i += 2
            continue
        out.append(wstmt(s, notes, fn))
        i += 1
    return out


NODEFN = {
    "hasProp": ("[('ret', ('op', 'operator!=', ('mcall', 'find', ('mem', 'properties', 'this'), ('ref', 'propName', 'ParmVarDecl')), "
                "('mcall', 'end', ('mem', 'properties', 'this'))))]", "NHasFind"),
    "getProp2": ("[('decl', 'it', 'IT', ('construct', 'IT', ('mcall', 'find', ('mem', 'properties', 'this'), ('ref', 'propName', 'ParmVarDecl')))), "
                 "('ret', ('construct', 'std::string', ('cond', ('op', 'operator!=', ('ref', 'it', 'VarDecl'), ('mcall', 'end', ('mem', 'properties', 'this'))), "
                 "('mem', 'second', ('op', 'operator->', ('ref', 'it', 'VarDecl'))), ('ref', 'fallbackValue', 'ParmVarDecl'))))]", "NGetFindOrFallback"),
    "getProp1": ("[('ret', ('construct', 'std::string', ('mcall', 'getProp', 'this', ('ref', 'propName', 'ParmVarDecl'), ('construct', 'std::string'))))]",
                 "NGetViaFallbackEmpty"),
}


def members(docs):
    """all function-like declarations of namespace rkcommon::xml with a body, keyed by a qualified label; plus the
    inventory of every declaration (label -> has_body)"""
    bodies, inventory = {}, []

    def label(n, path):
        k, nm = n.get("kind"), n.get("name")
        ty = n.get("type", {}).get("qualType", "")
        return "%s%s %s" % (path, nm, ty)

    def walk(n, path):
        k = n.get("kind")
        if k in ("NamespaceDecl", "CXXRecordDecl"):
            sub = path if k == "NamespaceDecl" else path + str(n.get("name")) + "::"
            if k == "CXXRecordDecl" and not n.get("completeDefinition"):
                return
            for c in inner(n):
                walk(c, sub)
        elif k in ("CXXMethodDecl", "CXXConstructorDecl", "CXXDestructorDecl", "FunctionDecl", "FieldDecl", "VarDecl"):
            if n.get("isImplicit"):
                return
            has = any(c.get("kind") == "CompoundStmt" for c in inner(n))
            if k == "CXXMethodDecl" or k == "CXXConstructorDecl" or k == "CXXDestructorDecl":
                # out-of-line definitions appear at namespace level: qualify them by their parent record
                pass
            inventory.append((k, label(n, path), has))
            if has:
                bodies.setdefault(label(n, path), n)
    for d in docs:
        walk(d, "")
    return bodies, inventory


def writer_facts(docs, notes):
    out = {}
    fns = {}
    hc_init = None

    def walk(n, inrec):
        k = n.get("kind")
        if k == "NamespaceDecl":
            for c in inner(n):
                walk(c, None)
        elif k == "CXXRecordDecl" and n.get("completeDefinition"):
            for c in inner(n):
                walk(c, n.get("name"))
        elif k == "FieldDecl" and n.get("name") == "hasContent" and inrec == "State":
            nonlocal hc_init
            ini = [x for x in inner(n) if x.get("kind") == "CXXBoolLiteralExpr" or x.get("kind") == "InitListExpr" or x.get("kind") == "ImplicitCastExpr"]
            txt = json.dumps(ini)
            hc_init = ('"value": false' in txt) and ('"value": true' not in txt)
        elif k in ("CXXMethodDecl", "CXXConstructorDecl") and any(c.get("kind") == "CompoundStmt" for c in inner(n)) and not n.get("isImplicit"):
            nparams = len([c for c in inner(n) if c.get("kind") == "ParmVarDecl"])
            key = n.get("name")
            if key == "getProp":
                key = "getProp%d" % nparams
            fns.setdefault(key, []).append(n)
    for d in docs:
        walk(d, None)
    for w in WRITER:
        cands = fns.get(w, [])
        if len(cands) != 1:
            notes.append("Writer::%s: %d definitions" % (w, len(cands)))
            out["w_" + w] = ['WUnkS "missing"']
        else:
            out["w_" + w] = writer_prog(sxast.body_of(cands[0]), notes, "Writer::" + w)
    for key, (expected, fact) in NODEFN.items():
        cands = fns.get(key, [])
        got = None
        if len(cands) == 1:
            import re as _re
            got = _re.sub(r"'(const )?std::map<[^']*const_iterator'", "'IT'", repr(sxast.body_of(cands[0])[1]))
        out["n_" + key] = fact if got == expected else "NUnkN"
        if got != expected:
            notes.append("Node::%s: unrecognised body %s" % (key, (got or "missing")[:300]))
    ct = [c for c in fns.get("Writer", [])]
    ok_inits = ok_body = False
    if len(ct) == 1:
        ok_body = sxast.body_of(ct[0]) == ("block", [])
        ok_inits = sxast.ctor_inits(ct[0])[:2] == [("xml", ("ref", "xml", "ParmVarDecl")), ("bin", ("ref", "bin", "ParmVarDecl"))]
    out["w_ctor"] = (ok_inits, ok_body, bool(hc_init))
    if not (ok_inits and ok_body and hc_init):
        notes.append("Writer constructor / State::hasContent initialiser not as expected: %r" % (out["w_ctor"],))
    return out


def coq_text(progs, notes):
    L = ["(* GENERATED by props/C16/factgen.py from the working tree (clang AST of rkcommon/xml/XML.cpp) - do not edit,",
         "   not under version control. *)",
         "From Coq Require Import String ZArith NArith List.",
         "From C16 Require Import FactsDefs.",
         "Import ListNotations.",
         "Local Open Scope string_scope.",
         "Local Open Scope Z_scope.",
         ""]
    for nm in FUNCS:
        p = progs.get(nm)
        if nm == "makeString":
            g, e, c = p if p else (["GOther"], False, "CopyOther")
            L.append("Definition f_makeString : msfacts := MkMs [%s] %s %s." % ("; ".join(g), "true" if e else "false", c))
        elif nm == "readXML":
            f = p or {"size_plus": 0, "fill": 255, "reads_numBytes": False, "parses_mem_data": False, "catch_rethrow": False, "open_throws": False}
            b = lambda v: "true" if v else "false"  # noqa: E731
            L.append("Definition f_readXML : rxfacts := MkRx %d%%N %d%%N %s %s %s %s." % (
                f["size_plus"], f["fill"], b(f["reads_numBytes"]), b(f["parses_mem_data"]), b(f["catch_rethrow"]), b(f["open_throws"])))
        elif nm == "isWhite":
            L.append("Definition f_isWhite : bexp :=\n  %s." % (p or "BUnk"))
        else:
            L.append("Definition f_%s : stmt :=\n  %s." % (nm, p or 'SUnk "missing"'))
        L.append("")
    for w in WRITER:
        L.append("Definition f_w_%s : list wstmt :=\n  [%s].\n" % (w, "; ".join(progs.get("w_" + w) or ['WUnkS "missing"'])))
    for key in ("hasProp", "getProp2", "getProp1"):
        L.append("Definition f_n_%s : nodefn := %s." % (key, progs.get("n_" + key) or "NUnkN"))
    a, b2, c = progs.get("w_ctor") or (False, False, False)
    bb = lambda v: "true" if v else "false"  # noqa: E731
    L.append("Definition f_w_ctor : wctor := MkWc %s %s %s.\n" % (bb(a), bb(b2), bb(c)))
    return "\n".join(L)


def main(argv):
    repo, out, js, work = "/repo", None, None, os.path.join(VERIF, "build", "C16", "ast")
    i = 0
    while i < len(argv):
        if argv[i] == "--repo":
            repo = argv[i + 1]
        elif argv[i] == "--out":
            out = argv[i + 1]
        elif argv[i] == "--json":
            js = argv[i + 1]
        elif argv[i] == "--work":
            work = argv[i + 1]
        i += 2
    try:
        progs, notes = extract(repo, work)
    except Exception as ex:                                      # clang failure etc.: everything unknown
        progs, notes = {}, ["extraction failed: %r" % (ex,)]
    txt = coq_text(progs, notes)
    if out:
        os.makedirs(os.path.dirname(os.path.abspath(out)), exist_ok=True)
        open(out, "w").write(txt)
    else:
        sys.stdout.write(txt)
    if js:
        json.dump({"inventory": progs.get("_inventory", []),
                   "programs": {k: (v if isinstance(v, (str, dict)) or v is None else list(v)) for k, v in progs.items() if k != "_inventory"},
                   "notes": notes}, open(js, "w"), indent=1)
    return notes


if __name__ == "__main__":
    for n in main(sys.argv[1:]):
        sys.stderr.write("note: %s\n" % n)
