"""C16 -- XML reading is total, memory-safe and faithful on its supported subset.
Tie B: hand-written Gallina model of the recursive-descent reader (coq/C16/Model.v) with the
theorems parse_total / parse_no_hang / parse_in_bounds / parse_cursor_final / parse_render /
props_sorted / props_last_wins (coq/C16/Properties.v); correspondence = extracted model vs the real
rkcommon::xml::readXML (ASan+UBSan, 3 s watchdog per file) on the same files.  The rendered
documents are produced by the extracted Coq function Render.render_doc from laid-out documents
inside Render.wf_doc (= the premise of parse_render) and compared with the extracted Render.doc_of."""
import ast, json, os, re, sys, time
import vlib
sys.path.insert(0, os.path.dirname(os.path.abspath(__file__)))
import factgen  # noqa: E402

REPO_SRC = ["rkcommon/xml/XML.cpp", "rkcommon/os/FileName.cpp"]

WHITE = b" \t\n\r"
SPACE = b" \t\n\r\v\f"
ALPHA = b"abcdefghijklmnopqrstuvwxyzABCDEFGHIJKLMNOPQRSTUVWXYZ"
DIGIT = b"0123456789"
MUT_ALPHABET = [b"<", b">", b"/", b'"', b"'", b"=", b"!", b"-", b"?", b"\\", b"\0", b" ", b"a", b"\v"]


def hx(b):
    return b.hex() if b else "-"


# ------------------------------------------------- concrete syntax trees (tree + layout)
# node  = {"name", "ws0", "props": [(k, w1, w2, q, v, w3)], "form": "self"|"open", "wbody", "items"}
# items = [("c", body, ws) | ("n", node, ws) | ("t", text, trail)]
# doc   = {"header": None | "bare" | (white, ws, props), "ws": ws, "items": [("c"|"n", ...)]}
def render_props(props):
    return b"".join(k + w1 + b"=" + w2 + q + v + q + w3 for (k, w1, w2, q, v, w3) in props)


def render_items(items):
    out = b""
    for it in items:
        if it[0] == "c":
            out += b"<!" + it[1] + b"-->" + it[2]
        elif it[0] == "n":
            out += render_node(it[1]) + it[2]
        else:
            out += it[1] + it[2]
    return out


def render_node(n):
    out = b"<" + n["name"] + n["ws0"] + render_props(n["props"])
    if n["form"] == "self":
        return out + b"/>"
    return out + b">" + n["wbody"] + render_items(n["items"]) + b"</" + n["name"] + b">"


def render_doc(d):
    h = d["header"]
    out = b"" if h is None else (b"<?xml?>" if h == "bare" else b"<?xml" + h[0] + h[1] + render_props(h[2]) + b"?>")
    return out + d["ws"] + render_items(d["items"])


# independent oracle: the tree the property demands, straight from the generating tree
def expect_node(n):
    pm = {}
    for (k, w1, w2, q, v, w3) in n["props"]:
        pm[k] = v                                   # last duplicate wins
    content = b""
    kids = []
    if n["form"] == "open":
        for it in n["items"]:
            if it[0] == "t":
                content = it[1]
            elif it[0] == "n":
                kids.append(expect_node(it[1]))
    return "(%s {%s} %s [%s])" % (hx(n["name"]), " ".join("%s=%s" % (hx(k), hx(pm[k])) for k in sorted(pm)),
                                  hx(content), " ".join(kids))


def expect_doc(d):
    return "(- {} - [%s])" % " ".join(expect_node(it[1]) for it in d["items"] if it[0] == "n")


# serialisation of a laid-out document for the extracted Coq functions (ocaml/C16/driver.ml, mode
# "render"): the bytes fed to readXML are Render.render_doc of the Coq definition, the expected
# tree is Render.doc_of, and Render.wf_doc says whether the document is in parse_render's premise
def ser_props(props):
    out = [str(len(props))]
    for (k, w1, w2, q, v, w3) in props:
        out += [hx(k), hx(w1), hx(w2), "D" if q == b'"' else "S", hx(v), hx(w3)]
    return out


def ser_items(items):
    out = []
    for it in items:
        if it[0] == "n":
            out += ["n"] + ser_node(it[1]) + [hx(it[2])]
        else:
            out += [it[0], hx(it[1]), hx(it[2])]
    return out + ["."]


def ser_node(n):
    if n["form"] == "self":
        return ["S", hx(n["name"]), hx(n["ws0"])] + ser_props(n["props"])
    return ["O", hx(n["name"]), hx(n["ws0"])] + ser_props(n["props"]) + [hx(n["wbody"])] + ser_items(n["items"])


def ser_doc(d):
    h = d["header"]
    out = ["H0"] if h is None else (["H1"] if h == "bare" else ["H2", hx(h[0]), hx(h[1])] + ser_props(h[2]))
    return " ".join(out + [hx(d["ws"])] + ser_items(d["items"]))


def features(d, f):
    """histogram of the layout choices exercised"""
    def bump(k):
        f[k] = f.get(k, 0) + 1

    def props(ps, where):
        names = [p[0] for p in ps]
        if len(set(names)) < len(names):
            bump(where + "_duplicate_prop")
        for (k, w1, w2, q, v, w3) in ps:
            bump("quote_double" if q == b'"' else "quote_single")
            if b"\\" in v:
                bump("value_with_escape")
            if not v:
                bump("value_empty")

    def node(n):
        bump("node_" + n["form"])
        props(n["props"], "node")
        for it in n.get("items", []):
            if it[0] == "n":
                node(it[1])
            elif it[0] == "c":
                bump("comment_in_node")
                if b"->" in it[1] or it[1].endswith(b"-"):
                    bump("comment_with_dash_gt_or_trailing_dash")
            else:
                bump("text")
                if it[2]:
                    bump("text_with_trailing_space")
                if any(c in b"\v\f" for c in it[2]):
                    bump("text_trail_VT_FF")
                if it[1][0] in b"\v\f":
                    bump("text_starting_VT_FF")
        if n["form"] == "open" and any(it[0] == "t" for it in n["items"]) and any(it[0] == "n" for it in n["items"]):
            bump("node_with_text_and_children")

    h = d["header"]
    bump("header_none" if h is None else ("header_bare" if h == "bare" else "header_props"))
    if h not in (None, "bare"):
        props(h[2], "header")
    for it in d["items"]:
        if it[0] == "n":
            node(it[1])
        else:
            bump("comment_top_level")


# ------------------------------------------------------------------ generators
def g_ws(r, allow_empty=True):
    c = r.random()
    if allow_empty and c < 0.45:
        return b""
    if c < 0.75:
        return b" "
    return bytes(r.choice(WHITE) for _ in range(r.randint(1, 3)))


def g_name(r, pool=None):
    if pool and r.random() < 0.7:
        return r.choice(pool)
    n = bytes([r.choice(ALPHA + b"_")])
    for _ in range(r.choice([0, 0, 1, 2, 3, 5])):
        n += bytes([r.choice(ALPHA + DIGIT + b"_.")])
    return n


VALCH = ALPHA[:6] + b"0 9<>/=!-?&;:.\t\n\x80\xff"
TXTCH = ALPHA[:6] + b"09>/=!-?\\\"'&;  \t\n\v\f\x80\xff"
CMTCH = ALPHA[:4] + b"<>/\"'=!-?\\ \n--"


def g_value(r, q):
    out = b""
    esc = r.random() < 0.25
    for _ in range(r.choice([0, 1, 1, 2, 3, 6])):
        if esc and r.random() < 0.3:
            out += b"\\" + bytes([r.choice(VALCH + b"\"'\\")])
        else:
            c = r.choice(VALCH + (b"'" if q == b'"' else b'"'))
            out += bytes([c])
    return out


def g_props(r, ws_first_needed=True):
    pool = [b"a", b"b", b"id", b"x.y", b"_p", b"B1"]
    props = []
    for _ in range(r.choice([0, 0, 1, 1, 2, 3, 4])):
        q = r.choice([b'"', b"'"])
        props.append((g_name(r, pool), g_ws(r), g_ws(r), q, g_value(r, q), g_ws(r)))
    return props


def g_comment(r):
    while True:
        body = bytes(r.choice(CMTCH) for _ in range(r.choice([0, 1, 2, 3, 5, 8])))
        if r.random() < 0.7:
            body = b"--" + body
        if b"-->" not in body:
            return body


def g_text(r):
    while True:
        t = bytes(r.choice(TXTCH) for _ in range(r.choice([1, 1, 2, 3, 5, 9])))
        if t[0] in WHITE or t[-1] in SPACE:
            continue
        return t


def g_trail(r):
    if r.random() < 0.5:
        return b""
    return bytes(r.choice(SPACE) for _ in range(r.randint(1, 3)))


def g_node(r, depth, maxfan):
    props = g_props(r)
    n = {"name": g_name(r, [b"a", b"b", b"node", b"A_1.x"]), "props": props,
         "ws0": g_ws(r, allow_empty=not props), "wbody": b"", "items": []}
    if r.random() < (0.25 if depth > 0 else 0.5):
        n["form"] = "self"
        return n
    n["form"] = "open"
    n["wbody"] = g_ws(r)
    items = []
    nkids = r.randint(0, maxfan) if depth > 0 else 0
    kinds = ["n"] * nkids + ["c"] * r.choice([0, 0, 0, 1, 2]) + (["t"] if r.random() < 0.5 else [])
    r.shuffle(kinds)
    for k in kinds:
        if k == "n":
            items.append(("n", g_node(r, depth - 1, maxfan), g_ws(r)))
        elif k == "c":
            items.append(("c", g_comment(r), g_ws(r)))
        else:
            items.append(("t", g_text(r), g_trail(r)))
    n["items"] = items
    return n


def g_doc(r, depth, maxfan):
    c = r.random()
    if c < 0.4:
        h = None
    elif c < 0.5:
        h = "bare"
    else:
        hp = []
        for _ in range(r.choice([0, 1, 1, 2])):
            q = r.choice([b'"', b"'"])
            hp.append((r.choice([b"version", b"encoding", b"v"]), g_ws(r), g_ws(r), q, g_value(r, q), g_ws(r)))
        h = (bytes([r.choice(WHITE)]), g_ws(r), hp)
    items = []
    for _ in range(r.choice([0, 1, 1, 1, 2, 3])):
        if r.random() < 0.25:
            items.append(("c", g_comment(r), g_ws(r)))
        else:
            items.append(("n", g_node(r, depth, maxfan), g_ws(r)))
    return {"header": h, "ws": g_ws(r), "items": items}


def deep_doc(depth):
    """a chain of nested nodes (the property bounds the nesting depth; native stack = partial)"""
    n = {"name": b"z", "ws0": b"", "props": [], "form": "self", "wbody": b"", "items": []}
    for k in range(depth):
        n = {"name": b"a", "ws0": b"", "props": [], "form": "open", "wbody": b"",
             "items": [("n", n, b"")] + ([("t", b"x", b"")] if k % 2 else [])}
    return {"header": None, "ws": b"", "items": [("n", n, b"")]}


def count_nodes(d):
    def cn(n):
        return 1 + sum(cn(it[1]) for it in n.get("items", []) if it[0] == "n")
    return sum(cn(it[1]) for it in d["items"] if it[0] == "n")


def mutants(doc):
    out = [doc[:k] for k in range(len(doc))]
    for i in range(len(doc)):
        out.append(doc[:i] + doc[i + 1:])
        for a in MUT_ALPHABET:
            if doc[i:i + 1] != a:
                out.append(doc[:i] + a + doc[i + 1:])
    for i in range(len(doc) + 1):
        for a in MUT_ALPHABET:
            out.append(doc[:i] + a + doc[i:])
    return out


# systematic sweep: every byte value 0x00..0xFF at every syntactic position class of the reader
# ({X} = the swept byte).  Independent of the random streams; 256 x len(SWEEP) files.
SWEEP = [
    ("file_start", b"{X}<a/>"), ("after_lt", b"<{X}"), ("name_start", b"<{X}a/>"), ("name_start_only", b"<{X}>t</{X}>"),
    ("name_cont", b"<a{X}b/>"), ("name_last", b"<a{X}/>"), ("name_cont_open", b"<a{X}>t</a{X}>"),
    ("after_name_ws", b"<a {X}/>"), ("attr_name_start", b"<a {X}b=\"v\"/>"), ("attr_name_cont", b"<a b{X}c='v'/>"),
    ("attr_name_last", b"<a b{X}=\"v\"/>"), ("before_eq", b"<a b {X}=\"v\"/>"), ("after_eq", b"<a b={X}\"v\"/>"),
    ("instead_of_quote", b"<a b={X}v\"/>"), ("in_dquotes", b"<a b=\"v{X}w\"/>"), ("in_squotes", b"<a b='v{X}w'/>"),
    ("value_only", b"<a b=\"{X}\"/>"), ("after_backslash", b"<a b=\"\\{X}\" c='\\{X}'/>"), ("value_unterminated", b"<a b='v{X}"),
    ("after_value", b"<a b=\"v\"{X}c='w'/>"), ("after_slash", b"<a/{X}>"), ("instead_of_gt", b"<a/{X}"), ("after_gt", b"<a>{X}</a>"),
    ("text_start", b"<a>{X}u</a>"), ("text_mid", b"<a>t{X}u</a>"), ("text_end", b"<a>t{X}</a>"), ("text_end_ws", b"<a>t{X} \t</a>"),
    ("text_only_at_eof", b"<a> {X}"), ("after_child", b"<a><b/>{X}</a>"), ("close_after_lt_slash", b"<a></{X}>"),
    ("close_name_start", b"<a></{X}a>"), ("close_name_cont", b"<ab></a{X}b>"), ("close_name_last", b"<a></a{X}>"),
    ("comment_body", b"<!--{X}--><a/>"), ("comment_body_in_node", b"<a><!-{X}-></a>"), ("comment_after_bang", b"<!{X}--><a/>"),
    ("comment_close", b"<a><!--c-{X}></a>"), ("comment_unterminated", b"<!-- {X}"), ("header_after_xml", b"<?xml{X}?><a/>"),
    ("header_prop_start", b"<?xml {X}v=\"1\"?><a/>"), ("header_prop_cont", b"<?xml v{X}='1' w=\"2\"?><a/>"),
    ("header_value", b"<?xml version=\"{X}\"?><a/>"), ("header_before_close", b"<?xml v='1'{X}?><a/>"),
    ("header_close", b"<?xml v='1'?{X}<a/>"), ("after_header", b"<?xml?>{X}<a/>"), ("between_top_nodes", b"<a/>{X}<b/>"),
    ("file_end", b"<a/>{X}"), ("lone", b"{X}"),
]


def sweep_cases():
    out = []
    for (pos, tpl) in SWEEP:
        for x in range(256):
            out.append((pos, tpl.replace(b"{X}", bytes([x]))))
    return out


# file-size boundaries: "every byte sequence given to readXML as a file" includes its SIZE.  Files whose sizes are
# exactly k * 2^j (sector / page / 64 KiB / 2 MiB multiples) and +-1, with contents that make the parser run up to the
# terminator (trailing blanks, an unterminated comment/value, unclosed text), each in a forked child so that a signal
# (SIGBUS / SIGSEGV) is reported as a crash together with the size.  The expected result is known by construction.
def size_cases():
    sizes = {0}
    for base, ks in ((512, (1, 2, 3)), (4096, (1, 2, 3, 4)), (65536, (1, 2))):
        for k in ks:
            for d in (-1, 0, 1):
                sizes.add(base * k + d)
    out = []
    for n in sorted(sizes):
        out.append(("blanks", n, b" " * n, "(- {} - [])"))
        if n >= 16:
            pre = b'<a k="v">t</a>'
            out.append(("doc+blanks", n, pre + b"\n" * (n - len(pre)), "(- {} - [(61 {6b=76} 74 [])])"))
            out.append(("doc+comment", n, b"<a/><!--" + b"c" * (n - 11) + b"-->", "(- {} - [(61 {} - [])])"))
            out.append(("text", n, b"<a>" + b"x" * (n - 7) + b"</a>", "(- {} - [(61 {} %s [])])" % (b"x" * (n - 7)).hex()))
            out.append(("unclosed_text", n, b"<a>" + b"x" * (n - 3), "(- {} - [(61 {} %s [])])" % (b"x" * (n - 3)).hex()))
            out.append(("unterminated_value", n, b'<a b="' + b"v" * (n - 6), "THROW"))
            out.append(("unterminated_comment", n, b"<a/><!--" + b"c" * (n - 8), "THROW"))
    for n in (2 * 1024 * 1024 - 1, 2 * 1024 * 1024, 2 * 1024 * 1024 + 1):
        out.append(("blanks", n, b" " * n, "(- {} - [])"))
        out.append(("doc+blanks", n, b"<a/>" + b" " * (n - 4), "(- {} - [(61 {} - [])])"))
    return out


def size_boundary_check(ctx, exe, scratch):
    cases = size_cases()
    rc, o, err = ctx.run_exe(exe, [scratch, "fork"], stdin="\n".join(hx(b) for (_, _, b, _) in cases) + "\n", timeout=150)
    got = o.split("\n")
    bad = []
    for i, (kind, n, b, want) in enumerate(cases):
        g = got[i] if i < len(got) and got[i] else "<no output: harness died rc=%s>" % rc
        if g != want and g != "SKIPPED":
            bad.append((n, kind, g, want, b))
    ctx.count(len(cases))
    ctx.cov["file_size_boundaries"] = {"files": len(cases), "sizes": sorted({n for (_, n, _, _) in cases}), "failing": len(bad)}
    for (n, kind, g, want, b) in sorted(bad, key=lambda x: x[0])[:3]:
        sig = re.match(r"CRASH sig=(\d+)", g)
        what = ("readXML is killed by signal %s" % sig.group(1)) if sig else (
            ("readXML crashes (%s: %s)" % (g[:20], asan_summary(err)[:160])) if g.startswith("CRASH") else ("readXML answers %s" % g[:80]))
        ctx.violation("%s on a file of exactly %d bytes (%s; %d of %d size-boundary files fail; failing sizes: %s)"
                      % (what, n, kind, len(bad), len(cases), sorted({x[0] for x in bad})[:12]),
                      {"file_size": n, "content_kind": kind, "input_hex": hx(b) if n <= 20000 else None,
                       "input": (repr(b[:40]) + " ... " + repr(b[-20:])) if n > 60 else repr(b),
                       "observed": g[:300], "required": want[:300], "stderr_tail": err[-1500:]})


def load_corpus(ctx):
    p = os.path.join(ctx.verif, "corpus", "C16", "docs.txt")
    docs = []
    if os.path.exists(p):
        for ln in open(p):
            ln = ln.strip()
            if ln and not ln.startswith("#"):
                docs.append(ast.literal_eval(ln))
    return docs


# ------------------------------------------------------------ running the harness
def run_impl(ctx, exe, scratch, lines):
    """Run all cases through one harness process; when a sanitizer report kills it (or the 3 s
    watchdog fires: line HANG), note the killing case and continue after it in fork mode (at most
    25 further abnormal cases are run, the rest is SKIPPED).  Returns (out_lines, crash_reports)."""
    out, reports = [], {}
    rc, o, err = ctx.run_exe(exe, [scratch], stdin="\n".join(lines) + "\n", timeout=ctx.pick(150, 1200))
    got = o.split("\n")[:-1] if o.endswith("\n") else [x for x in o.split("\n") if x]
    out += got[:len(lines)]
    if len(out) < len(lines):
        if not (out and out[-1] == "HANG" and rc == 96):
            out.append("CRASH rc=%s" % rc)
        n = len(out) - 1
        reports[n] = err[-2500:]
        rest = lines[n + 1:]
        if rest:
            rc2, o2, err2 = ctx.run_exe(exe, [scratch, "fork"], stdin="\n".join(rest) + "\n", timeout=ctx.pick(150, 1200))
            got2 = o2.split("\n")[:-1] if o2.endswith("\n") else o2.split("\n")
            out += got2[:len(rest)]
            while len(out) < len(lines):
                out.append("<no output: harness died>")
            reports[-1] = err2[-2500:]
    return out, reports


def asan_summary(err):
    for ln in err.splitlines():
        if "ERROR: AddressSanitizer" in ln or "runtime error" in ln:
            return ln.strip()[:200]
    return err.strip()[-200:]


FACT_THMS = ("facts_w_spaces", "facts_w_writeHeader", "facts_w_writeFooter", "facts_w_openNode", "facts_w_writeProperty", "facts_w_closeNode",
             "facts_w_ctor", "facts_node_accessors", "facts_isWhite_bytes", "facts_expect1", "facts_expect2", "facts_consume", "facts_skipWhites", "facts_parseString",
             "facts_parseIdentifier", "facts_parseProp", "facts_consumeComment", "facts_skipComment", "facts_parseHeader",
             "facts_makeString", "facts_parseNode", "facts_parseXML", "facts_consume_word", "facts_readXML_buffer")


def source_facts(ctx):
    """regenerate coq/C16/gen/Facts.v from the working tree (clang AST of rkcommon/xml/XML.cpp)"""
    gen_v = os.path.join(ctx.coqdir, "gen", "Facts.v")
    js = os.path.join(ctx.build, "facts.json")
    ctx.include_dir()
    try:
        notes = factgen.main(["--repo", ctx.repo, "--out", gen_v, "--json", js, "--work", os.path.join(ctx.build, "ast")])
    except Exception as ex:                                   # fail closed: everything unknown
        notes = ["fact extraction failed: %r" % (ex,)]
        os.makedirs(os.path.dirname(gen_v), exist_ok=True)
        open(gen_v, "w").write(factgen.coq_text({}, notes))
    ctx.cov["source_facts_notes"] = notes[:10]
    return notes


# ------------------------------------------------------------------ inventory of xml/XML.{h,cpp}
# every declaration of namespace rkcommon::xml (key = "name type", class qualifier dropped) is either covered
# by obligations + harness, or out of scope with a reason; an unknown declaration fails the check closed.
COVERED, OUT = "covered", "out of scope"
INVENTORY = {
    "readXML rkcommon::xml::XMLDoc (const std::string &)": (COVERED, "Model.parse + facts_readXML_buffer; reader harness"),
    "isWhite bool (char)": (COVERED, "facts_isWhite_bytes"), "expect void (char *&, const char)": (COVERED, "facts_expect1"),
    "expect void (char *&, const char, const char)": (COVERED, "facts_expect2"), "consume void (char *&, const char)": (COVERED, "facts_consume"),
    "consumeComment void (char *&)": (COVERED, "facts_consumeComment"), "consume void (char *&, const char *)": (COVERED, "facts_consume_word (structural)"),
    "makeString std::string (const char *, const char *)": (COVERED, "facts_makeString"), "parseString void (char *&, std::string &)": (COVERED, "facts_parseString"),
    "parseIdentifier bool (char *&, std::string &)": (COVERED, "facts_parseIdentifier"), "skipWhites void (char *&)": (COVERED, "facts_skipWhites"),
    "parseProp bool (char *&, std::string &, std::string &)": (COVERED, "facts_parseProp"), "skipComment bool (char *&)": (COVERED, "facts_skipComment"),
    "parseNode rkcommon::xml::Node (char *&)": (COVERED, "facts_parseNode"), "parseHeader bool (char *&)": (COVERED, "facts_parseHeader"),
    "parseXML void (rkcommon::xml::XMLDoc &, char *)": (COVERED, "facts_parseXML (structural)"),
    "hasProp bool (const std::string &) const": (COVERED, "facts_node_accessors, has_prop_written; writer harness probes"),
    "getProp std::string (const std::string &) const": (COVERED, "facts_node_accessors; writer harness probes"),
    "getProp std::string (const std::string &, const std::string &) const": (COVERED, "facts_node_accessors, get_prop_written; writer harness probes"),
    "name std::string": (COVERED, "Model.node field; dumped by both harnesses"), "content std::string": (COVERED, "Model.node field"),
    "properties std::map<std::string, std::string>": (COVERED, "Model.pmap, props_sorted / props_last_wins"), "child std::vector<Node>": (COVERED, "Model.node field"),
    "fileName rkcommon::FileName": (COVERED, "reader harness checks doc.fileName == path (FileName itself is property C18)"),
    "Writer void (FILE *, FILE *)": (COVERED, "facts_w_ctor"), "writeHeader void (const std::string &)": (COVERED, "facts_w_writeHeader, writer_round_trip"),
    "writeFooter void ()": (COVERED, "facts_w_writeFooter"), "openNode void (const std::string &)": (COVERED, "facts_w_openNode, writer_round_trip / writer_nested_refuted"),
    "writeProperty void (const std::string &, const std::string &)": (COVERED, "facts_w_writeProperty, writer_round_trip / writer_quote_refuted"),
    "closeNode void ()": (COVERED, "facts_w_closeNode"), "spaces void ()": (COVERED, "facts_w_spaces"),
    "xml FILE *": (COVERED, "WriterModel.w_out (the bytes written to it)"), "state std::stack<State *>": (COVERED, "WriterModel.w_stack"),
    "hasContent bool": (COVERED, "WriterModel.w_stack (first component), facts_w_ctor (initialised false)"), "type std::string": (COVERED, "WriterModel.w_stack (second component)"),
    "bin FILE *": (OUT, "only stored by the constructor; the members that would use it (alignData, writeData) are declared but defined nowhere"),
    "writeContent void (const std::string &, const std::string &)": (OUT, "declared in XML.h, defined nowhere in the repository (calling it does not link)"),
    "alignData void (size_t)": (OUT, "declared in XML.h, defined nowhere in the repository"),
    "writeData size_t (const void *, size_t)": (OUT, "declared in XML.h, defined nowhere in the repository"),
    "toString std::string (const float)": (OUT, "operator<< float formatting of libstdc++ (no Coq model of %g); the writer harness compares a few values with printf %g"),
    "toString std::string (const math::vec3f &)": (OUT, "as toString(float); harness checks the 'x y z' shape on one value"),
    "Node void () noexcept": (OUT, "defaulted special member"), "~Node void () noexcept": (OUT, "defaulted special member"),
    "XMLDoc void () noexcept(false)": (OUT, "defaulted special member"), "~XMLDoc void () noexcept": (OUT, "defaulted special member"),
}


def inventory_check(ctx):
    try:
        inv = json.load(open(os.path.join(ctx.build, "facts.json"))).get("inventory", [])
    except Exception:
        inv = []
    if not inv:
        ctx.broken.append("inventory of rkcommon/xml/XML.{h,cpp} could not be extracted")
        return
    seen = set()
    for (kind, label, has_body) in inv:
        key = re.sub(r"^(\w+::)+", "", label)
        seen.add(key)
        if key not in INVENTORY:
            ctx.broken.append("declaration of rkcommon/xml/XML.{h,cpp} that the check does not know: %s %s (add an obligation + harness "
                              "coverage or list it as out of scope with a reason in props/C16/check.py INVENTORY)" % (kind, label))
    ctx.cov["inventory"] = {"declarations": len(seen), "covered": sum(1 for k in seen if INVENTORY.get(k, ("",))[0] == COVERED),
                            "out_of_scope": {k: INVENTORY[k][1] for k in sorted(seen) if INVENTORY.get(k, ("",))[0] == OUT}}


# ------------------------------------------------------------------ the Writer
def ser_ops(ops, keys=()):
    out = []
    for o in ops:
        out += [o[0]] + [hx(x) for x in o[1:]]
    if keys:
        out += ["?"] + [hx(k) for k in keys]
    return " ".join(out)


def writer_expected(ops):
    """the tree a FLAT valid op sequence must read back as"""
    kids, cur = [], None
    for o in ops:
        if o[0] == "O":
            cur = (o[1], {})
        elif o[0] == "P":
            cur[1][o[1]] = o[2]
        elif o[0] == "C":
            kids.append("(%s {%s} - [])" % (hx(cur[0]), " ".join("%s=%s" % (hx(k), hx(cur[1][k])) for k in sorted(cur[1]))))
    return "(- {} - [%s])" % " ".join(kids)


def py_writer(ops):
    """independent python rendition of the Writer: output bytes, or None when an assert of the Writer fires"""
    out, stack = b"", []
    cs = lambda x: x.split(b"\0")[0]  # noqa: E731
    for o in ops:
        if o[0] == "H":
            out += b'<?xml version="' + cs(o[1]) + b'"?>\n'
        elif o[0] == "O":
            out += b"  " * len(stack) + b"<" + cs(o[1])
            stack.append(o[1])
        elif o[0] == "P":
            if not stack:
                return None
            out += b" " + cs(o[1]) + b'="' + cs(o[2]) + b'"'
        elif o[0] == "C":
            if not stack:
                return None
            stack.pop()
            out += b"/>\n"
    return out


def writer_cases(ctx, r):
    cases = []                                        # (kind, ops, keys)
    # exhaustive: every sequence of at most 4 operations over a small alphabet
    alpha = [("H", b"1.0"), ("F",), ("O", b"a"), ("O", b"b"), ("P", b"k", b"v"), ("P", b"k", b"w"), ("C",)]
    seqs = [[]]
    for n in range(4):
        seqs = [s + [a] for s in seqs for a in alpha]
        for s in seqs:
            cases.append(("short", s, [b"k", b"z"]))
    # random flat documents inside the precondition of writer_round_trip
    for i in range(ctx.pick(1500, 15000)):
        ops, keys = [], [b"zz"]
        if r.random() < 0.5:
            ops.append(("H", g_value(r, b'"')))
        for _ in range(r.choice([0, 1, 1, 2, 3])):
            ops.append(("O", g_name(r, [b"a", b"node", b"A_1.x"])))
            for _ in range(r.choice([0, 0, 1, 2, 3, 4])):
                k = g_name(r, [b"a", b"b", b"id", b"x.y"])
                keys.append(k)
                ops.append(("P", k, g_value(r, b'"')))
            ops.append(("C",))
            if r.random() < 0.2:
                ops.append(("F",))
        ops.append(("F",))
        cases.append(("flat", ops, keys[:6]))
    # random sequences outside it: nesting, values with quotes / backslashes / '<' / NUL, odd names
    odd = [b'x"y', b'x" z="1', b"\\", b"a\\", b"<", b"a<b", b"", b"\0x", b"1a", b"a b", b"v"]
    for i in range(ctx.pick(1500, 15000)):
        ops, depth = [], 0
        for _ in range(r.randint(1, 8)):
            c = r.random()
            if c < 0.35:
                ops.append(("O", r.choice([b"a", b"b", b"n1", r.choice(odd)])))
                depth += 1
            elif c < 0.65 and depth > 0:
                ops.append(("P", r.choice([b"k", b"q", r.choice(odd)]), r.choice(odd)))
            elif c < 0.9 and depth > 0:
                ops.append(("C",))
                depth -= 1
            elif c < 0.95:
                ops.append(("H", r.choice(odd)))
            else:
                ops.append(("F",))
        while depth > 0 and r.random() < 0.8:
            ops.append(("C",))
            depth -= 1
        cases.append(("any", ops, [b"k", b"q"]))
    return cases


def writer_check(ctx, model, wexe, scratch):
    r = ctx.rng("writer")
    cases = writer_cases(ctx, r)
    lines = [ser_ops(ops, keys) for (_, ops, keys) in cases]
    ml = None
    if model:
        rc, ml, merr = vlib.run_lines(ctx, model, ["writer"], lines, timeout=200)
        if rc != 0 or len(ml) != len(lines):
            ctx.broken.append("model driver (writer) failed rc=%s lines=%d/%d %s -- python oracle only" % (rc, len(ml), len(lines), merr[-300:]))
            ml = None
    have_model = ml is not None
    pyw = [py_writer(ops) for (_, ops, _) in cases]
    if have_model:
        for i, m in enumerate(ml):
            if (m == "ABORT") != (pyw[i] is None) or (pyw[i] is not None and m.split(" ")[0] != hx(pyw[i])):
                ctx.broken.append("python Writer oracle disagrees with WriterModel on %s: %s" % (lines[i][:120], m[:120]))
                break
        run_idx = [i for i, m in enumerate(ml) if m not in ("ABORT", "BADCASE")]
        if any(m == "BADCASE" for m in ml):
            ctx.broken.append("writer driver rejected a generated op sequence")
    else:                                             # no model: the python Writer decides which sequences are assert-free
        run_idx = [i for i in range(len(cases)) if pyw[i] is not None]
        ml = [None] * len(cases)
    rc, o, err = ctx.run_exe(wexe, [scratch], stdin="\n".join(lines[i] for i in run_idx) + "\n", timeout=150)
    il = o.split("\n")
    ts = il[0] if il else ""
    il = il[1:]
    import struct
    want = "TOSTRING " + " ".join("%g" % struct.unpack("f", struct.pack("f", x))[0]
                                  for x in (0.0, 1.5, -2.25, 1e10, 1e-5, 3.14159274, 123456.789, 100000.0, 1000000.0)) + " | 1 -0.5 0.001"
    if ts != want and ts != "TOSTRING-NOT-BUILT":
        ctx.violation("xml::toString does not format like operator<< / %g", {"observed": ts, "required": want})
    hist = {"abort_by_assert": len(lines) - len(run_idx)}
    bad_model, bad_tree, outside_not_read_back = [], [], 0
    for n, i in enumerate(run_idx):
        got = il[n] if n < len(il) else "<no output: harness died rc=%s %s>" % (rc, asan_summary(err))
        kind, ops, keys = cases[i]
        hist[kind] = hist.get(kind, 0) + 1
        parts = got.split(" ")
        if have_model and got != ml[i]:
            bad_model.append((i, got))
        elif not have_model and got.split(" ")[0] != hx(pyw[i]):
            bad_model.append((i, got))
            ml[i] = hx(pyw[i]) + " <bytes required by the python Writer oracle; model not available>"
        elif kind == "flat" and (len(parts) < 2 or got.split(" acc")[0].split(" ", 1)[1] != writer_expected(ops)):
            bad_tree.append((i, got))
        elif kind != "flat" and " THROW" in got:
            outside_not_read_back += 1
        if kind == "flat" or (len(ops) >= 3 and "THROW" not in got):
            ctx.nontriv("w" + lines[i])
    ctx.count(len(run_idx))
    hist["outside_precondition_not_read_back"] = outside_not_read_back
    ctx.cov["writer_cases"] = hist

    def show(ops):
        return " ".join(o[0] + "(" + ",".join(repr(x)[1:] for x in o[1:]) + ")" for o in ops)
    for (i, got) in sorted(bad_tree, key=lambda x: len(lines[x[0]]))[:2]:
        ctx.violation("a Writer op sequence inside the precondition of writer_round_trip is not read back as written (%d of %d)"
                      % (len(bad_tree), hist.get("flat", 0)),
                      {"ops": show(cases[i][1]), "case": lines[i], "observed": got, "required_tree": writer_expected(cases[i][1]), "model": ml[i]})
    for (i, got) in sorted(bad_model, key=lambda x: len(lines[x[0]]))[:3]:
        if bad_tree:
            break
        # the model's own round-trip theorem tells what the written bytes must be: a difference in the bytes of a
        # sequence with valid names/values, or in hasProp/getProp, is a violation; otherwise correspondence drift
        kind, ops, keys = cases[i]
        ctx.violation("the real Writer / readXML / getProp differ from the model on an op sequence (%d sequences)" % len(bad_model),
                      {"ops": show(ops), "case": lines[i], "observed": got, "required": ml[i]})


def first_failing_fact(ctx):
    """name of the theorem of PropertiesFacts.v at which the Coq build stopped"""
    m = re.search(r'File "\./PropertiesFacts\.v", line (\d+)', getattr(ctx, "coq_log", "") or "")
    if not m:
        m2 = re.search(r'File "\./(gen/Facts|FactsCheck|FactsDefs)\.v", line (\d+)', getattr(ctx, "coq_log", "") or "")
        return ("(%s.v does not compile)" % m2.group(1)) if m2 else None
    line = int(m.group(1))
    name = None
    for n, ln in enumerate(open(os.path.join(ctx.coqdir, "PropertiesFacts.v")), 1):
        mm = re.match(r"\s*Theorem\s+(\w+)", ln)
        if mm:
            name = mm.group(1)
        if n >= line:
            break
    return name


def stage(ctx, name, fn, default=None):
    """run one stage; an exception is recorded (stage + last traceback line) and the run continues"""
    try:
        return fn()
    except Exception as ex:                                       # noqa: BLE001
        import traceback
        tb = traceback.format_exc().strip().splitlines()
        where = [ln.strip() for ln in tb if ln.strip().startswith("File ")][-1:] or [""]
        ctx.broken.append("stage '%s' raised %r at %s -- the run continues without it" % (name, ex, where[0][:160]))
        ctx.log("stage %s raised %r" % (name, ex))
        return default


WIDE_SRC = ["rkcommon/xml/XML.cpp", "rkcommon/os/FileName.cpp", "rkcommon/common.cpp", "rkcommon/os/library.cpp",
            "rkcommon/utility/demangle.cpp", "rkcommon/memory/malloc.cpp"]
BUDGET_S = 200            # wall-clock guard: optional stages are skipped beyond it


def build_harnesses(ctx):
    """both harnesses use the public interface only.  Each build is independent; a failed build is retried once
    with a wider list of repository sources (a changed header may need more of the library) and, for the writer
    harness, without the toString probe."""
    jobs = [dict(sources=["harness.cpp"], out="harness", repo_sources=REPO_SRC, sanitize="asan"),
            dict(sources=["writer_harness.cpp"], out="writer_harness", repo_sources=REPO_SRC, sanitize="asan")]
    nb = len(ctx.broken)
    exe, wexe = ctx.cxx_many(jobs)
    wide = [s for s in WIDE_SRC if os.path.exists(os.path.join(ctx.repo, s))]
    if not exe:
        exe = ctx.cxx(["harness.cpp"], "harness", repo_sources=wide, sanitize="asan", libs=["-ldl"])
    if not wexe:
        wexe = ctx.cxx(["writer_harness.cpp"], "writer_harness", repo_sources=wide, sanitize="asan", libs=["-ldl"])
    if not wexe:
        wexe = ctx.cxx(["writer_harness.cpp"], "writer_harness", repo_sources=wide, sanitize="asan", libs=["-ldl"], flags=["-DNO_TOSTRING"])
        if wexe:
            ctx.broken.append("writer harness only builds without the xml::toString probe (toString changed or removed)")
    # keep one 'harness build' entry per harness that finally failed; drop the entries of attempts that were repaired
    fails = [b for b in ctx.broken[nb:] if b.startswith("harness build")]
    for b in fails:
        ctx.broken.remove(b)
    if not exe:
        ctx.broken.append("harness build harness (reader): does not compile/link against this tree (see log)")
    if not wexe:
        ctx.broken.append("harness build writer_harness: does not compile/link against this tree (see log)")
    return exe, wexe


def run(ctx):
    try:
        _run(ctx)
    except Exception as ex:                                       # noqa: BLE001  (never lose the evidence file)
        import traceback
        ctx.broken.append("check raised %r: %s" % (ex, traceback.format_exc().strip().splitlines()[-3:]))


def _run(ctx):
    sys.setrecursionlimit(10000)
    notes = stage(ctx, "fact extraction", lambda: source_facts(ctx), ["fact extraction raised"])
    res = stage(ctx, "coq build", lambda: ctx.coq_check(("Properties.v", "PropertiesFacts.v")), {})
    bad_facts = [t for t in FACT_THMS if not res.get(t)]
    ctx.cov["source_obligations"] = len(FACT_THMS)
    ctx.cov["source_obligations_broken"] = bad_facts
    if bad_facts:
        first = first_failing_fact(ctx)
        ctx.cov["first_failing_source_obligation"] = first
        ctx.broken.insert(0, "source-derived obligation broken: first failing lemma %s of coq/C16/PropertiesFacts.v (the body of that "
                             "function in rkcommon/xml/XML.cpp no longer is the program whose meaning was proved equal to Model.v); "
                             "extractor notes: %s" % (first, "; ".join(notes[:4]) or "none"))
        ctx.log("source-derived obligation broken, first failing lemma: %s; notes: %s" % (first, notes[:4]))
    model = stage(ctx, "extraction / OCaml model build", lambda: ctx.extract(snippets=["conv_N.ml"]))
    exe, wexe = stage(ctx, "harness builds", lambda: build_harnesses(ctx), (None, None))
    if not model:
        ctx.log("model not available: the harnesses run with the independent oracles only (sanitizers, watchdog, exception type, "
                "python render/expect oracle); model-vs-code comparison skipped")
    ctx.cov["stages"] = {"model": bool(model), "reader_harness": bool(exe), "writer_harness": bool(wexe)}
    scratch = os.path.join(ctx.build, "case.xml")
    stage(ctx, "inventory", lambda: inventory_check(ctx))
    if not exe and not wexe:
        return
    if not exe:
        stage(ctx, "writer differential", lambda: writer_check(ctx, model, wexe, os.path.join(ctx.build, "writer.xml")))
        return
    try:
        reader_check(ctx, model, exe, scratch)
    except Exception as ex:                                       # noqa: BLE001
        import traceback
        ctx.broken.append("stage 'reader differential' raised %r: %s" % (ex, traceback.format_exc().strip().splitlines()[-2:]))
    if not getattr(ctx, "replay", None):
        stage(ctx, "file-size boundaries", lambda: size_boundary_check(ctx, exe, scratch))
    if wexe and not getattr(ctx, "replay", None):
        if time.time() - ctx.t0 > BUDGET_S * (12 if ctx.thorough() else 1):
            ctx.broken.append("wall-clock budget (%d s) used up before the writer differential: skipped" % BUDGET_S)
        else:
            stage(ctx, "writer differential", lambda: writer_check(ctx, model, wexe, os.path.join(ctx.build, "writer.xml")))
    if ctx.thorough():
        stage(ctx, "coqchk", lambda: ctx.coq_thorough_chk(["C16.Properties", "C16.PropertiesFacts"]))


def reader_check(ctx, model, exe, scratch):

    if getattr(ctx, "replay", None):
        doc = json.load(open(ctx.replay))
        lines = [doc["input_hex"]]
        il, rep = run_impl(ctx, exe, scratch, lines)
        ml = vlib.run_lines(ctx, model, [], lines)[1] if model else ["<no model>"]
        ctx.log("replay input=%r impl=%s model=%s" % (bytes.fromhex(lines[0]) if lines[0] != "-" else b"", il[0], ml[0]))
        if il[0].startswith("CRASH") or il[0] == "HANG" or il[0].startswith("THROW-OTHER") or il[0] != doc.get("required", il[0]):
            ctx.violation("replayed input still fails", {"input_hex": lines[0], "observed": il[0], "required": doc.get("required")})
        return

    r = ctx.rng("cases")
    cases = []          # (kind, bytes, expected_dump or None)
    # 1. random trees x random layouts (depth <= 5, fan-out <= 4)
    #    The files and the expected trees come from the EXTRACTED Coq functions render_doc / doc_of
    #    (theorem parse_render's premise and conclusion); python's own render/oracle must agree.
    ntree = ctx.pick(4000, 40000)
    docs = []
    for i in range(ntree):
        d = g_doc(r, r.choice([0, 1, 1, 2, 2, 3, 4, 5]), r.choice([1, 2, 2, 3, 4]))
        if len(render_doc(d)) <= 1500:
            docs.append(d)
    for depth in (64, 200):
        docs.append(deep_doc(depth))
    ctx.cov["max_nesting_depth_exercised"] = 200
    rl = None
    if model:
        rc, rl, rerr = vlib.run_lines(ctx, model, ["render"], [ser_doc(d) for d in docs], timeout=200)
        if rc != 0 or len(rl) != len(docs):
            ctx.broken.append("model driver (render) failed rc=%s lines=%d/%d %s -- falling back to the python renderer/oracle"
                              % (rc, len(rl), len(docs), rerr[-300:]))
            rl = None
    feats = {}
    if rl is None:                                    # no model: python's own render + oracle (independent of Coq)
        for d in docs:
            features(d, feats)
            cases.append(("tree", render_doc(d), expect_doc(d), count_nodes(d)))
    for d, ln in (zip(docs, rl) if rl is not None else ()):
        parts = ln.split(" ", 2)
        if len(parts) != 3 or parts[0] not in ("WF", "NOTWF"):
            ctx.broken.append("render driver rejected a generated document: %s" % ln[:100])
            continue
        b = bytes.fromhex(parts[1]) if parts[1] != "-" else b""
        if parts[0] != "WF":
            ctx.broken.append("generated document is outside the subset of parse_render (wf_doc = false): %r" % b[:200])
            continue
        if b != render_doc(d) or parts[2] != expect_doc(d):
            ctx.broken.append("python render/oracle disagree with Coq render_doc/doc_of on %r: %s vs %s"
                              % (render_doc(d)[:200], parts[2][:120], expect_doc(d)[:120]))
            continue
        features(d, feats)
        cases.append(("tree", b, parts[2], count_nodes(d)))
    ctx.cov["layout_features"] = dict(sorted(feats.items()))
    # 2. every truncation and single-byte mutation of the corpus documents
    corpus = load_corpus(ctx)
    seen = set()
    nmut = 0
    for doc in corpus:
        cases.append(("corpus", doc, None, 0))
        ms = mutants(doc)
        if not ctx.thorough() and len(doc) > 70:
            ms = [doc[:k] for k in range(len(doc))] + r.sample(ms[len(doc):], min(600, len(ms) - len(doc)))
        for m in ms:
            if m not in seen:
                seen.add(m)
                cases.append(("mut", m, None, 0))
                nmut += 1
    # mutations of a few rendered trees as well
    for i in range(ctx.pick(6, 40)):
        d = g_doc(r, 2, 2)
        b = render_doc(d)
        if 10 <= len(b) <= 90:
            ms = mutants(b)
            for m in r.sample(ms, min(len(ms), ctx.pick(300, 1200))):
                if m not in seen:
                    seen.add(m)
                    cases.append(("mut", m, None, 0))
                    nmut += 1
    # every truncation of many small rendered trees (the terminator reached inside a value of either
    # quote style, right after an escape, inside a comment, a name, a close tag ...), also with a
    # backslash or a NUL appended
    ntrunc = 0
    for i in range(ctx.pick(250, 2500)):
        d = g_doc(r, r.choice([1, 2]), 2)
        b = render_doc(d)
        if not (8 <= len(b) <= 110):
            continue
        for k in range(1, len(b)):
            for m in (b[:k], b[:k] + b"\\", b[:k] + b"\0" + b[k:]) if r.random() < 0.3 else (b[:k],):
                if m not in seen:
                    seen.add(m)
                    cases.append(("trunc", m, None, 0))
                    ntrunc += 1
    # systematic position x byte sweep (all 256 byte values at every position class)
    sweep = sweep_cases()
    for (pos, b) in sweep:
        cases.append(("sweep", b, None, 0))
    ctx.cov["sweep_positions"] = [pos for (pos, _) in SWEEP]
    ctx.cov["sweep_files"] = len(sweep)
    # 3. random bytes over the mutation alphabet
    nrand = ctx.pick(3000, 30000)
    alpha = b"".join(MUT_ALPHABET) + b"<<>>/\"'=ab  "
    for i in range(nrand):
        cases.append(("rand", bytes(r.choice(alpha) for _ in range(r.randint(0, 24))), None, 0))

    lines = [hx(b) for (_, b, _, _) in cases]
    mlines = None
    if model:
        rc, mlines, merr = vlib.run_lines(ctx, model, [], lines, timeout=300)
        if rc != 0 or len(mlines) != len(lines):
            ctx.broken.append("model driver failed rc=%s lines=%d/%d %s -- model-vs-code comparison skipped" % (rc, len(mlines), len(lines), merr[-300:]))
            mlines = None
    have_model = mlines is not None
    if not have_model:
        mlines = ["<model not available: a document or std::runtime_error>"] * len(lines)
    ilines, reports = run_impl(ctx, exe, scratch, lines)
    ctx.count(len(cases))

    hist = {}
    sizes = {}
    crashes, hangs, others, tree_fail, mism = [], [], [], [], []
    for i, ((kind, b, exp, nn), ml, il) in enumerate(zip(cases, mlines, ilines)):
        oc = "tree" if il.startswith("(") else il.split(":")[0].split(" ")[0]
        hist[kind + ":" + oc] = hist.get(kind + ":" + oc, 0) + 1
        sizes[min(len(b) // 20 * 20, 200)] = sizes.get(min(len(b) // 20 * 20, 200), 0) + 1
        if kind == "tree" and nn >= 2:
            ctx.nontriv(lines[i])
        elif kind != "tree" and il.startswith("(") and il.count("(") >= 3:
            ctx.nontriv(lines[i])          # a malformed/mutated file that still yields a tree with >= 2 nodes
        if il == "SKIPPED":
            continue
        if il == "HANG":
            hangs.append(i)
        elif il.startswith("CRASH") or il.startswith("<no output"):
            crashes.append(i)
        elif not (il.startswith("(") or il == "THROW"):
            others.append(i)
        elif exp is not None and il != exp:
            tree_fail.append(i)
        elif have_model and il != ml:
            mism.append(i)
        if have_model and exp is not None and ml != exp:
            ctx.broken.append("model disagrees with the render oracle on %s: model=%s oracle=%s" % (lines[i][:200], ml[:120], exp[:120]))
        if have_model and ml in ("OOB", "OUTOFFUEL"):
            ctx.broken.append("model returned %s on %s (contradicts parse_in_bounds/parse_total)" % (ml, lines[i][:200]))
    ctx.cov["outcome_histogram"] = hist
    ctx.cov["input_size_histogram"] = {str(k): v for k, v in sorted(sizes.items())}
    ctx.cov["case_mix"] = {"random_trees": sum(1 for c in cases if c[0] == "tree"), "corpus_docs": len(corpus),
                           "mutants": nmut, "truncations_of_random_trees": ntrunc, "position_x_byte_sweep": len(sweep), "random_bytes": nrand}
    ctx.cov["mismatches"] = len(mism)
    ctx.cov["crashes"] = len(crashes)
    ctx.rule = ("files through the real readXML (one ASan+UBSan harness process) and the extracted model: random trees (depth<=5, fan-out<=4) "
                "rendered by the EXTRACTED Coq render_doc with random layouts (header forms, both quote styles, escapes, self-closing/open-close, "
                "comments, all white characters, trailing isspace characters; all inside wf_doc, the premise of parse_render) checked against "
                "the extracted doc_of; a systematic sweep of every byte value 0x00..0xFF at each of 48 syntactic position classes (name start/continuation, "
                "after '<' and '</', attribute name, around '=', inside both quote styles, after a backslash, text start/middle/end, comment, "
                "header, between top-level nodes, file start/end); files of sizes exactly k*512, k*4096, k*65536, 2 MiB and +-1 (and the empty file) "
                "whose content makes the parser reach the terminator, each in a forked child (signals reported with the size); every truncation of 250 (thorough 2500) further rendered trees; every truncation and single-byte delete/insert/replace "
                "(alphabet < > / \" ' = ! - ? \\ NUL space letter VT) of the corpus documents; random bytes over that alphabet. "
                "non-trivial = rendered tree with >= 2 nodes, or malformed file that still yields >= 2 nodes")
    for i in (0, 1):
        if i < len(cases):
            ctx.sample({"kind": cases[i][0], "input": repr(cases[i][1])[:200], "impl": ilines[i][:200]})
    for i in [j for j, c in enumerate(cases) if c[0] == "mut"][:2]:
        ctx.sample({"kind": "mut", "input": repr(cases[i][1])[:200], "impl": ilines[i][:200]})

    def smallest(idx):
        return sorted(idx, key=lambda i: (len(cases[i][1]), i))

    # memory safety / totality: sanitizer reports, crashes, wrong exception type
    if crashes:
        pick = smallest(crashes)[:3]
        old = vlib.run_lines(ctx, model, ["old"], [lines[i] for i in pick])[1] if model else []
        for n, i in enumerate(pick):
            rc1, o1, e1 = ctx.run_exe(exe, [scratch], stdin=lines[i] + "\n", timeout=60)
            ctx.violation("readXML reads outside the file's bytes / crashes (%d of %d files): %s" % (len(crashes), len(cases), asan_summary(e1)),
                          {"input_hex": lines[i], "input": repr(cases[i][1]), "observed": ilines[i], "sanitizer": e1[-2500:],
                           "required": mlines[i], "model_of_reader_as_found": old[n] if n < len(old) else None,
                           "crashing_files": len(crashes)})
    for i in smallest(hangs)[:2]:
        ctx.violation("readXML does not return (no result within 3 s; %d files)" % len(hangs),
                      {"input_hex": lines[i], "input": repr(cases[i][1]), "observed": "HANG", "required": mlines[i]})
    for i in smallest(others)[:2]:
        ctx.violation("readXML left with something other than a document or std::runtime_error",
                      {"input_hex": lines[i], "input": repr(cases[i][1]), "observed": ilines[i], "required": mlines[i]})
    # faithfulness on the supported subset (oracle = generating tree)
    for i in smallest(tree_fail)[:2]:
        ctx.violation("document rendered from a tree is not read back as that tree (%d of %d rendered documents)"
                      % (len(tree_fail), ctx.cov["case_mix"]["random_trees"]),
                      {"input_hex": lines[i], "input": repr(cases[i][1]), "observed": ilines[i], "required": cases[i][2],
                       "model": mlines[i]})
    # model vs implementation where the property oracle has no objection
    if mism and not (crashes or hangs or others or tree_fail):
        for i in smallest(mism)[:3]:
            ctx.broken.append("correspondence C16 model vs readXML on %r: impl=%s model=%s (both outcomes allowed by the property)"
                              % (cases[i][1], ilines[i][:160], mlines[i][:160]))
    ctx.trusted += ["fact extractor props/C16/factgen.py + tools/sxast/sxast.py over `clang++ -std=c++11 -fsyntax-only -Xclang -ast-dump=json` of the "
                    "working tree's rkcommon/xml/XML.cpp (function bodies -> cursor programs coq/C16/gen/Facts.v; the meaning of the cursor "
                    "language is coq/C16/FactsDefs.v, calls of other static functions mean the Model.v functions, libc isalpha/isdigit/isspace "
                    "mean the C-locale classes of Model.v)",
                    "correspondence harness harness/C16/harness.cpp + generators/oracle in props/C16/check.py (g++ -O1, ASan+UBSan)",
                    "modelled, not verified: fopen/ftell/fread (file -> NUL-terminated buffer), std::string/std::map/std::vector, "
                    "isalpha/isdigit/isspace of the C locale, native stack depth of the parseNode recursion"]
    ctx.assumptions += ["the file is a regular file that fits in memory; nesting depth small enough for the native stack",
                        "C locale character classes; bytes >= 128 belong to no class",
                        "XML.cpp passes a plain char (negative for bytes >= 0x80) to isalpha/isdigit/isspace: undefined by the C standard, defined "
                        "by glibc (its tables cover -128..255); the position x byte sweep runs all 256 byte values through every such call site "
                        "under ASan+UBSan and finds no report and the model's answer (no class) on this platform"]
