#!/usr/bin/env python3
"""C20 fact extractor: reads the clang JSON AST of rkcommon/utility/SaveImage.h and rkcommon/tracing/Tracing.cpp in
the working tree and writes coq/C20/gen/Facts.v in the vocabulary of coq/C20/FactsDefs.v:
  gen_img  the loop nest of the writeImage template: loop bounds, the row / in[...] / out[...] index expressions
           as expression trees over x, y, c, sizeX, sizeY, N_COMP, PIXEL_COMP, FLIP, the fwrite count
  gen_fmt  per wrapper (writePPM, writePGM, writePFM<float|vec3f|vec3fa|vec4f>) the template arguments of the
           writeImage instantiation it calls and the header format string, as a Model.fmt
  gen_tr   chunk constant and new-chunk test of getCurrentEventList, separator / seek logic of saveLog, scope of
           the beginEvents stack, ...
Anything not recognised becomes EUnknown / false / COther / ..., which makes the obligations of PropertiesFacts.v fail.

usage: factgen.py [--repo DIR] [--out Facts.v] [--json facts.json] [--work DIR]
"""
import json
import os
import re
import sys

HERE = os.path.dirname(os.path.abspath(__file__))
sys.path.insert(0, os.path.join(os.path.dirname(os.path.dirname(HERE)), "tools", "sxast"))
import sxast  # noqa: E402
from sxast import inner, ex, body_of, walk  # noqa: E402

FMTIDS = ["PPM", "PGM", "PFM1", "PFM3", "PFM3a", "PFM4"]
VARS = {("x", "VarDecl"): "VX", ("y", "VarDecl"): "VY", ("c", "VarDecl"): "VC", ("sizeX", "ParmVarDecl"): "VSizeX",
        ("sizeY", "ParmVarDecl"): "VSizeY", ("N_COMP", "NonTypeTemplateParmDecl"): "VNComp",
        ("PIXEL_COMP", "NonTypeTemplateParmDecl"): "VPixComp", ("FLIP", "NonTypeTemplateParmDecl"): "VFlip"}


def flat(b):
    if b is None:
        return []
    return list(b[1]) if b[0] == "block" else [b]


def single(s):
    while isinstance(s, tuple) and s and s[0] == "block" and len(s[1]) == 1:
        s = s[1][0]
    return s


# ------------------------------------------------------------------ images
def iexp(s):
    """S-expression -> Coq iexp text"""
    if isinstance(s, tuple):
        if s[0] == "ref" and (s[1], s[2]) in VARS:
            return "(EVar %s)" % VARS[(s[1], s[2])]
        if s[0] == "int" and str(s[1]).isdigit():
            return "(EInt %s)" % s[1]
        if s[0] == "bin" and s[1] in ("+", "-", "*", "=="):
            return "(%s %s %s)" % ({"+": "EAdd", "-": "ESub", "*": "EMul", "==": "EEq"}[s[1]], iexp(s[2]), iexp(s[3]))
        if s[0] == "cond":
            return "(ECond %s %s %s)" % (iexp(s[1]), iexp(s[2]), iexp(s[3]))
    return "EUnknown"


def loop_of(s, var):
    """('for', init, cond, inc, body) over `int var` -> (init, bound, lt_postinc) Coq texts, body"""
    if not (isinstance(s, tuple) and s[0] == "for"):
        return None
    ini, cond, inc, body = s[1], s[2], s[3], s[4]
    if not (ini and ini[0] == "decl" and ini[1] == var and ini[2] == "int"):
        return None
    v = ("ref", var, "VarDecl")
    ok = bool(cond) and cond[:3] == ("bin", "<", v) and inc in (("un", "++", "post", v), ("un", "++", "pre", v))
    bound = cond[3] if (cond and len(cond) == 4 and cond[0] == "bin") else None
    return ("mkLoop %s %s %s" % (iexp(ini[3]), iexp(bound), "true" if ok else "false")), body


def extract_img(tmpl_fn, notes):
    g = {"im_nest_ok": False, "im_loop_y": "mkLoop EUnknown EUnknown false", "im_loop_x": "mkLoop EUnknown EUnknown false",
         "im_loop_c": "mkLoop EUnknown EUnknown false", "im_row": "EUnknown", "im_in_index": "EUnknown", "im_out_index": "EUnknown",
         "im_fwrite_count": "EUnknown", "im_scratch_once": False, "im_scratch_count": "EUnknown",
         "im_header_wh": False, "im_trailer_newline": False}
    b = flat(body_of(tmpl_fn))
    FILE = ("ref", "file", "VarDecl")
    hdr = ("expr", ("call", "fprintf", FILE, ("ref", "header", "ParmVarDecl"), ("ref", "sizeX", "ParmVarDecl"), ("ref", "sizeY", "ParmVarDecl")))
    trl = ("expr", ("call", "fprintf", FILE, ("str", "\n")))
    if hdr not in b:
        notes.append("writeImage: header fprintf(file, header, sizeX, sizeY) not found at top level")
        return g
    ih = b.index(hdr)
    # no other output before the header
    before_ok = all(not (s[0] == "expr" and isinstance(s[1], tuple) and s[1][0] == "call" and s[1][1] in ("fprintf", "fwrite", "fputs", "fputc")) for s in b[:ih])
    g["im_header_wh"] = before_ok
    rest = b[ih + 1:]
    # the row scratch buffer: out = (COMP_T *)alloca(sizeof(COMP_T) * COUNT), once, at top level before the row loop
    outs = [s for s in rest if s[0] == "decl" and s[1] == "out"]
    if len(outs) == 1 and rest and rest[0] == outs[0] and outs[0][3] is not None and outs[0][3][:2] == ("call", "__builtin_alloca") \
            and len(outs[0][3]) == 3 and repr(b).count("alloca") == 1:
        e = outs[0][3][2]
        cnt = None
        if e[:2] == ("bin", "*") and e[2] == ("sizeof", "COMP_T"):
            cnt = e[3]
        elif e[:2] == ("bin", "*") and e[2][:3] == ("bin", "*", ("sizeof", "COMP_T")):
            cnt = ("bin", "*", e[2][3], e[3])
        if cnt is not None:
            g["im_scratch_once"] = True
            g["im_scratch_count"] = iexp(cnt)
    if not g["im_scratch_once"]:
        notes.append("writeImage: the scratch buffer is not one alloca before the row loop (%d alloca calls, %d top-level `out` declarations)"
                     % (repr(b).count("alloca"), len(outs)))
    # expected: [decl out] for-y fprintf("\n") fclose
    mid = [s for s in rest if not (s[0] == "decl" and s[1] == "out")]
    if len(mid) < 2 or mid[0][0] != "for":
        notes.append("writeImage: statement after the header is not the row loop: %r" % (mid[:1],))
        return g
    g["im_trailer_newline"] = (mid[1] == trl) and all(s[0] == "expr" and s[1][:2] == ("call", "fclose") for s in mid[2:])
    ly = loop_of(mid[0], "y")
    if not ly:
        notes.append("writeImage: row loop not of the form for (int y = ...)")
        return g
    g["im_loop_y"] = ly[0]
    ybody = flat(ly[1])
    # in = (const COMP_T *)&pixel[ROW];  for x ...;  fwrite(out, COUNT, sizeof(COMP_T), file);
    if len(ybody) != 3 or ybody[0][0] != "decl" or ybody[0][1] != "in":
        notes.append("writeImage: row loop body is not {in = ...; for x; fwrite}: %r" % ([s[0] for s in ybody],))
        return g
    ini = ybody[0][3]
    if ini and ini[:3] == ("un", "&", "pre") and ini[3][0] == "idx" and ini[3][1] == ("ref", "pixel", "ParmVarDecl"):
        g["im_row"] = iexp(ini[3][2])
    lx = loop_of(ybody[1], "x")
    fw = ybody[2]
    if fw[0] == "expr" and fw[1][:3] == ("call", "fwrite", ("ref", "out", "VarDecl")) and len(fw[1]) == 6 \
            and fw[1][4] == ("sizeof", "COMP_T") and fw[1][5] == FILE:
        g["im_fwrite_count"] = iexp(fw[1][3])
    if not lx:
        notes.append("writeImage: no for (int x ...) loop")
        return g
    g["im_loop_x"] = lx[0]
    lc = loop_of(single(lx[1]), "c")
    if not lc:
        notes.append("writeImage: no for (int c ...) loop directly inside the x loop")
        return g
    g["im_loop_c"] = lc[0]
    asg = single(lc[1])
    if asg[0] == "expr" and asg[1][:2] == ("bin", "=") and asg[1][2][:2] == ("idx", ("ref", "out", "VarDecl")) \
            and asg[1][3][:2] == ("idx", ("ref", "in", "VarDecl")):
        g["im_out_index"] = iexp(asg[1][2][2])
        g["im_in_index"] = iexp(asg[1][3][2])
        g["im_nest_ok"] = True
    else:
        notes.append("writeImage: innermost statement is not out[..] = in[..]: %r" % (asg,))
    return g


def fmtid_of(fn):
    nm = fn.get("name")
    if nm == "writePPM":
        return "PPM"
    if nm == "writePGM":
        return "PGM"
    if nm == "writePFM":
        ps = [p for p in inner(fn) if p.get("kind") == "ParmVarDecl"]
        t = (ps[-1].get("type", {}).get("desugaredQualType") or "") + " " + ps[-1].get("type", {}).get("qualType", "") if ps else ""
        t = t.replace(" ", "")
        if "vec3fa" in t or "vec_t<float,3,true" in t:
            return "PFM3a"
        if "vec3f" in t or "vec_t<float,3,false" in t:
            return "PFM3"
        if "vec4f" in t or "vec_t<float,4,false" in t:
            return "PFM4"
        if "constfloat*" in t:
            return "PFM1"
    return None


def codes(b):
    return "[" + "; ".join(str(x) for x in b) + "]"


def extract_fmts(docs, notes):
    specs = {}      # id of a writeImage specialization -> template arguments
    tmpl = None
    for d in docs:
        if d.get("kind") == "FunctionTemplateDecl" and d.get("name") == "writeImage":
            for c in inner(d):
                if c.get("kind") == "FunctionDecl":
                    ta = [x for x in inner(c) if x.get("kind") == "TemplateArgument"]
                    if ta:
                        specs[c.get("id")] = [(t.get("type", {}).get("qualType"), t.get("value")) for t in ta]
                    elif body_of(c) is not None:
                        tmpl = c
    fm = {}
    for d in docs:
        if d.get("kind") != "FunctionDecl" or d.get("name") not in ("writePPM", "writePGM", "writePFM") or body_of(d) is None:
            continue
        fid = fmtid_of(d)
        if fid is None:
            continue
        b = flat(body_of(d))
        if len(b) != 1 or b[0][0] != "expr" or b[0][1][:2] != ("call", "writeImage"):
            notes.append("%s: body is not a single call of writeImage" % fid)
            continue
        call = b[0][1]
        args_ok = len(call) == 7 and call[2][0] == "ref" and call[3][0] == "str" and call[4] == ("ref", "sizeX", "ParmVarDecl") \
            and call[5] == ("ref", "sizeY", "ParmVarDecl") and call[6][0] == "ref" and call[6][2] == "ParmVarDecl"
        callee = None
        for n, _ in walk(d):
            if n.get("kind") == "DeclRefExpr" and (n.get("referencedDecl") or {}).get("name") == "writeImage":
                callee = n["referencedDecl"].get("id")
        ta = specs.get(callee)
        m = re.match(r"^([A-Za-z0-9]+)\n%i %i\n([^\n%]+)\n$", call[3][1]) if args_ok else None
        if not (ta and m and len(ta) == 5):
            notes.append("%s: call of writeImage not recognised (args_ok=%s, template args %r)" % (fid, args_ok, ta))
            continue
        csize = {"unsigned char": 1, "float": 4}.get(ta[0][0])
        if csize is None:
            notes.append("%s: COMP_T %r" % (fid, ta[0][0]))
            continue
        fm[fid] = {"magic": m.group(1), "scale": m.group(2), "csize": csize, "ncomp": int(ta[1][1]), "pixel_t": ta[2][0],
                   "pixcomp": int(ta[3][1]), "flip": bool(int(ta[4][1]))}
    return tmpl, fm


# ------------------------------------------------------------------ tracing
EVENTS = ("mem", "events", "this")
BACK = ("mcall", "back", EVENTS)


def lits(e, out):
    """string literals / other operands streamed into fout by a chain  fout << a << b ..."""
    if isinstance(e, tuple) and e[:2] == ("op", "operator<<") and len(e) == 4:
        base = lits(e[2], out)
        if base:
            out.append(e[3])
        return base
    return e == ("ref", "fout", "VarDecl")


def walk_sx(s, fn, depth=()):
    """pre-order walk over statements; depth = tuple of enclosing loop range expressions"""
    if isinstance(s, list):
        for x in s:
            walk_sx(x, fn, depth)
        return
    if not isinstance(s, tuple) or not s:
        fn(s, depth)
        return
    fn(s, depth)
    k = s[0]
    if k == "block":
        walk_sx(s[1], fn, depth)
    elif k == "if":
        walk_sx(s[2], fn, depth)
        if s[3] is not None:
            walk_sx(s[3], fn, depth)
    elif k == "forrange":
        walk_sx(s[3], fn, depth + (s[2],))
    elif k == "for":
        walk_sx(s[4], fn, depth + ("for",))
    elif k == "while":
        walk_sx(s[2], fn, depth + ("while",))


def extract_tr(docs_tel, docs_save, notes):
    g = {"tr_chunk": 0, "tr_cmp": "COther", "tr_empty_or": False, "tr_reserve": 0, "tr_returns_back": False,
         "tr_record_via_current": False, "tr_open_first": False, "tr_objects": 0, "tr_objects_comma": 0, "tr_bare_close": 0,
         "tr_seek": "SeekOther", "tr_close_last": False, "tr_stack_scope": "ScopeOther", "tr_push_begin": False,
         "tr_stray_end_break": False, "tr_end_top_pop": False, "tr_long_threshold": 0, "tr_tid_counter": False}
    rec = {}
    for d in docs_tel:
        if d.get("kind") != "CXXMethodDecl" or body_of(d) is None:
            continue
        b = flat(body_of(d))
        nm = d.get("name")
        if nm == "getCurrentEventList":
            if len(b) == 2 and b[0][0] == "if" and b[0][3] is None:
                cond = b[0][1]
                test = cond
                if cond[:2] == ("bin", "||") and cond[2] == ("mcall", "empty", EVENTS):
                    g["tr_empty_or"] = True
                    test = cond[3]
                if test[0] == "bin" and test[2] == ("mcall", "size", BACK) and test[3][0] == "int":
                    g["tr_cmp"] = {">=": "CGe", ">": "CGt", "==": "CEq"}.get(test[1], "COther")
                    g["tr_chunk"] = int(test[3][1])
                then = flat(b[0][2])
                if len(then) == 2 and then[0][0] == "expr" and then[0][1][:3] == ("mcall", "push_back", EVENTS) \
                        and then[0][1][3][0] == "construct" and len(then[0][1][3]) == 2 \
                        and then[1][0] == "expr" and then[1][1][:3] == ("mcall", "reserve", BACK) and then[1][1][3][0] == "int":
                    g["tr_reserve"] = int(then[1][1][3][1])
                else:
                    notes.append("getCurrentEventList: new-chunk branch is not {events.push_back(vector()); events.back().reserve(N);}: %r" % (then[:2],))
                g["tr_returns_back"] = b[1] == ("ret", BACK)
            else:
                notes.append("getCurrentEventList: not `if (...) {push_back; reserve} return events.back()`")
        if nm in ("beginEvent", "endEvent", "setMarker", "setCounter"):
            kind = {"beginEvent": "BEGIN", "endEvent": "END", "setMarker": "MARKER", "setCounter": "COUNTER"}[nm]
            ok = len(b) == 1 and b[0][0] == "expr" and b[0][1][:3] == ("mcall", "push_back", ("mcall", "getCurrentEventList", "this")) \
                and len(b[0][1]) == 4 and b[0][1][3][0] == "construct" and len(b[0][1][3]) >= 3 \
                and b[0][1][3][2] == ("ref", kind, "EnumConstantDecl")
            rec[nm] = ok
    g["tr_record_via_current"] = len(rec) == 4 and all(rec.values())
    save = None
    for d in docs_save:
        if d.get("kind") == "CXXMethodDecl" and d.get("name") == "saveLog" and body_of(d) is not None:
            save = body_of(d)
    if save is None:
        notes.append("saveLog not found")
        return g
    top = flat(save)
    streamed = []          # (operand, depth) in source order
    st = {"decl_depth": None, "thread_depth": None, "push": False, "break_before_output": False, "top": False, "pop": False,
          "first_out_in_evt": None, "idx": 0, "tid0": False, "tidinc": False, "lambda": False}
    EVT = ("ref", "evt", "VarDecl")
    STACK = ("ref", "beginEvents", "VarDecl")
    TYPE = ("mem", "type", EVT)

    def is_end(c):
        return c == ("bin", "==", TYPE, ("ref", "END", "EnumConstantDecl"))

    def visit(s, depth):
        st["idx"] += 1
        if not isinstance(s, tuple) or not s:
            return
        if s[0] == "expr":
            out = []
            if lits(s[1], out):
                for o in out:
                    streamed.append((o, depth, st["idx"]))
                if depth and depth[-1] == ("ref", "evtChunk", "VarDecl") and st["first_out_in_evt"] is None:
                    st["first_out_in_evt"] = st["idx"]
            if s[1] == ("mcall", "push", STACK, ("un", "&", "pre", EVT)):
                st["push"] = True
            if s[1] == ("mcall", "pop", STACK) and depth and depth[-1] == ("ref", "evtChunk", "VarDecl"):
                st["pop"] = True
            if s[1] == ("bin", "=", ("ref", "begin", "VarDecl"), ("mcall", "top", STACK)):
                st["top"] = True
            if s[1] == ("un", "++", "pre", ("ref", "nextTid", "VarDecl")) or s[1] == ("un", "++", "post", ("ref", "nextTid", "VarDecl")):
                st["tidinc"] = len(depth) == 1
        if s[0] == "decl" and s[1] == "beginEvents":
            st["decl_depth"] = depth
        if s[0] == "decl" and s[1] == "nextTid" and s[3] == ("int", "0") and depth == ():
            st["tid0"] = True
        if s[0] == "decl" and s[3] is not None and "?" in repr(s[3]) and "Lambda" in repr(s[3]):
            st["lambda"] = True
        if s[0] == "if" and s[1] == ("bin", "&&", ("bin", "==", TYPE, ("ref", "END", "EnumConstantDecl")), ("mcall", "empty", STACK)):
            body = flat(s[2])
            if body and body[-1] == "break" and depth and depth[-1] == ("ref", "evtChunk", "VarDecl") and st["first_out_in_evt"] is None:
                st["break_before_output"] = True
        if s[0] == "if" and s[1][0] == "bin" and s[1][1] == "&&" and s[1][3] == ("ref", "begin", "VarDecl") \
                and s[1][2][:2] == ("bin", "&&") and is_end(s[1][2][2]) and s[1][2][3][:3] == ("bin", ">", ("ref", "duration", "VarDecl")) \
                and s[1][2][3][3][0] == "int":
            g["tr_long_threshold"] = int(s[1][2][3][3][1])
    walk_sx(top, visit)
    strs = [(o[1], d, i) for (o, d, i) in streamed if isinstance(o, tuple) and o[0] == "str"]
    g["tr_open_first"] = bool(strs) and strs[0][0] == "[" and strs[0][1] == ()
    g["tr_close_last"] = bool(strs) and strs[-1][0] == "]" and strs[-1][1] == () and top[-1] == ("expr", ("op", "operator<<", ("ref", "fout", "VarDecl"), ("str", "]")))
    g["tr_objects"] = sum(1 for (t, d, i) in strs if t == "{")
    g["tr_objects_comma"] = sum(1 for (t, d, i) in strs if t.endswith("},"))
    # statements that stream nothing but a bare "}" / "}}" (an object closed without the separating comma)
    per_stmt = {}
    for (o, d, i) in streamed:
        per_stmt.setdefault(i, []).append(o)
    g["tr_bare_close"] = sum(1 for ops in per_stmt.values() if len(ops) == 1 and ops[0] in (("str", "}"), ("str", "}}")))
    # the statement before the final "]"
    if len(top) >= 2:
        s = top[-2]
        seek = ("expr", ("mcall", "seekp", ("ref", "fout", "VarDecl"), ("un", "-", "pre", ("int", "1")), ("ref", "cur", "VarDecl")))
        if s == seek:
            g["tr_seek"] = "SeekAlways"
        elif s[0] == "if" and s[3] is None and single(s[2]) == seek:
            c = s[1]
            tell = ("mcall", "tellp", ("ref", "fout", "VarDecl"))

            def unconv(x):
                return x[2] if isinstance(x, tuple) and x[0] == "mcall" and x[1].startswith("operator ") and len(x) == 3 else x
            if c[0] == "bin" and c[1] == ">" and unconv(c[2]) == tell:
                r = unconv(c[3])
                if isinstance(r, tuple) and r[0] == "construct" and len(r) == 3:
                    r = r[2]
                if r == ("int", "1"):
                    g["tr_seek"] = "SeekIfPastOne"
        elif not any("seekp" in repr(x) for x in top):
            g["tr_seek"] = "SeekNone"
    dd = st["decl_depth"]
    if dd is not None:
        if len(dd) == 1 and dd[0] == ("mem", "threadTrace", "this"):
            g["tr_stack_scope"] = "PerThread"
        elif len(dd) == 2 and dd[0] == ("mem", "threadTrace", "this"):
            g["tr_stack_scope"] = "PerChunk"
    g["tr_push_begin"] = st["push"]
    g["tr_stray_end_break"] = st["break_before_output"]
    g["tr_end_top_pop"] = st["top"] and st["pop"]
    g["tr_tid_counter"] = st["tid0"] and st["tidinc"]
    if g["tr_objects"] != g["tr_objects_comma"]:
        notes.append("saveLog: %d object openers \"{\" but %d closers \"},\"" % (g["tr_objects"], g["tr_objects_comma"]))
    return g


def unwrap(s):
    if isinstance(s, tuple):
        if s and s[0] == "construct" and len(s) == 3:
            return unwrap(s[2])
        return tuple(unwrap(x) for x in s)
    if isinstance(s, list):
        return [unwrap(x) for x in s]
    return s


def extract_reg(docs, g, notes):
    """getThreadTraceList (find-or-create under the lock), the thread_local cache and the entry points that fill it"""
    g.update({"tr_registry": "RegOther", "tr_reg_lock_first": False, "tr_tls_cache": False,
              "tr_strcache": "StrOther", "tr_tel_fields": False, "tr_names_via_cache": False, "tr_save_readonly": False})
    CACHE = ("mem", "stringCache", "this")
    STR = ("ref", "str", "ParmVarDecl")
    via = {}
    MAP = ("mem", "threadTrace", "this")
    ID = ("ref", "id", "ParmVarDecl")
    tls = init_ok = False
    entry = {}
    for d in docs:
        k, nm = d.get("kind"), d.get("name")
        if k == "VarDecl" and nm == "threadEventList" and d.get("tls") and d.get("storageClass") == "static":
            tls = True
        if k == "CXXRecordDecl" and nm == "ThreadEventList" and d.get("completeDefinition"):
            fields = [c.get("name") for c in inner(d) if c.get("kind") == "FieldDecl"]
            g["tr_tel_fields"] = fields == ["events", "threadName", "stringCache"]
            if not g["tr_tel_fields"]:
                notes.append("ThreadEventList data members: %r" % (fields,))
        b = unwrap(flat(body_of(d))) if k in ("CXXMethodDecl", "FunctionDecl") and body_of(d) is not None else None
        if b is None:
            continue
        if k == "CXXMethodDecl" and nm == "getCachedString":
            ok = len(b) == 4 and b[0][:2] == ("if", ("un", "!", "pre", STR)) and single(b[0][2]) == ("ret", "nullptr") and b[0][3] is None \
                and b[1][0] == "decl" and b[1][3] == ("mcall", "find", CACHE, STR) and b[2][0] == "if" and b[2][3] is None
            if ok:
                f = ("ref", b[1][1], "VarDecl")
                ins = flat(b[2][2])
                ok = b[2][1] == ("op", "operator==", f, ("mcall", "end", CACHE)) and len(ins) == 3 \
                    and ins[0][0] == "decl" and ins[0][3] == ("call", "make_shared", STR) \
                    and ins[1] == ("expr", ("op", "operator=", ("op", "operator[]", CACHE, STR), ("ref", ins[0][1], "VarDecl"))) \
                    and ins[2] == ("ret", ("mcall", "c_str", ("op", "operator->", ("ref", ins[0][1], "VarDecl")))) \
                    and b[3] == ("ret", ("mcall", "c_str", ("op", "operator->", ("mem", "second", ("op", "operator->", f)))))
            g["tr_strcache"] = "StrFindOrInsert" if ok else "StrOther"
            if not ok:
                notes.append("getCachedString: not recognised: %r" % (b,))
        if k == "CXXMethodDecl" and nm in ("beginEvent", "setMarker", "setCounter") and len(b) == 1 and b[0][0] == "expr":
            con = b[0][1][3] if len(b[0][1]) == 4 else ()
            cached = lambda a: isinstance(a, tuple) and a[:3] == ("mcall", "getCachedString", "this") and len(a) == 4 and a[3][0] == "ref"  # noqa: E731
            if nm == "setCounter":
                via[nm] = len(con) == 5 and cached(con[3]) and con[4][0] == "ref"
            else:
                via[nm] = len(con) == 5 and cached(con[3]) and cached(con[4])
        if k == "CXXMethodDecl" and nm == "getThreadTraceList":
            g["tr_reg_lock_first"] = bool(b) and b[0][0] == "decl" and "lock_guard" in b[0][2] and b[0][3] is not None \
                and ("mem", "threadTraceMutex", "this") in (b[0][3], b[0][3][2:3] and b[0][3][2])
            rest = b[1:] if g["tr_reg_lock_first"] else [s for s in b if not (s[0] == "decl" and "lock_guard" in s[2])]

            def fresh_store(ss):
                """[decl v = make_shared; threadTrace[id] = v; return v] -> True"""
                return len(ss) == 3 and ss[0][0] == "decl" and ss[0][3] == ("call", "make_shared") \
                    and ss[1] == ("expr", ("op", "operator=", ("op", "operator[]", MAP, ID), ("ref", ss[0][1], "VarDecl"))) \
                    and ss[2] == ("ret", ("ref", ss[0][1], "VarDecl"))
            if len(rest) == 3 and rest[0][0] == "decl" and rest[0][3] == ("mcall", "find", MAP, ID) and rest[1][0] == "if" and rest[1][3] is None:
                f = ("ref", rest[0][1], "VarDecl")
                if rest[1][1] == ("op", "operator==", f, ("mcall", "end", MAP)) and fresh_store(flat(rest[1][2])) \
                        and rest[2] == ("ret", ("mem", "second", ("op", "operator->", f))):
                    g["tr_registry"] = "RegFindOrCreate"
            elif fresh_store(rest) or fresh_store([s for s in b if not (s[0] == "decl" and "lock_guard" in s[2])]):
                g["tr_registry"] = "RegStoreAlways"
            if g["tr_registry"] == "RegOther":
                notes.append("getThreadTraceList: not recognised: %r" % (b,))
        if k == "CXXMethodDecl" and nm == "saveLog":
            lock_first = bool(b) and b[0][0] == "decl" and "lock_guard" in b[0][2] and b[0][3] == ("mem", "threadTraceMutex", "this")
            text = repr(b)
            uses = text.count("'threadTrace'")
            ranges = []

            def rng(s_, depth):
                if isinstance(s_, tuple) and s_ and s_[0] == "forrange" and s_[2] == ("mem", "threadTrace", "this"):
                    ranges.append(s_[1])
            walk_sx(b, rng)
            ok = lock_first and uses == 1 and len(ranges) == 1 and ranges[0] and ranges[0][1].replace(" ", "").startswith("const") \
                and ranges[0][1].rstrip().endswith("&")
            g["tr_save_readonly"] = bool(ok)
            if not ok:
                notes.append("saveLog: lock first %s; threadTrace mentioned %d times (1 = only as the loop range); loop variable %r"
                             % (lock_first, uses, ranges[:1]))
        if k == "FunctionDecl" and nm == "initThreadEventList":
            TL = ("ref", "threadEventList", "VarDecl")
            init_ok = len(b) == 1 and b[0][0] == "if" and b[0][3] is None \
                and b[0][1] in (("un", "!", "pre", ("mcall", "operator bool", TL)), ("un", "!", "pre", TL), ("op", "operator==", TL, "nullptr")) \
                and flat(b[0][2]) == [("expr", ("op", "operator=", TL, ("mcall", "getThreadTraceList", ("op", "operator->", ("ref", "traceRecorder", "VarDecl")), ("call", "get_id"))))]
        if k == "FunctionDecl" and nm in ("beginEvent", "setMarker", "setCounter", "setThreadName"):
            entry[nm] = bool(b) and b[0] == ("expr", ("call", "initThreadEventList"))
    g["tr_names_via_cache"] = len(via) == 3 and all(via.values())
    if not g["tr_names_via_cache"]:
        notes.append("names/categories through getCachedString: %r" % (via,))
    g["tr_tls_cache"] = tls and init_ok and len(entry) == 4 and all(entry.values())
    if not g["tr_tls_cache"]:
        notes.append("thread_local cache: tls=%s init=%s entry points %r" % (tls, init_ok, entry))


def macros_of(path):
    """#define lines of a file with the conditional they sit under"""
    out, stack = {}, []
    for ln in open(path, errors="replace"):
        t = ln.strip()
        if t.startswith("#if"):
            stack.append(t[1:])
        elif t.startswith("#else") and stack:
            stack[-1] = "else of " + stack[-1]
        elif t.startswith("#endif") and stack:
            stack.pop()
        elif t.startswith("#define"):
            m = re.match(r"#define\s+(\w+(?:\([^)]*\))?)\s*(.*)$", t)
            if m:
                out["macro %s => %s%s [%s]" % (m.group(1), m.group(2).strip() or "<nothing>", "", os.path.basename(path)
                                              + (", under " + " / ".join(stack) if stack else ""))] = {"kind": "macro"}
    return out


def inventory(repo, work):
    """every declaration of utility/SaveImage.h (the write* functions, templates, instantiations, specializations) and of
    tracing/Tracing.{h,cpp} (classes with all members incl. implicit special members, enum, namespace-level functions, macros)"""
    inv = {}
    docs = sxast.dump(repo, work, '#include "rkcommon/utility/SaveImage.h"\n', "rkcommon::utility::write", "c20_inv_img")
    inv.update(sxast.inventory(docs, functions=lambda n: True))
    tr_src = ('#include "rkcommon/tracing/Tracing.cpp"\n#include <utility>\nnamespace c20inv { using namespace rkcommon::tracing;\n'
              'inline void use(TraceEvent &a, ThreadEventList &l) { TraceEvent b(a); TraceEvent c(std::move(a)); b = c; b = std::move(c);\n'
              '  ThreadEventList m(l); ThreadEventList n(std::move(l)); m = n; m = std::move(n); TraceRecorder r; (void)r; } }\n')
    docs = sxast.dump(repo, work, tr_src, "rkcommon::tracing::", "c20_inv_tr")
    inv.update(sxast.inventory(docs, classes=("TraceEvent", "ThreadEventList", "TraceRecorder"), functions=lambda n: True))
    for d in docs:
        if d.get("kind") == "EnumDecl":
            inv["enum %s {%s}" % (d.get("name"), ", ".join(c.get("name") for c in inner(d) if c.get("kind") == "EnumConstantDecl"))] = {"kind": "enum"}
        if d.get("kind") == "VarDecl" and not d.get("isImplicit") and d.get("name") in ("traceRecorder", "threadEventList") or \
                (d.get("kind") == "VarDecl" and d.get("storageClass") == "static" and (d.get("type") or {}).get("qualType", "").find("rkcommon::tracing") >= 0):
            inv["variable %s %s%s" % (d.get("name"), (d.get("type") or {}).get("qualType", ""), " thread_local" if d.get("tls") else "")] = {"kind": "var"}
    inv.update(macros_of(os.path.join(repo, "rkcommon/tracing/Tracing.h")))
    inv.update(macros_of(os.path.join(repo, "rkcommon/tracing/Tracing.cpp")))
    return inv


# ------------------------------------------------------------------ output
def cb(b):
    return "true" if b else "false"


def coq_text(img, fm, tr):
    L = ["(* GENERATED by props/C20/factgen.py from the working tree - do not edit, not under version control. *)",
         "From Coq Require Import List NArith.", "From C20 Require Import Model FactsDefs.", "Import ListNotations.",
         "Local Open Scope N_scope.", ""]
    L.append("Definition gen_img : imgfacts :=\n  mkImg %s\n    (%s)\n    (%s)\n    (%s)\n    %s\n    %s\n    %s\n    %s\n    %s %s\n    %s %s." % (
        cb(img["im_nest_ok"]), img["im_loop_y"], img["im_loop_x"], img["im_loop_c"], img["im_row"], img["im_in_index"],
        img["im_out_index"], img["im_fwrite_count"], cb(img.get("im_scratch_once")), img.get("im_scratch_count", "EUnknown"),
        cb(img["im_header_wh"]), cb(img["im_trailer_newline"])))
    L.append("")
    L.append("Definition gen_fmt (i : fmtid) : fmt :=\n  match i with")
    for fid in FMTIDS:
        f = fm.get(fid)
        if f is None:
            L.append("  | %s => mkFmt [] [] 0%%nat 0 0 false" % fid)
        else:
            L.append("  | %s => mkFmt %s %s %d%%nat %d %d %s   (* %s: COMP_T %d bytes, PIXEL_T %s *)" % (
                fid, codes(f["magic"].encode()), codes(f["scale"].encode()), f["csize"], f["ncomp"], f["pixcomp"], cb(f["flip"]),
                f["magic"], f["csize"], f["pixel_t"]))
    L.append("  end.\n")
    L.append("Definition gen_tr : trfacts :=\n  mkTr %d %s %s %d %s %s %s %d %d %d %s %s %s %s %s %s %d %s\n       %s %s %s %s %s %s %s." % (
        tr["tr_chunk"], tr["tr_cmp"], cb(tr["tr_empty_or"]), tr["tr_reserve"], cb(tr["tr_returns_back"]), cb(tr["tr_record_via_current"]),
        cb(tr["tr_open_first"]), tr["tr_objects"], tr["tr_objects_comma"], tr["tr_bare_close"], tr["tr_seek"], cb(tr["tr_close_last"]),
        tr["tr_stack_scope"], cb(tr["tr_push_begin"]), cb(tr["tr_stray_end_break"]), cb(tr["tr_end_top_pop"]), tr["tr_long_threshold"],
        cb(tr["tr_tid_counter"]), tr.get("tr_registry", "RegOther"), cb(tr.get("tr_reg_lock_first")), cb(tr.get("tr_save_readonly")), tr.get("tr_strcache", "StrOther"), cb(tr.get("tr_tel_fields")),
        cb(tr.get("tr_names_via_cache")), cb(tr.get("tr_tls_cache"))))
    return "\n".join(L) + "\n"


def failing_text():
    img = {"im_nest_ok": False, "im_loop_y": "mkLoop EUnknown EUnknown false", "im_loop_x": "mkLoop EUnknown EUnknown false",
           "im_loop_c": "mkLoop EUnknown EUnknown false", "im_row": "EUnknown", "im_in_index": "EUnknown", "im_out_index": "EUnknown",
           "im_fwrite_count": "EUnknown", "im_header_wh": False, "im_trailer_newline": False}
    tr = {"tr_chunk": 0, "tr_cmp": "COther", "tr_empty_or": False, "tr_reserve": 0, "tr_returns_back": False,
          "tr_record_via_current": False, "tr_open_first": False, "tr_objects": 0, "tr_objects_comma": 0, "tr_bare_close": 0,
          "tr_seek": "SeekOther", "tr_close_last": False, "tr_stack_scope": "ScopeOther", "tr_push_begin": False,
          "tr_stray_end_break": False, "tr_end_top_pop": False, "tr_long_threshold": 0, "tr_tid_counter": False}
    return coq_text(img, {}, tr)


def main(argv):
    import argparse
    ap = argparse.ArgumentParser()
    ap.add_argument("--repo", default=os.environ.get("VERIF_REPO", "/repo"))
    ap.add_argument("--out", default=None)
    ap.add_argument("--json", default=None)
    ap.add_argument("--work", default="/tmp/c20facts")
    a = ap.parse_args(argv)
    notes = []
    docs_img = sxast.dump(a.repo, a.work, '#include "rkcommon/utility/SaveImage.h"\n', "write", "c20_img")
    tmpl, fm = extract_fmts(docs_img, notes)
    if tmpl is None:
        notes.append("writeImage template not found")
        img = json.loads(json.dumps({}))
        img = {"im_nest_ok": False, "im_loop_y": "mkLoop EUnknown EUnknown false", "im_loop_x": "mkLoop EUnknown EUnknown false",
               "im_loop_c": "mkLoop EUnknown EUnknown false", "im_row": "EUnknown", "im_in_index": "EUnknown", "im_out_index": "EUnknown",
               "im_fwrite_count": "EUnknown", "im_header_wh": False, "im_trailer_newline": False}
    else:
        img = extract_img(tmpl, notes)
    for fid in FMTIDS:
        if fid not in fm:
            notes.append("wrapper for %s not recognised" % fid)
    tr_src = '#include "rkcommon/tracing/Tracing.cpp"\n'
    docs_tr = sxast.dump(a.repo, a.work, tr_src, "rkcommon::tracing::", "c20_tr")
    tr = extract_tr(docs_tr, docs_tr, notes)
    extract_reg(docs_tr, tr, notes)
    text = coq_text(img, fm, tr)
    if a.out:
        os.makedirs(os.path.dirname(os.path.abspath(a.out)), exist_ok=True)
        old = open(a.out).read() if os.path.exists(a.out) else None
        if old != text:
            open(a.out, "w").write(text)
    else:
        sys.stdout.write(text)
    if a.json:
        json.dump({"img": img, "fmt": fm, "tr": tr, "notes": notes}, open(a.json, "w"), indent=1)
    return 0


if __name__ == "__main__":
    sys.exit(main(sys.argv[1:]))
