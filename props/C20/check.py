"""C20 — image writers (SaveImage.h) and the trace writer (tracing/Tracing.cpp) emit decodable files
containing exactly the input.
Tie B: hand-written Gallina model (coq/C20/Model.v: writeImage for the six instantiations with the index
arithmetic explicit; chunked per-thread event lists and saveLog as a string builder), theorems in
coq/C20/Properties.v.  Correspondence: the extracted model and the real code are run on the same cases;
the files written by the real code are decoded by independent python readers (netpbm/PFM reader, json)
and compared with the input, and compared byte for byte with the model's output."""
import array
import concurrent.futures
import hashlib
import json
import os
import re
import shutil
import sys
import time
import vlib
sys.path.insert(0, os.path.dirname(os.path.abspath(__file__)))
import factgen  # noqa: E402

# name: (magic, scale line, bytes per component, components written, components stored, bottom-up, channels)
FMT = {
    "PPM": (b"P6", b"255", 1, 3, 4, True, [0, 1, 2]),
    "PGM": (b"P5", b"255", 1, 1, 4, True, [3]),          # the alpha byte
    "PFM1": (b"Pf", b"-1.0", 4, 1, 1, False, [0]),
    "PFM3": (b"PF", b"-1.0", 4, 3, 3, False, [0, 1, 2]),
    "PFM3a": (b"PF", b"-1.0", 4, 3, 4, False, [0, 1, 2]),
    "PFM4": (b"PF4", b"-1.0", 4, 4, 4, False, [0, 1, 2, 3]),
}
API = {"PPM": "writePPM", "PGM": "writePGM", "PFM1": "writePFM<float>", "PFM3": "writePFM<vec3f>",
       "PFM3a": "writePFM<vec3fa>", "PFM4": "writePFM<vec4f>"}


# ------------------------------------------------------------------ images: independent reader + oracle
def read_image(data, fmt):
    """Independent reader: returns (w, h, components) or raises ValueError."""
    magic, scale, csize, ncomp = FMT[fmt][:4]
    pos = 0
    lines = []
    for _ in range(3):
        q = data.find(b"\n", pos)
        if q < 0:
            raise ValueError("header: missing newline")
        lines.append(data[pos:q])
        pos = q + 1
    if lines[0] != magic:
        raise ValueError("magic %r, expected %r" % (lines[0], magic))
    m = re.match(rb"^([1-9][0-9]*) ([1-9][0-9]*)$", lines[1])
    if not m:
        raise ValueError("dimension line %r" % lines[1])
    if lines[2] != scale:
        raise ValueError("scale line %r, expected %r" % (lines[2], scale))
    w, h = int(m.group(1)), int(m.group(2))
    need = w * h * ncomp * csize
    payload = data[pos:]
    if len(payload) < need:
        raise ValueError("payload has %d bytes, %d needed" % (len(payload), need))
    if csize == 1:
        comps = list(payload[:need])
    elif csize == 4 and sys.byteorder == "little":
        a = array.array("I")
        a.frombytes(payload[:need])
        comps = a.tolist()
    else:
        comps = [int.from_bytes(payload[i * csize:(i + 1) * csize], "little") for i in range(w * h * ncomp)]
    return w, h, comps


def required_image(fmt, w, h, vals):
    _, _, _, _, pixcomp, flip, sel = FMT[fmt]
    out = []
    n = len(sel)
    for y in range(h):
        row = h - 1 - y if flip else y
        base = row * w * pixcomp
        line = [0] * (w * n)
        for j, c in enumerate(sel):                 # channel c of every pixel of the row (extended slices: C speed on wide rows)
            line[j::n] = vals[base + c:base + w * pixcomp:pixcomp]
        out += line
    return out


def image_oracle(data, fmt, w, h, vals):
    """None if the file decodes to the input, else a description."""
    try:
        fw, fh, comps = read_image(data, fmt)
    except ValueError as e:
        return "file does not decode: %s" % e
    if (fw, fh) != (w, h):
        return "header says %dx%d, image is %dx%d" % (fw, fh, w, h)
    req = required_image(fmt, w, h, vals)
    if comps != req:
        k = next(i for i in range(len(req)) if comps[i] != req[i])
        return "decoded component %d is %d, required %d" % (k, comps[k], req[k])
    return None


def gen_vals(r, fmt, w, h):
    csize, pixcomp = FMT[fmt][2], FMT[fmt][4]
    n = w * h * pixcomp
    if csize == 1:
        if n <= 256:
            return r.sample(range(256), n)                      # all components distinct
        s = r.randrange(256)
        return [(s + 37 * i) % 251 for i in range(n)]           # neighbours distinct
    seen, out = set(), []
    while len(out) < n:                                         # distinct finite float bit patterns
        v = (r.randrange(2) << 31) | (r.randrange(1, 255) << 23) | r.randrange(1 << 23)
        if v not in seen:
            seen.add(v)
            out.append(v)
    return out


def image_sizes(ctx):
    s = [(w, h) for h in range(1, 7) for w in range(1, 7)] + [(1, 257), (257, 1)]
    if ctx.thorough():
        s += [(w, h) for h in range(1, 10) for w in range(1, 10) if w > 6 or h > 6]
        s += [(3, 257), (257, 3), (64, 64), (1, 1025), (1025, 1), (31, 33)]
    return s


WIDE = [255, 256, 257, 1023, 1024, 1025, 4095, 4096, 4097, 8191, 8193, 16385]


def wide_sizes(ctx, fmt):
    """widths at powers of two +-1 up to 2^15, heights 1..3 (and the transposed shapes), plus, per writer, the widths at which
    one output row reaches 2^14 .. 2^16 BYTES (2^17, 2^18 in thorough): where a buffer strategy would switch"""
    s = [(w, h) for w in WIDE for h in (1, 2, 3)] + [(1 + k % 3, n) for k, n in enumerate(WIDE)]
    s += [(32767, 1), (32769, 1)]
    csize, ncomp = FMT[fmt][2], FMT[fmt][3]
    for t in (14, 15, 16) + ((17, 18) if ctx.thorough() else ()):
        w = (1 << t) // (csize * ncomp)
        s += [(w, 1), (w + 1, 1), (w + 1, 2)]
    if ctx.thorough():
        s += [(w, h) for w in (2047, 2049, 16383, 16384) for h in (1, 2)] + [(3, 16384), (257, 255), (1025, 17)]
    seen, out = set(), []
    for x in s:
        if x not in seen:
            seen.add(x)
            out.append(x)
    return out


def run_images(ctx, model, exe):
    r = ctx.rng("images")
    outroot = os.path.join(ctx.build, "img")
    shutil.rmtree(outroot, ignore_errors=True)
    os.makedirs(outroot)
    nwide = {}
    wsz = {fmt: wide_sizes(ctx, fmt) for fmt in FMT}
    wseeds = {fmt: [r.randrange(1 << 16) for _ in wsz[fmt]] for fmt in FMT}
    wlines = {fmt: ["%d %d %d" % (w, h, sd) for (w, h), sd in zip(wsz[fmt], wseeds[fmt])] for fmt in FMT}

    def run_model_wide(fmt):
        if not model:
            return (None, "", "no model")
        return ctx.run_exe("/bin/bash", ["-c", 'ulimit -s unlimited 2>/dev/null || ulimit -s 4000000; exec "$0" "$@"', model, "imgpat", fmt],
                           stdin="\n".join(wlines[fmt]) + "\n", timeout=600)
    # the extracted model is linear in the image size but slow per component: the six runs go on in the background (4 at a time)
    pool = concurrent.futures.ThreadPoolExecutor(max_workers=4)
    mfut = {fmt: pool.submit(run_model_wide, fmt) for fmt in ("PFM4", "PFM3a", "PFM3", "PPM", "PGM", "PFM1")}   # longest first
    pending = []
    sizes = image_sizes(ctx)
    hist = {}
    reps = ctx.pick(2, 6)
    for fmt in FMT:
        cases = []
        for (w, h) in sizes:
            for _ in range(reps if w * h <= 36 else 1):
                cases.append((w, h, gen_vals(r, fmt, w, h)))
        corpus = os.path.join(ctx.verif, "corpus", "C20", "img_%s.txt" % fmt)
        if os.path.exists(corpus):
            for l in open(corpus):
                t = l.split()
                if t and not l.startswith("#"):
                    cases.append((int(t[0]), int(t[1]), [int(x) for x in t[2:]]))
        lines = ["%d %d %s" % (w, h, " ".join(map(str, v))) for (w, h, v) in cases]
        mlines = None
        if model:
            rc, mout, merr = ctx.run_exe(model, ["img", fmt], stdin="\n".join(lines) + "\n")
            mlines = mout.split("\n")[:-1]
            if rc != 0 or len(mlines) != len(cases):
                ctx.broken.append("model driver failed on images %s rc=%s %s" % (fmt, rc, merr[-300:]))
                mlines = None
        if mlines is None:
            mlines = [None] * len(cases)          # no model bytes: the decoded file is still compared with the input
        if any(l and l.startswith("FASTPATH-MISMATCH") for l in mlines):
            ctx.broken.append("driver: the linear evaluation of the model's index list disagrees with Model.writeImage (%s)" % fmt)
            mlines = [l.replace("FASTPATH-MISMATCH ", "") if l else l for l in mlines]
        hist[fmt] = len(cases)
        ctx.count(len(cases))
        # run the real code; restart after a crash so the remaining cases are still seen
        start, restarts, crashes, files = 0, 0, [], {}
        while start < len(cases) and restarts < 4:
            od = os.path.join(outroot, "%s_r%d" % (fmt, restarts))
            os.makedirs(od, exist_ok=True)
            rc, out, err = ctx.run_exe(exe, ["img", fmt, od], stdin="\n".join(lines[start:]) + "\n")
            got = out.split("\n")[:-1]
            for k, p in enumerate(got):
                files[start + k] = p
            if rc == 0:
                break
            crashes.append((start + len(got), rc, err))
            start += len(got) + 1
            restarts += 1
        viol, corr = [], []
        for i, (w, h, vals) in enumerate(cases):
            if i not in files:
                continue
            if w * h >= 2:
                ctx.nontriv("img %s %d %d %s" % (fmt, w, h, vals[:8]))
            data = open(files[i], "rb").read()
            why = image_oracle(data, fmt, w, h, vals)
            if why:
                viol.append((w * h, i, why, data))
            elif mlines[i] is not None and data.hex() != mlines[i]:
                corr.append((i, data.hex(), mlines[i]))
        if crashes:
            i, rc, err = min(crashes, key=lambda c: cases[c[0]][0] * cases[c[0]][1])
            w, h, vals = cases[i]
            # what does the writer produce when the over-read does not trap?  (slack after the buffer)
            od = os.path.join(outroot, "%s_pad" % fmt)
            os.makedirs(od, exist_ok=True)
            rc2, out2, _ = ctx.run_exe(exe, ["img", fmt, od, "65536"], stdin=lines[i] + "\n")
            shown = None
            if rc2 == 0 and out2.strip():
                try:
                    d2 = open(out2.strip(), "rb").read()
                    shown = {"decoded_with_slack": read_image(d2, fmt)[2][:32], "oracle_with_slack": image_oracle(d2, fmt, w, h, vals)}
                except Exception as e:   # noqa
                    shown = {"decode_error": str(e)}
            ctx.violation("%s(%dx%d) reads outside the %d pixels it was given (sanitizer report / crash rc=%d on the exact-size buffer)"
                          % (API[fmt], w, h, w * h, rc),
                          {"api": API[fmt], "format": fmt, "w": w, "h": h, "pixel_components": vals,
                           "stderr_tail": err[-2500:], "model": (mlines[i] or "")[:200],
                           "required": "reads only indices < w*h*PIXEL_COMP; decoded = %s" % required_image(fmt, w, h, vals)[:32],
                           "observed_when_not_trapping": shown, "crashes_in_this_format": len(crashes)})
        if viol:
            _, i, why, data = min(viol)
            w, h, vals = cases[i]
            try:
                dec = read_image(data, fmt)[2]
            except ValueError:
                dec = None
            ctx.violation("%s(%dx%d): %s" % (API[fmt], w, h, why),
                          {"api": API[fmt], "format": fmt, "w": w, "h": h, "pixel_components": vals, "file_hex": data.hex()[:4000],
                           "observed_decoded": dec, "required_decoded": required_image(fmt, w, h, vals),
                           "model_file_hex": (mlines[i] or "")[:4000], "failing_cases_in_this_format": len(viol)})
        elif corr and not crashes:
            i, a, b = corr[0]
            ctx.broken.append("correspondence C20 image model vs %s on %dx%d: file=%s model=%s (file decodes to the input)"
                              % (API[fmt], cases[i][0], cases[i][1], a[:120], b[:120]))
        if len(ctx.samples) < 2 and 5 in files:
            ctx.sample({"api": API[fmt], "w": cases[5][0], "h": cases[5][1], "file_hex": open(files[5], "rb").read().hex()[:120]})
    # ---- wide / tall images: sizes at powers of two +-1 up to 2^14 (where an internal chunking of rows would change behaviour), the buffer
    # filled by a pattern (bytes: (seed + 37 i + 101 (i div 251)) mod 256 — equal only at shifts no chunk size produces; floats: distinct
    # bit patterns 0x3f800000 + seed + i), exact-size heap buffer under ASan, decoded and compared; model by digest
    for fmt in FMT:
        magic, scale, csize, ncomp, pixcomp, flip, sel = FMT[fmt]
        seeds, lines, wsizes = wseeds[fmt], wlines[fmt], wsz[fmt]
        od = os.path.join(outroot, "%s_wide" % fmt)
        os.makedirs(od, exist_ok=True)
        rc, out, err = ctx.run_exe(exe, ["imgpat", fmt, od], stdin="\n".join(lines) + "\n", timeout=600)
        got = out.split("\n")[:-1]
        ctx.count(len(got))
        nwide[fmt] = len(got)
        if rc != 0:
            k = len(got)
            w, h = wsizes[k] if k < len(wsizes) else (0, 0)
            san = re.search(r"(ERROR: AddressSanitizer: \S+|runtime error: [^\n]*)", err)
            acc = re.search(r"\n(READ|WRITE) of size \d+", err)
            where = re.findall(r"#\d+ [^\n]* (\S*SaveImage\.h:\d+)", err)
            ctx.violation("%s(%dx%d) crashed / tripped a sanitizer (rc=%d%s%s%s); the input buffer has exactly w*h pixels" % (
                              API[fmt], w, h, rc, ": " + san.group(1) if san else "", ", " + acc.group(1) if acc else "", " at " + where[0] if where else ""),
                          {"api": API[fmt], "format": fmt, "w": w, "h": h, "seed": seeds[k] if k < len(seeds) else None,
                           "pixel_components": "pattern, see harness imgpat", "stderr_tail": err[-2500:],
                           "required": "completes; reads only indices < w*h*PIXEL_COMP, writes only inside its own row buffer", "rerun": "echo %s | %s imgpat %s %s" % (lines[k] if k < len(lines) else "", exe, fmt, od)})
        worst = None
        digests = {}
        for k, path in enumerate(got):
            (w, h), sd = wsizes[k], seeds[k]
            n = w * h * pixcomp
            vals = [(sd + 37 * i + 101 * (i // 251)) & 255 for i in range(n)] if csize == 1 else list(range(0x3f800000 + sd, 0x3f800000 + sd + n))
            data = open(path, "rb").read()
            ctx.nontriv("imgpat %s %d %d" % (fmt, w, h))
            why = image_oracle(data, fmt, w, h, vals)
            if why:
                if worst is None or w * h < worst[0]:
                    worst = (w * h, k, why, data, vals)
            else:
                digests[k] = "%d %s" % (len(data), hashlib.md5(data).hexdigest())
        pending.append((fmt, seeds, lines, digests, wsizes))
        if worst:
            _, k, why, data, vals = worst
            (w, h), sd = wsizes[k], seeds[k]
            first = None
            try:
                dec = read_image(data, fmt)[2]
                req = required_image(fmt, w, h, vals)
                j = next(i for i in range(len(req)) if dec[i] != req[i])
                row, rem = divmod(j, w * ncomp)
                first = {"file_row": row, "x": rem // ncomp, "channel": rem % ncomp, "decoded": dec[j], "required": req[j],
                         "decoded_around": dec[max(0, j - 2):j + 4], "required_around": req[max(0, j - 2):j + 4]}
            except Exception as e:   # noqa
                first = {"decode_error": str(e)}
            ctx.violation("%s(%dx%d): %s" % (API[fmt], w, h, why),
                          {"api": API[fmt], "format": fmt, "w": w, "h": h, "seed": sd,
                           "pixel_components": "component i = (seed + 37 i + 101 (i div 251)) mod 256" if csize == 1 else "component i = float with bit pattern 0x3f800000 + seed + i",
                           "first_differing_pixel": first, "file_length": len(data),
                           "required": "decoded pixels equal the input (selected channels; rows bottom-up for PPM/PGM)",
                           "rerun": "echo %d %d %d | %s imgpat %s %s" % (w, h, sd, exe, fmt, od)})
    def finish_wide():
        """compare the digests of the wide files with the model's (collected late: the model runs overlap the trace part)"""
        for (fmt, seeds, lines, digests, wsizes) in pending:
            rcm, mout, merr = mfut[fmt].result()
            if rcm is None:
                continue                      # no model
            mlines = mout.split("\n")[:-1]
            if rcm != 0 or len(mlines) != len(lines):
                ctx.broken.append("model driver failed on wide images %s rc=%s %s" % (fmt, rcm, merr[-300:]))
                continue
            for k, dg in digests.items():
                if dg != mlines[k]:
                    ctx.broken.append("correspondence C20 image model vs %s on %dx%d (pattern seed %d): file length/md5 %s, model %s (file decodes to the input)"
                                      % (API[fmt], wsizes[k][0], wsizes[k][1], seeds[k], dg, mlines[k]))
                    break
        pool.shutdown(wait=True)
    ctx.cov["wide_image_cases_per_format"] = nwide
    ctx.cov["wide_image_sizes"] = {fmt: ["%dx%d" % x for x in wsz[fmt]] for fmt in FMT}
    # ---- stack use: rows are small, the image is several times the thread's stack (the row scratch buffer is alloca'd)
    W, H, STACK = 64, 4096, 256 * 1024
    sd = os.path.join(outroot, "stack")
    os.makedirs(sd, exist_ok=True)
    nstack = 0
    for fmt in FMT:
        magic, scale, csize, ncomp, pixcomp, flip, sel = FMT[fmt]
        rc, out, err = ctx.run_exe(exe, ["imgstack", fmt, sd, str(W), str(H), str(STACK)], timeout=120)
        ctx.count(1)
        if out.startswith("SKIP"):
            continue
        nstack += 1
        vals = [(7 * i + 3) % 251 for i in range(W * H * pixcomp)] if csize == 1 else [0x3f800000 + i for i in range(W * H * pixcomp)]
        why = None
        if rc != 0:
            san = re.search(r"(ERROR: AddressSanitizer: [^\n]*|runtime error: [^\n]*)", err)
            why = "crashed (rc=%d%s)" % (rc, ": " + san.group(1) if san else "")
        else:
            try:
                why = image_oracle(open(out.strip(), "rb").read(), fmt, W, H, vals)
            except OSError as e:
                why = "no file: %s" % e
        if why:
            ctx.violation("%s(%dx%d) on a thread with a %d KiB stack: %s — rows of %d bytes, %d KiB of output: the writer's extra stack must be one row, "
                          "not the whole image" % (API[fmt], W, H, STACK // 1024, why, W * ncomp * csize, W * H * ncomp * csize // 1024),
                          {"api": API[fmt], "format": fmt, "w": W, "h": H, "stack_bytes": STACK,
                           "pixel_components": "component i = (7 i + 3) mod 251" if csize == 1 else "component i = float with bit pattern 0x3f800000 + i",
                           "observed": why, "required": "completes and the file decodes to the input; extra stack O(one row) = %d bytes" % (W * ncomp * csize),
                           "stderr_tail": err[-1500:], "rerun": "%s imgstack %s %s %d %d %d" % (exe, fmt, sd, W, H, STACK)})
        else:
            ctx.nontriv("imgstack %s" % fmt)
    ctx.cov["image_small_stack_runs"] = {"w": W, "h": H, "stack_bytes": STACK, "formats_run": nstack}
    ctx.cov["image_cases_per_format"] = hist
    ctx.cov["image_sizes"] = "%d sizes: 1..6 x 1..6, (1,257), (257,1)%s" % (len(sizes), " + thorough extras" if ctx.thorough() else "")
    return finish_wide


# ------------------------------------------------------------------ tracing: cases
NAMES = ["render", "frame", "a", "commit", "load.mesh", "k#7", "x_y-z", "Z", "path/to/x", "n0", "phase+1", "(idle)", "q"]
CATS = ["-", "-", "app", "io", "c.1", "GPU", "render", "a"]      # "render", "a" are names too: name == category pointer


def well_nested(ops):
    d = 0
    for o in ops:
        if o[0] == "B":
            d += 1
        elif o == "E":
            if d == 0:
                return False
            d -= 1
    return True


def gen_ops(r, n, maxdepth=5, sleeps=2, close=True):
    """exactly n events, well nested, all begins closed when close (and n allows)."""
    ops, d, ev, sl = [], 0, 0, sleeps
    while ev < n:
        rem = n - ev
        ch = []
        if d > 0:
            ch += ["E"] * 3
        if not (close and d >= rem):
            if d < maxdepth and (not close or rem >= d + 2):
                ch += ["B"] * 3
            ch += ["M", "C"]
        k = r.choice(ch)
        if k == "B":
            ops.append("B:%s:%s" % (r.choice(NAMES), r.choice(CATS))); d += 1
        elif k == "E":
            if sl > 0 and r.random() < 0.3:
                ops.append("S"); sl -= 1
            ops.append("E"); d -= 1
        elif k == "M":
            ops.append("M:%s:%s" % (r.choice(NAMES), r.choice(CATS)))
        else:
            ops.append("C:%s:%d" % (r.choice(NAMES), r.choice([0, 1, 7, 1 << 31, (1 << 64) - 1, r.randrange(1 << 40)])))
        ev += 1
    return ops


def nested(depth, sleep_at=None):
    ops = []
    for i in range(depth):
        ops.append("B:lvl%d:%s" % (i, "-" if i % 2 else "cat%d" % i))
    ops.append("M:inner:-")
    ops.append("C:cnt:%d" % depth)
    for i in range(depth):
        if sleep_at is not None and i == sleep_at:
            ops.append("S")
        ops.append("E")
    return ops


def trace_cases(ctx):
    """list of dict(pname, threads=[(tname, ops)], tag, balanced)"""
    r = ctx.rng("trace")
    C = []

    def add(tag, pname, threads, phases=None, main=()):
        c = {"tag": tag, "pname": pname, "threads": threads, "phases": phases or [0] * len(threads), "main": set(main)}
        c["balanced"] = all(well_nested(o) for _, o in threads)
        C.append(c)

    # render loops re-emitting the same few string literals (the harness passes one fixed pointer per distinct text): cached and
    # first-seen lookups of the recorder's pointer-keyed string cache interleave, a text serves as name and as category
    add("loop-ABAB", "-", [("t0", ["M:a:-", "M:b:-"] * 3)])
    add("loop-frame", "app", [("main", ["B:app:app", "B:frame:gfx", "M:swapBuffers:app", "E", "C:frame:7", "E"] * 4)])
    add("loop-name-is-category", "-", [("t0", ["B:render:render", "M:render:io", "M:io:render", "E"] * 3 + ["M:late:render", "M:render:late"] * 3)])
    add("loop-2-threads", "-", [("t%d" % k, (["M:a:b", "M:b:a", "B:c:a", "E"] if k == 0 else ["M:b:a", "M:a:b", "M:c:c"]) * 3) for k in range(2)])
    for rep in range(ctx.pick(6, 24)):
        pool = r.sample(["a", "b", "app", "frame", "swapBuffers", "render", "io", "x_y-z"], r.randint(2, 4))
        body = []
        for _ in range(r.randint(2, 5)):
            k = r.random()
            nm, cat = r.choice(pool), r.choice(pool + ["-"])
            body += ["M:%s:%s" % (nm, cat)] if k < 0.5 else (["C:%s:%d" % (nm, r.randrange(100))] if k < 0.7 else ["B:%s:%s" % (nm, cat), "M:%s:%s" % (r.choice(pool), r.choice(pool + ["-"])), "E"])
        pre = ["M:%s:-" % x for x in r.sample(pool, r.randint(0, len(pool)))]
        add("loop-random", r.choice(["-", "proc"]), [("t0", pre + body * r.randint(3, 5))])

    # histories with several saveLog calls: W = every thread of the case stops, the main thread saves, all go on (the harness saves once
    # more after the join).  Persistent threads record before and after a save, threads that start tracing only after a save (leading W),
    # saves while begins are open, two saves in a row, a save before anything was recorded.
    add("history-one-thread", "-", [("t0", ["M:a:-", "W", "M:b:-"])])
    add("history-open-begin", "p", [("t0", ["B:outer:c", "M:a:-", "W", "B:inner:-", "S", "E", "W", "E", "C:n:1"]),
                                    ("t1", ["M:x:-", "W", "W", "M:y:-"])])
    add("history-late-thread", "-", [("early", ["B:a:-", "E", "W", "M:again:-", "W", "M:third:-"]),
                                     ("late", ["W", "M:first-of-late:-", "W"]), ("-", ["W", "W", "C:only-at-the-end:9"])])
    add("history-save-first", "-", [("t0", ["W", "M:a:-", "W", "W", "M:b:-"]), ("t1", ["W", "W", "W", "M:c:-"])])
    for rep in range(ctx.pick(6, 24)):
        nt, K = r.randint(1, 4), r.randint(1, 3)
        ths = []
        for k in range(nt):
            segs = [gen_ops(r, r.choice([0, 1, 2, 3, 5]), maxdepth=2, close=r.random() < 0.6) for _ in range(K + 1)]
            if r.random() < 0.3:
                segs[0] = []                       # starts tracing after the first save
            ops = []
            for j, sg in enumerate(segs):
                ops += sg + (["W"] if j < K else [])
            ths.append(("h%d" % k, ops))
        ths = [(tn, ops) for tn, ops in ths]
        if all(well_nested(o) for _, o in ths):
            add("history-random", r.choice(["-", "proc"]), ths)

    # thread NAMES as an input dimension: 2..8 threads alive at the same time (a W at the end keeps them all until a save), unnamed /
    # distinctly named / all named alike / some sharing a name / named with the empty string; every thread records its own events
    def own(k, n=3):
        return ["B:own_%d_a:-" % k, "M:own_%d_b:cat%d" % (k, k % 2), "E"][:n] + ["C:own_%d_c:%d" % (k, k)]
    for nt in (2, 3, 5, 8):
        layouts = {"unnamed": ["-"] * nt, "distinct": ["n%d" % k for k in range(nt)], "all-alike": ["worker"] * nt,
                   "some-shared": ["worker" if k % 2 else "n%d" % k for k in range(nt)], "empty-names": ["@e"] * nt,
                   "mixed": [["-", "worker", "@e", "worker", "solo"][k % 5] for k in range(nt)]}
        for lay, names in layouts.items():
            add("names-%s-%d" % (lay, nt), r.choice(["-", "proc"]), [(names[k], own(k) + ["W"] + (["M:own_%d_after:-" % k] if k % 2 else [])) for k in range(nt)])

    # texts with a double quote, a backslash, a control character: one kind of text at a time, and all at once (saveLog writes
    # texts verbatim: open known finding C20-saveLog-texts-not-escaped; attributed to it only when the same case with plain
    # letters in their place passes)
    for label, txt in (("quote", 'say"hi'), ("backslash", "back\\slash"), ("control", "ctl\x01char")):
        e = enc_text(txt)
        add("text-%s-thread-name" % label, "-", [(e, ["M:m:-", "B:b:c", "E"])])
        add("text-%s-event-name" % label, "-", [("t0", ["M:%s:-" % e, "B:b:c", "E", "C:%s:3" % e])])
        add("text-%s-category" % label, "-", [("t0", ["M:m:%s" % e, "B:b:%s" % e, "E"])])
        add("text-%s-process-name" % label, e, [("t0", ["M:m:-"])])
    add("text-mixed", enc_text('p"\\'), [(enc_text('t\x02"'), ["B:%s:%s" % (enc_text('n"'), enc_text("c\\")), "E"]), ("plain", ["M:m:-"])])

    def worker(i):
        return ["B:evt_%d:demo" % i, "M:mrk_%d:demo" % i, "C:cnt_%d:%d" % (i, 1000 + i), "E"]
    # recording threads whose lifetimes do NOT overlap: started and joined one after the other (the system is free to give
    # a later thread the std::thread::id of a finished one; the recorder keeps one list per id), then the main thread
    add("sequential-8-then-main", "demo6", [("w%d" % i, worker(i)) for i in range(8)] + [("main", ["B:main_evt:demo", "E"])],
        phases=list(range(8)) + [8], main=[8])
    add("concurrent-8-sequential-8-main", "demo6",
        [("c%d" % i, worker(i)) for i in range(8)] + [("s%d" % i, worker(8 + i)) for i in range(8)] + [("-", ["B:main_evt:demo", "E"])],
        phases=[0] * 8 + list(range(1, 9)) + [9], main=[16])
    add("sequential-unnamed-after-named", "-", [("first", worker(0)), ("-", worker(1)), ("third", ["M:only:-"])], phases=[0, 1, 2])
    add("sequential-open-begin-closed-by-next", "-", [("a", ["B:left-open:x", "M:m:-"]), ("b", ["M:n:-", "S", "E", "C:v:3"])], phases=[0, 1])
    add("sequential-across-chunk", "-", [("t0", gen_ops(r, 8190)), ("t1", worker(1)), ("t2", worker(2))], phases=[0, 1, 2])
    for rep in range(ctx.pick(4, 16)):
        nt = r.randint(2, 6)
        ph, cur = [], 0
        for k in range(nt):
            cur += r.choice([0, 1, 1])
            ph.append(cur)
        add("random-phases", r.choice(["-", "proc"]), [("p%d" % k, gen_ops(r, r.choice([1, 2, 3, 5, 8, 13]), maxdepth=3)) for k in range(nt)], phases=ph)
    add("empty-log", "-", [])
    add("empty-log+process", "proc", [])
    add("thread-without-events", "-", [("t0", [])])
    add("thread-without-events+process", "my.app", [("t0", []), ("t1", [])])
    for op in ["M:mark:-", "M:mark:cat", "C:cnt:42", "B:open:-"]:
        add("one-event", r.choice(["-", "p"]), [("t0" if op[0] != "C" else "-", [op])])
    add("pair", "-", [("-", ["B:a:c", "E"])])
    add("memuse", "-", [("t0", ["R"])])
    add("memuse-nested", "p", [("t0", ["B:a:-", "R", "M:m:-", "E", "R", "C:mem_like:5"]), ("t1", ["M:x:-", "R"])])
    add("pair-long", "p", [("t0", ["B:a:c", "S", "E", "C:v:1"])])
    for d in range(0, 6):
        add("nested-%d" % d, r.choice(["-", "proc"]), [("t0", nested(d, sleep_at=(d // 2 if d else None)))])
        add("nested-%d-threads" % d, "-", [("t%d" % k, nested(d, sleep_at=(k % d if d else None))) for k in range(1 + d % 4)])
    # chunk boundary: 8191 / 8192 / 8193 events
    CH = 8192
    for n in (CH - 1, CH, CH + 1):
        add("chunk-%d" % n, r.choice(["-", "proc"]), [("t0", gen_ops(r, n))])
    add("chunk-3-threads", "proc", [("t%d" % k, gen_ops(r, CH - 1 + k)) for k in range(3)])
    # an open begin crossing the chunk boundary, closed (after a sleep) in the next chunk
    add("begin-crosses-chunk", "-", [("t0", gen_ops(r, CH - 2) + ["B:outer:x", "B:last-in-chunk:-", "S", "E", "M:m:-", "S", "E"])])
    add("markers-only-8193", "-", [("-", ["M:m%d:-" % (i % 7) for i in range(CH + 1)])])
    if ctx.thorough():
        add("chunk-8-threads", "proc", [("t%d" % k, gen_ops(r, CH - 3 + k)) for k in range(8)])
        add("three-chunks", "-", [("t0", gen_ops(r, 2 * CH + 1)), ("t1", gen_ops(r, 2 * CH))])
    for nt in range(1, 9):
        for rep in range(ctx.pick(3, 12)):
            ths = []
            unnamed = r.randrange(nt) if r.random() < 0.3 else -1
            for k in range(nt):
                n = r.choice([1, 2, 3, 5, 8, 13, 30, 60]) if k == unnamed else r.choice([0, 1, 2, 3, 5, 8, 13, 30, 60])
                ths.append(("-" if k == unnamed else r.choice(["t%d", "worker.%d", "T-%d"]) % k,
                            gen_ops(r, n, maxdepth=r.choice([1, 3, 5]), close=r.random() < 0.8) + (["R"] if r.random() < 0.2 else [])))
            add("random-%dthr" % nt, r.choice(["-", "proc", "a b"]) if False else r.choice(["-", "proc", "app-1.2"]), ths)
    # unbalanced histories (outside the property's quantifier; model correspondence only):
    add("stray-end-last", "-", [("t0", ["B:a:-", "E", "M:m:-", "B:b:-", "E", "E"])])
    add("stray-end-then-markers", "-", [("t0", ["M:m:-", "B:a:-", "E", "E", "M:dropped:-", "C:dropped:1"])])
    add("stray-end-at-chunk-end", "-", [("t0", gen_ops(r, CH - 1) + ["E", "B:next:-", "S", "E", "M:after:-"])])
    corpus = os.path.join(ctx.verif, "corpus", "C20", "trace.txt")
    if os.path.exists(corpus):
        for l in open(corpus):
            if l.strip() and not l.startswith("#"):
                C.append(parse_case_line(l.strip()))
    # many pointer-distinct names / categories on one thread: counts at powers of two +-1 (where a growing container of cached
    # strings would reallocate), short names (stored inside a std::string object) and long ones, each decoded name compared;
    # last in the batch: an ASan abort here costs no other case
    for n in (15, 16, 17, 31, 32, 33, 63, 64, 65, 127, 128, 129, 255, 256, 257, 511, 512, 513, 1023, 1024, 1025):
        strs = [("s%d" % i) if i % 3 else ("a-long-event-name-%04d-beyond-the-small-string-size" % i) for i in range(n)]
        ops = []
        for i, nm in enumerate(strs):
            if i % 4 == 1:
                ops.append("B:%s:%s" % (nm, strs[i // 2]))        # category: a string seen before (cache hit)
                ops.append("E")
            elif i % 4 == 3:
                ops.append("C:%s:%d" % (nm, i))
            else:
                ops.append("M:%s:-" % nm)
        ops += ["M:%s:%s" % (strs[k], strs[-1 - k]) for k in range(min(3, n))]      # the earliest names again, after all growth
        add("names-%d" % n, "-", [("t0", ops)])
    return C


def separators(c):
    """' | ' for a thread of the current phase, ' || ' for the first thread of a later phase, ' |@ ' for the main thread"""
    n = len(c["threads"])
    ph = c.get("phases") or [0] * n
    mains = c.get("main") or set()
    out, cur = [], 0
    for i in range(n):
        if i in mains:
            out.append("|@")
            cur = None
        elif cur is None or ph[i] != cur:
            out.append("||" if i > 0 else "|")
            cur = ph[i]
        else:
            out.append("|")
        if i == 0 and i not in mains:
            cur = ph[0]
    return out


def case_line(c):
    s = "T %s" % c["pname"]
    for sep, (tn, ops) in zip(separators(c), c["threads"]):
        s += " %s %s %s" % (sep, tn, " ".join(ops))
    return s.replace("  ", " ").rstrip()


def tok_text(t):
    """token of a case line -> the text it stands for ("@x<hex>" = those bytes: quotes, backslashes, control characters)"""
    if isinstance(t, str) and t.startswith("@x"):
        return bytes.fromhex(t[2:]).decode("latin-1")
    return t


def enc_text(text):
    return "@x" + text.encode("latin-1").hex()


def name_text(tn):
    """thread-name token of a case line -> the string passed to setThreadName ("@e" = the empty string)"""
    return "" if tn == "@e" else tok_text(tn)


SPECIAL = re.compile(r'["\\\x00-\x1f]')
SIG_UNESCAPED = "C20-saveLog-texts-not-escaped"


def case_tokens(c):
    """every text token of a case: (kind, token)"""
    out = [("process name", c["pname"])] if c["pname"] != "-" else []
    for tn, ops in c["threads"]:
        if tn not in ("-", "@e"):
            out.append(("thread name", tn))
        for o in ops:
            f = o.split(":")
            if f[0] in ("B", "M"):
                out.append(("event name", f[1]))
                if f[2] != "-":
                    out.append(("category", f[2]))
            elif f[0] == "C":
                out.append(("event name", f[1]))
    return out


def special_texts(c):
    return sorted(set((k, tok_text(t)) for k, t in case_tokens(c) if SPECIAL.search(tok_text(t))))


def sanitized(c):
    """the same case with every quote, backslash and control character replaced by the letter x"""
    def fix(t):
        tt = tok_text(t)
        return SPECIAL.sub("x", tt) if SPECIAL.search(tt) else t

    def fixop(o):
        f = o.split(":")
        if f[0] in ("B", "M"):
            return "%s:%s:%s" % (f[0], fix(f[1]), f[2] if f[2] == "-" else fix(f[2]))
        if f[0] == "C":
            return "C:%s:%s" % (fix(f[1]), f[2])
        return o
    return dict(c, pname=c["pname"] if c["pname"] == "-" else fix(c["pname"]),
                threads=[(tn if tn in ("-", "@e") else fix(tn), [fixop(o) for o in ops]) for tn, ops in c["threads"]], ids=None)


def thread_groups(c):
    """The lists the recorder keeps: one per thread id.  Threads that record or name themselves, in starting order
    (phase, then position); threads that were given the same std::thread::id (c['ids'], observed in the run: the
    system hands the id of a finished thread to a later one) continue one list.  Without ids every thread is alone."""
    n = len(c["threads"])
    ph = c.get("phases") or [0] * n
    ids = c.get("ids")
    reg = [i for i, (tn, ops) in enumerate(c["threads"]) if tn != "-" or any(o not in ("S", "W") for o in ops)]
    groups, byid = [], {}
    for i in sorted(reg, key=lambda i: (ph[i], i)):
        key = ids[i] if ids and i < len(ids) and ids[i] is not None else 10 ** 30 + i
        if key not in byid:
            byid[key] = {"members": [], "id": key}
            groups.append(byid[key])
        byid[key]["members"].append(i)
    for g in groups:
        names = [name_text(c["threads"][i][0]) for i in g["members"] if c["threads"][i][0] != "-"]
        g["name"] = (names[-1] or "-") if names else "-"        # the last setThreadName wins; an empty name prints the id
        g["ops"] = [o for i in g["members"] for o in c["threads"][i][1]]
    return groups


def compact_case(c):
    """run-length form of a case for reading: 'T <pname> | <tname> 8192 x M:m:- E ...'"""
    s = "T %s" % c["pname"]
    for sep, (tn, ops) in zip(separators(c), c["threads"]):
        s += " %s %s" % (sep, tn)
        i = 0
        while i < len(ops):
            j = i
            while j < len(ops) and ops[j] == ops[i]:
                j += 1
            s += " %s" % ops[i] if j - i == 1 else " %dx(%s)" % (j - i, ops[i])
            i = j
    return s[:3000]


def parse_case_line(l):
    t = l.split()
    c = {"tag": "corpus", "pname": t[1], "threads": [], "phases": [], "main": set()}
    ph = 0
    for x in t[2:]:
        if x in ("|", "||", "|@"):
            if x == "||":
                ph += 1
            if x == "|@":
                ph += 1
                c["main"].add(len(c["threads"]))
            c["threads"].append([None, []])
            c["phases"].append(ph)
            if x == "|@":
                ph += 1
        elif c["threads"][-1][0] is None:
            c["threads"][-1][0] = x
        else:
            c["threads"][-1][1].append(x)
    c["threads"] = [(a, b) for a, b in c["threads"]]
    c["balanced"] = all(well_nested(g["ops"]) for g in thread_groups(c))
    return c


def expected_events(ops):
    ev = []
    for o in ops:
        f = o.split(":")
        if f[0] == "B":
            ev.append(("B", tok_text(f[1]), None if f[2] == "-" else tok_text(f[2]), None))
        elif f[0] == "E":
            ev.append(("E", "", None, None))
        elif f[0] == "M":
            ev.append(("i", tok_text(f[1]), None if f[2] == "-" else tok_text(f[2]), None))
        elif f[0] == "C":
            ev.append(("C", tok_text(f[1]), None, int(f[2])))
        elif f[0] == "R":            # recordMemUse(): two counters, values from /proc (any unsigned number)
            ev.append(("C", "rkTraceVirtMem_B", None, ANYNUM))
            ev.append(("C", "rkTraceRssMem_B", None, ANYNUM))
    return ev


class _AnyNum:
    """matches any non-negative integer counter value"""
    def __eq__(self, other):
        return isinstance(other, int) and not isinstance(other, bool) and other >= 0
    def __ne__(self, other):
        return not self.__eq__(other)
    def __repr__(self):
        return "<any number>"
    __hash__ = None


ANYNUM = _AnyNum()


NUM = r"-?(?:0|[1-9][0-9]*)(?:\.[0-9]+)?(?:[eE][+-]?[0-9]+)?"


def _no_const(x):
    raise ValueError("non-JSON constant " + x)


def trace_oracle(text, c):
    """Independent reading of the file with python json.  Returns (problems, order) where order lists, for
    the threads in file order, the index of the thread in the case (or None when the file is unreadable)."""
    try:
        objs = json.loads(text, parse_constant=_no_const)
    except ValueError as e:
        return ["not well-formed JSON: %s (file starts %r, ends %r)" % (e, text[:40], text[-40:])], None
    if not isinstance(objs, list) or not all(isinstance(o, dict) for o in objs):
        return ["not a JSON array of objects"], None
    pb = []
    k = 0
    if c["pname"] != "-":
        o = objs[0] if objs else {}
        if not (o.get("ph") == "M" and o.get("name") == "process_name" and o.get("args", {}).get("name") == tok_text(c["pname"])):
            pb.append("process_name metadata missing/wrong: %r" % (o,))
        k = 1
    groups = thread_groups(c)
    registered = list(range(len(groups)))
    # the thread lists of the file, in file order: (printed name, objects)
    entries = []
    pids = set()
    for o in objs[k:]:
        pids.add(o.get("pid"))
        if o.get("ph") == "M" and o.get("name") == "thread_name":
            if o.get("tid") != len(entries):
                pb.append("thread ids not consecutive: %r" % (o,))
            entries.append((o.get("args", {}).get("name"), []))
        else:
            if not entries or o.get("tid") != len(entries) - 1:
                pb.append("event with wrong/unknown thread: %r" % (o,))
                continue
            entries[-1][1].append(o)

    def plain(objs_):
        return [(x.get("ph"), x.get("name"), x.get("cat"), x.get("args", {}).get("value") if x.get("ph") == "C" else None)
                for x in objs_ if not (x.get("ph") == "C" and x.get("name") == "cpuUtilization" and x.get("cat") == "builtin")]

    def name_fits(nm, g):
        return (g["name"] == nm) if g["name"] != "-" else (isinstance(nm, str) and nm.isdigit())
    # thread names are attributes, not keys: several threads may carry the same name (or none).  A list of the file is matched with
    # a recording thread list of the same name whose events it holds (else with any unmatched one of that name)
    order, per, free = [], {}, set(registered)
    for (nm, eo) in entries:
        cands = [i for i in sorted(free) if name_fits(nm, groups[i])]
        exact = [i for i in cands if expected_events(groups[i]["ops"]) == plain(eo)]
        cur = (exact or cands or [None])[0]
        if cur is None:
            pb.append("thread list named %r in the file matches no recording thread (names of the recording threads: %r)"
                      % (nm, [g["name"] for g in groups]))
        else:
            free.discard(cur)
            per[cur] = eo
        order.append(cur)
    if len(pids) > 1:
        pb.append("several pids %r" % (pids,))
    if sorted(x for x in order if x is not None) != sorted(registered):
        pb.append("thread lists in the file %r (names %r), thread lists that recorded %r (names %r, members %r)"
                  % (order, [e[0] for e in entries], registered, [g["name"] for g in groups], [g["members"] for g in groups]))
    if not all(well_nested(g["ops"]) for g in groups):
        return pb, order           # completeness is only required of properly nested histories
    for i in registered:
        exp = expected_events(groups[i]["ops"])
        got, stack, j = per.get(i, []), [], 0
        evs = []
        n = 0
        while n < len(got):
            o = got[n]
            builtin = o.get("ph") == "C" and o.get("name") == "cpuUtilization" and o.get("cat") == "builtin"
            if builtin:
                pb.append("thread %d: builtin counter not directly after an end event: %r" % (i, o))
                n += 1
                continue
            val = o.get("args", {}).get("value") if o.get("ph") == "C" else None
            evs.append((o.get("ph"), o.get("name"), o.get("cat"), val))
            if not isinstance(o.get("ts"), int):
                pb.append("thread %d: ts missing %r" % (i, o))
            if o.get("ph") == "B":
                stack.append(o)
            elif o.get("ph") == "E":
                b = stack.pop() if stack else None
                if b is None:
                    pb.append("thread %d: end event without an open begin in the file" % i)
                if "cpuUtilization" not in o.get("args", {}):
                    pb.append("thread %d: end event without cpuUtilization %r" % (i, o))
                if n + 1 < len(got):
                    nx = got[n + 1]
                    if nx.get("ph") == "C" and nx.get("name") == "cpuUtilization" and nx.get("cat") == "builtin":
                        # the utilisation counter of an interval is stamped with the time of the matching begin
                        if b is not None and nx.get("ts") != b.get("ts"):
                            pb.append("thread %d: end event #%d is matched with a begin at ts=%r, the innermost open begin is %r at ts=%r"
                                      % (i, len(evs) - 1, nx.get("ts"), b.get("name"), b.get("ts")))
                        n += 1
            n += 1
        if evs != exp:
            d = next((x for x in range(min(len(evs), len(exp))) if evs[x] != exp[x]), min(len(evs), len(exp)))
            who = "%s" % groups[i]["name"] if len(groups[i]["members"]) == 1 else \
                "%s: threads %s ran one after the other with the same std::thread::id and share one list" % (
                    groups[i]["name"], [c["threads"][m][0] for m in groups[i]["members"]])
            pb.append("thread %d (%s): %d events in the file, %d recorded; first difference at #%d: file %r, recorded %r"
                      % (i, who, len(evs), len(exp), d, evs[d] if d < len(evs) else None, exp[d] if d < len(exp) else None))
    return pb, order


def normalise(text):
    """cpuUtilization values (getrusage / float formatting) and printed thread ids are opaque: fixed tokens."""
    bad = [m for m in re.findall(r'"cpuUtilization":([^}]*)}', text) if not re.fullmatch(NUM, m)]
    t = re.sub(r'("cpuUtilization":)' + NUM + "}", r"\g<1>0}", text)
    t = re.sub(r'("cat":"builtin","args":\{"value":)' + NUM + "}", r"\g<1>0}", t)
    t = re.sub(r'("name":"thread_name","args":\{"name":")[0-9]+("\})', r"\g<1>TID\g<2>", t)
    t = re.sub(r'("name":"rkTrace(?:Virt|Rss)Mem_B","args":\{"value":)[0-9]+\}', r"\g<1>0}", t)
    return t, bad


def model_line(c, order, pid, infos):
    """case + recorded clock values -> input line of the model driver: the threads in starting order with their ids; the
    extracted reg_run builds the recorder's map; `order` = the map entries in file order.  None when the clock values do
    not cover the recorded events."""
    groups = thread_groups(c)
    gid = {}
    for k, g in enumerate(groups):
        gid[k] = g["id"] if g["id"] < 10 ** 30 else 10 ** 6 + k
    s = "T %s %d %s" % (c["pname"], pid, ",".join(str(gid[k]) for k in order) if order else "-")
    ph = c.get("phases") or [0] * len(c["threads"])
    member = {m: k for k, g in enumerate(groups) for m in g["members"]}
    offs = {k: 0 for k in gid}
    for i in sorted(member, key=lambda i: (ph[i], i)):
        k = member[i]
        tn, ops = c["threads"][i]
        times = infos[groups[k]["members"][-1]][2]      # the list is shared: the last thread that used it reports it all
        s += " | %s#%d" % ("TID" if tn == "-" else tn, gid[k])
        for o in ops:
            if o in ("S", "W"):
                continue
            for o1 in (["C:rkTraceVirtMem_B:0", "C:rkTraceRssMem_B:0"] if o == "R" else [o]):
                if offs[k] >= len(times):
                    return None
                s += " %s:%d" % (o1, times[offs[k]]) if o1 != "E" else " E:%d" % times[offs[k]]
                offs[k] += 1
    if any(offs[k] != len(infos[groups[k]["members"][-1]][2]) for k in gid):
        return None
    return s


def parse_info(s):
    tid = None
    if "#" in s:
        s, t = s.rsplit("#", 1)
        tid = int(t) if t.isdigit() else None
    if s == "-" or s == "":
        return ([], None, [], tid)
    a, b, c = s.split("/")
    return ([int(x) for x in a.split(",")], int(b), [int(x) for x in c.split(",")] if c else [], tid)


def with_ids(c, infos):
    return dict(c, ids=[inf[3] for inf in infos])


PUBLIC = [False]      # set by run(): the harness is the public-interface build (one case per process)


def run_harness_trace(ctx, exe, cases, od):
    os.makedirs(od, exist_ok=True)
    if PUBLIC[0]:
        res, rc_all, err_all = [], 0, ""
        for i, c in enumerate(cases):
            odi = os.path.join(od, "c%d" % i)
            os.makedirs(odi, exist_ok=True)
            rc, out, err = ctx.run_exe(exe, ["trace", odi], stdin=case_line(c) + "\n", timeout=300)
            ls = out.split("\n")[:-1]
            if rc != 0 or not ls:
                return rc or 1, res, err
            p, _, rest = ls[0].partition(" ")
            res.append((p, [parse_info(x) for x in rest.split(";")] if rest.strip() else []))
        return rc_all, res, err_all
    rc, out, err = ctx.run_exe(exe, ["trace", od], stdin="\n".join(case_line(c) for c in cases) + "\n", timeout=900)
    res = []
    for l in out.split("\n")[:-1]:
        p, _, rest = l.partition(" ")
        res.append((p, [parse_info(x) for x in rest.split(";")] if rest.strip() else []))
    return rc, res, err


def run_model(ctx, model, lines):
    # the extracted list functions are not tail recursive: give the model a big stack
    rc, out, err = ctx.run_exe("/bin/bash", ["-c", 'ulimit -s unlimited 2>/dev/null || ulimit -s 4000000; exec "$0" "$@"', model, "trace"],
                               stdin="\n".join(lines) + "\n", timeout=900)
    return rc, out.split("\n")[:-1], err


def shrink_trace(ctx, exe, c, od):
    """smaller case on which the oracle still fails (keeps every thread properly nested)."""
    def fails(cc):
        if over_budget() or not all(well_nested(o) for _, o in cc["threads"]):
            return False
        cc = dict(cc, balanced=True, ids=None)
        rc, res, err = run_harness_trace(ctx, exe, [cc], od)
        if rc != 0 or not res:
            return True
        cc = with_ids(cc, res[0][1])
        pb, _ = trace_oracle(open(res[0][0], errors="replace").read(), cc)
        return bool(pb)

    def rebuild(base, items):
        return dict(base, threads=[(a, b) for (a, b, _, _) in items], phases=[p for (_, _, p, _) in items],
                    main=set(i for i, it in enumerate(items) if it[3]))
    cur = dict(c, ids=None)
    n0 = len(cur["threads"])
    ph0 = cur.get("phases") or [0] * n0
    items = [(cur["threads"][i][0], cur["threads"][i][1], ph0[i], i in (cur.get("main") or set())) for i in range(n0)]
    items = vlib.shrink_list(items, lambda t: fails(rebuild(cur, t)), max_rounds=40)
    cur = rebuild(cur, items)
    ths = cur["threads"]
    for k in range(len(ths)):
        tn, ops = cur["threads"][k]
        if len(ops) > 4000:
            # too long for delta debugging: try the canonical script "n markers" and bisect the smallest n that
            # still fails (chunk-boundary defects fail from some event count on)
            nev = len(expected_events(ops))
            with_k = lambda o, k=k, tn=tn: dict(cur, threads=cur["threads"][:k] + [(tn, o)] + cur["threads"][k + 1:])
            if fails(with_k(["M:m:-"] * nev)):
                lo, hi = 0, nev            # fails at hi, assumed not to fail at lo
                while hi - lo > 1:
                    mid = (lo + hi) // 2
                    if fails(with_k(["M:m:-"] * mid)):
                        hi = mid
                    else:
                        lo = mid
                cur["threads"] = cur["threads"][:k] + [(tn, ["M:m:-"] * hi)] + cur["threads"][k + 1:]
            continue
        small = vlib.shrink_list(ops, lambda o, k=k, tn=tn: fails(dict(cur, threads=cur["threads"][:k] + [(tn, o)] + cur["threads"][k + 1:])),
                                 max_rounds=120)
        cur["threads"] = cur["threads"][:k] + [(tn, small)] + cur["threads"][k + 1:]
    if cur["pname"] != "-" and fails(dict(cur, pname="-")):
        cur["pname"] = "-"
    return cur


CHUNK = 8192      # THREAD_EVENT_CHUNK_SIZE = Model.chunk_size


def expected_chunks(n):
    return [CHUNK] * (n // CHUNK) + ([n % CHUNK] if n % CHUNK else [])


def shrink_chunk_overflow(ctx, exe, c, k, od, orig_info):
    """smallest single-thread script of n markers whose recording has a chunk above CHUNK events."""
    def probe(n):
        cc = {"tag": "shrunk", "pname": "-", "threads": [("t0", ["M:m:-"] * n)], "balanced": True}
        rc, res, err = run_harness_trace(ctx, exe, [cc], od)
        if rc != 0 or not res or not res[0][1]:
            return None, cc
        sizes, cap = res[0][1][0][0], res[0][1][0][1]
        return ((max(sizes), sizes, cap) if sizes and max(sizes) > CHUNK else None), cc
    nev = len(expected_events(c["threads"][k][1]))
    info, cc = probe(nev)
    if info is None:
        return c, orig_info            # the canonical script does not reproduce it: report the original case
    lo, hi, best = 0, nev, (info, cc)
    while hi - lo > 1:
        mid = (lo + hi) // 2
        inf, cm = probe(mid)
        if inf is not None:
            hi, best = mid, (inf, cm)
        else:
            lo = mid
    return best[1], best[0]


def run_trace(ctx, model, exe, public=False):
    PUBLIC[0] = public
    cases = trace_cases(ctx)
    od = os.path.join(ctx.build, "trace")
    shutil.rmtree(od, ignore_errors=True)
    rc, res, err = run_harness_trace(ctx, exe, cases, od)
    if rc != 0:
        i = len(res)
        san = re.search(r"(ERROR: AddressSanitizer: [^\n]*|runtime error: [^\n]*)", err)
        where = re.findall(r"#\d+ [^\n]* in ([^\n]*Tracing\.(?:cpp|h):\d+)", err)
        ctx.violation("recording / saveLog crashed or tripped a sanitizer (rc=%d%s%s) on case %s" % (
                          rc, ": " + san.group(1)[:160] if san else "", "; at " + where[0] if where else "", cases[i]["tag"] if i < len(cases) else "?"),
                      {"case": case_line(cases[i])[:3000] if i < len(cases) else None, "stderr_tail": err[-2500:],
                       "required": "no crash, no sanitizer report"}, found_input=i < len(cases))
    # the saves in the middle of a history: one more result each = the history up to that save, the file <path>.s<k>, the clock
    # values recorded so far
    nsaves = 0
    for i in range(len(res)):
        c = cases[i]
        K = min([ops.count("W") for _, ops in c["threads"]] or [0])
        if K == 0 or any(ops.count("W") != K for _, ops in c["threads"]) or len(set(c.get("phases") or [0])) > 1 or c.get("main"):
            continue
        path, infos = res[i]
        for k in range(K):
            pth, pinf = [], []
            for j, (tn, ops) in enumerate(c["threads"]):
                cut = [x for x, o in enumerate(ops) if o == "W"][k]
                lead = next((x for x, o in enumerate(ops) if o != "W"), len(ops))
                pre = [o for o in ops[:cut] if o != "W"]
                started = lead < cut
                pth.append((tn if started else "-", pre))
                cnt = len(expected_events(pre))
                inf = infos[j] if j < len(infos) else ([], None, [], None)
                pinf.append((expected_chunks(cnt), inf[1], inf[2][:cnt], inf[3]))
            cases.append({"tag": c["tag"] + "/save-%d" % k, "pname": c["pname"], "threads": pth, "phases": [0] * len(pth), "main": set(),
                          "balanced": False, "history": case_line(c), "save_number": k})
            res.append((path + ".s%d" % k, pinf))
            nsaves += 1
    ctx.cov["saves_in_the_middle_of_a_history"] = nsaves
    ctx.count(len(res))
    mlines, midx, texts, orders = [], [], {}, {}
    reported = set()
    overcases = set()
    hist = {}
    nreuse = 0
    n_unescaped = 0
    for i, (path, infos) in enumerate(res):
        c = cases[i]
        hist[c["tag"].split("-")[0]] = hist.get(c["tag"].split("-")[0], 0) + 1
        nev = sum(len(expected_events(o)) for _, o in c["threads"])
        if nev:
            ctx.nontriv(case_line(c))
        try:
            text = open(path, errors="replace").read()
        except OSError:
            text = None
        if text is None:
            ctx.violation("saveLog wrote no file", {"case": case_line(c)[:3000]})
            continue
        c = cases[i] = with_ids(c, infos)
        groups = thread_groups(c)
        nreuse += sum(1 for g in groups if len(g["members"]) > 1)
        pb, order = trace_oracle(text, c)
        if pb and special_texts(c) and "history" not in c:
            # a text with a quote / backslash / control character: is that the only thing wrong?  the same case with plain letters
            sc = sanitized(c)
            rc3, res3, _ = run_harness_trace(ctx, exe, [sc], os.path.join(ctx.build, "trace_shrink"))
            ok3 = False
            if rc3 == 0 and res3:
                try:
                    pb3, _o3 = trace_oracle(open(res3[0][0], errors="replace").read(), with_ids(sc, res3[0][1]))
                    ok3 = not pb3
                except OSError:
                    ok3 = False
            if ok3:
                n_unescaped += 1
                ctx.violation("saveLog: %s" % pb[0],
                              {"case": case_line(c), "texts": ["%s %r" % kt for kt in special_texts(c)], "file": text[:2000], "problems": pb[:3],
                               "same_case_with_plain_letters": case_line(sc) + "  -> passes",
                               "required": "a well-formed JSON array in which every text decodes to the text given"},
                              signature=SIG_UNESCAPED)
                if ctx.finding_for(SIG_UNESCAPED) is not None:
                    continue          # recorded as the known finding; nothing else is wrong with this case
                reported.add(c["tag"])
                continue
        if pb and c["tag"] not in reported and len(reported) < 3:
            reported.add(c["tag"])
            if "history" in c:
                small, res2, t2, pb2 = c, None, text, pb        # a save in the middle: the history is the input
            else:
                small = shrink_trace(ctx, exe, c, os.path.join(ctx.build, "trace_shrink")) if c["balanced"] else c
                rc2, res2, _ = run_harness_trace(ctx, exe, [small], os.path.join(ctx.build, "trace_shrink"))
                t2 = open(res2[0][0], errors="replace").read() if res2 else text
                pb2, _ = trace_oracle(t2, with_ids(small, res2[0][1])) if res2 else (None, None)
            ctx.violation("saveLog: %s" % (pb2 or pb)[0],
                          {"case": c.get("history") or case_line(small), "case_compact": compact_case(small), "file": t2[:3000], "file_tail": t2[-600:],
                           "which_save": ("save number %d of the history (W = all threads stop, the main thread calls saveLog, all go on); recorded up to "
                                          "there: %s" % (c["save_number"], case_line(small))) if "history" in c else
                                         ("the save after all threads were joined" + ("; earlier saves at each W" if " W" in case_line(small) else "")),
                           "problems": (pb2 or pb)[:5],
                           "required": "a well-formed JSON array holding, per thread, every event recorded so far in recording order (saveLog does not reset the recorder), "
                                       "ends matched with the innermost open begin",
                           "original_case_tag": c["tag"], "recorded_events": sum(len(expected_events(o)) for _, o in small["threads"])})
        over = [(k, sz, inf[1]) for k, inf in enumerate(infos) for sz in inf[0] if sz > CHUNK]
        if over:
            overcases.add(i)
            if "chunk-capacity" not in reported:
                reported.add("chunk-capacity")
                k, sz, cap = over[0]
                small, sinfo = shrink_chunk_overflow(ctx, exe, c, k, os.path.join(ctx.build, "trace_shrink"), (sz, infos[k][0], cap))
                ctx.violation("ThreadEventList: a chunk of the event list holds %d events, more than the %d it reserves (the vector grew past its "
                              "reserved capacity and was reallocated)" % (sinfo[0], CHUNK),
                              {"case": case_line(small), "case_compact": compact_case(small),
                               "observed": "chunk sizes %s, smallest chunk capacity %s" % (sinfo[1], sinfo[2]),
                               "required": "every chunk holds between 1 and %d events; a new chunk is opened when the last one is full "
                                           "(chunk sizes %s)" % (CHUNK, expected_chunks(sum(sinfo[1]))),
                               "original_case_tag": c["tag"]})
        if len(ctx.samples) < 5 and c["tag"] in ("pair-long", "nested-2"):
            ctx.sample({"case": case_line(c), "file": text[:400]})
        if order is None:
            order = list(range(len(groups)))
            pid = 0
        else:
            m = re.search(r'"pid":([0-9]+)', text)
            pid = int(m.group(1)) if m else 0
        if any(x is None for x in order):
            continue
        ml = model_line(c, order, pid, infos) if (model and not public) else None
        if ml is None:
            # the clock values reported for a list must be as many as the events its threads recorded
            if not pb and model and not public:
                ctx.broken.append("harness: recorded event count differs from the script in case %s" % c["tag"])
            continue
        mlines.append(ml)
        midx.append(i)
        texts[i] = (text, pb)
        orders[i] = order
    if not mlines:
        mout = []
        rc, merr = 0, ""
    else:
        rc, mout, merr = run_model(ctx, model, mlines)
    if rc != 0 or len(mout) != len(mlines):
        ctx.broken.append("model driver failed on traces rc=%s lines=%d/%d %s" % (rc, len(mout), len(mlines), merr[-300:]))
        return
    ncorr, nlong, chunks = 0, 0, {}
    for i, ml in zip(midx, mout):
        c = cases[i]
        mtext, msizes, mjson = ml.split("\t")[:3]
        groups = thread_groups(c)
        last = lambda k: res[i][1][groups[k]["members"][-1]]     # noqa: E731  (info of the last thread of list k)
        text, pb = texts[i]
        ntext, bad = normalise(text)
        nlong += ntext.count('"cat":"builtin"')
        hs = ";".join(",".join(map(str, last(k)[0])) if last(k)[0] else "-" for k in orders[i])
        for k in orders[i]:
            for s in last(k)[0]:
                key = "full" if s == 8192 else ("1" if s == 1 else "partial")
                chunks[key] = chunks.get(key, 0) + 1
        if mjson != "1" and not pb:
            ctx.broken.append("the Coq recogniser rejects the model's log for case %s although python json accepts the file" % c["tag"])
        if pb or i in overcases:
            continue   # already reported as a violation
        if ntext != mtext or hs != msizes:
            ncorr += 1
            if ncorr == 1:
                d = next((x for x in range(min(len(ntext), len(mtext))) if ntext[x] != mtext[x]), min(len(ntext), len(mtext)))
                ctx.broken.append("correspondence C20 saveLog model vs real code, case %s: first difference at byte %d: file %r / model %r; chunk sizes %s / %s "
                                  "(the file passes the independent reader)" % (c["tag"], d, ntext[max(0, d - 40):d + 40], mtext[max(0, d - 40):d + 40], hs, msizes))
    oph = {"B": 0, "E": 0, "M": 0, "C": 0, "R": 0, "name": 0, "threads": 0, "case": len(res)}
    for i in range(len(res)):
        for tn, ops in cases[i]["threads"]:
            if tn != "-":
                oph["name"] += 1
            if tn != "-" or any(o not in ("S", "W") for o in ops):
                oph["threads"] += 1
            for o in ops:
                if o[0] in oph:
                    oph[o[0]] += 1
    ctx.cov["trace_op_histogram"] = oph
    ctx.cov["trace_cases"] = hist
    ctx.cov["trace_mismatches"] = ncorr
    ctx.cov["trace_long_intervals_seen"] = nlong
    ctx.cov["chunk_kinds_seen"] = chunks
    ctx.cov["chunks_over_capacity"] = len(overcases)
    ctx.cov["thread_id_reused_lists_seen"] = nreuse
    ctx.cov["cases_attributed_to_" + SIG_UNESCAPED] = n_unescaped
    ctx.cov["trace_threads_histogram"] = {str(n): sum(1 for c in cases if len(c["threads"]) == n) for n in range(0, 9)}


def run_race(ctx, exe_tsan, public=False):
    """N threads released by a barrier record their FIRST event at the same moment (registration of the thread's list in the
    recorder's map), many rounds with fresh recorders, under ThreadSanitizer; every thread's events exactly once in each log."""
    od = os.path.join(ctx.build, "race")
    shutil.rmtree(od, ignore_errors=True)
    os.makedirs(od)
    stat = {"runs": 0, "rounds": 0}
    for (n, rounds) in ((2, 30), (3, 20), (4, 20), (8, 12), (16, 8)) + (((2, 200), (5, 60), (16, 30)) if ctx.thorough() else ()):
        rc, out, err = ctx.run_exe(exe_tsan, ["race", od, str(n), str(rounds)], timeout=300)
        stat["runs"] += 1
        ctx.count(1)
        o = out.strip()
        why = None
        if rc != 0:
            m = re.search(r"(WARNING: ThreadSanitizer: [^\n]*)", err)
            frames = re.findall(r"#\d+ ([^\n]*Tracing\.cpp:\d+)", err)
            why = "%s%s (rc=%d)" % (m.group(1) if m else "crashed", "; " + "; ".join(dict.fromkeys(f.strip()[:120] for f in frames[:4])) if frames else "", rc)
        elif not o.startswith("OK"):
            why = o[:400] or "no output"
        elif not public:
            # independent reading of the last round's log
            path = o.split()[-1]
            try:
                objs = json.loads(open(path).read(), parse_constant=_no_const)
                names = [x.get("name") for x in objs if x.get("ph") in ("B", "i", "C") and x.get("cat") != "builtin"]
                want = sorted("r%d_t%d_%s" % (rounds - 1, k, sfx) for k in range(n) for sfx in ("first", "mark", "count"))
                if sorted(names) != want:
                    why = "the log of the last round holds the events %r, recorded %r" % (sorted(names)[:12], want[:12])
                nthr = sum(1 for x in objs if x.get("ph") == "M" and x.get("name") == "thread_name")
                if not why and nthr != n:
                    why = "%d thread lists in the log, %d threads recorded" % (nthr, n)
            except (ValueError, OSError) as e:
                why = "log of the last round unreadable: %s" % e
        if why:
            ctx.violation("tracing from %d threads that record their first event at the same time: %s" % (n, why),
                          {"threads": n, "rounds": rounds, "scenario": "per round a fresh recorder; the threads wait at a barrier, then each calls beginEvent (its first tracing "
                           "call, which registers the thread's event list), setMarker, setCounter, endEvent; join; saveLog",
                           "observed": why, "required": "no data race (ThreadSanitizer), every thread's events exactly once in the log",
                           "stderr_tail": err[-3000:], "rerun": "TSAN_OPTIONS=exitcode=97:halt_on_error=1 %s race %s %d %d" % (exe_tsan, od, n, rounds)})
            break
        stat["rounds"] += rounds
        ctx.nontriv("race %d %d" % (n, rounds))
    ctx.cov["concurrent_first_events_tsan"] = stat


# ------------------------------------------------------------------ inventory closure
# Every declaration of utility/SaveImage.h and tracing/Tracing.{h,cpp} (clang AST + #define lines, re-read on every run; implicit special
# members, template instantiations and specializations included) -> the theorems / source-derived obligations about it and the harness
# operations that execute it (img:<format> image cases of that writer; tr:B/E/M/C/R recorded events by kind, R = recordMemUse; tr:name
# setThreadName; tr:threads registered threads; tr:case saveLog calls; tr:long intervals > 100 us; tr:chunkfull full chunks; race = TSan
# rounds), or the reason it lies outside the property.
COVER = {
    "ThreadEventList::ThreadEventList void () noexcept [implicit] [=default]":
        {"by": ["registry_keeps_every_event", "facts_trace_match"], "ops": ["tr:threads"]},
    "ThreadEventList::ThreadEventList void (const rkcommon::tracing::ThreadEventList &) noexcept(false) [implicit] [=default]":
        {"out": "a ThreadEventList lives behind a shared_ptr created by getThreadTraceList and is never copied, moved or assigned by the library (facts_trace_match: getThreadTraceList shape)"},
    "ThreadEventList::ThreadEventList void (rkcommon::tracing::ThreadEventList &&) noexcept [implicit] [=default]":
        {"out": "a ThreadEventList lives behind a shared_ptr created by getThreadTraceList and is never copied, moved or assigned by the library (facts_trace_match: getThreadTraceList shape)"},
    "ThreadEventList::beginEvent void (const char *, const char *)":
        {"by": ["savelog_complete", "savelog_nesting", "facts_trace_match"], "ops": ["tr:B"]},
    "ThreadEventList::endEvent void ()":
        {"by": ["savelog_complete", "savelog_nesting", "facts_trace_match"], "ops": ["tr:E"]},
    "ThreadEventList::getCachedString const char *(const char *)":
        {"by": ["string_cache_faithful", "string_cache_hit", "string_cache_miss", "facts_trace_model"], "ops": ["tr:B", "tr:M", "tr:C", "tr:R"]},
    "ThreadEventList::getCurrentEventList std::vector<TraceEvent> &()":
        {"by": ["chunks_concat", "chunks_never_reallocate", "facts_trace_model"], "ops": ["tr:B", "tr:E", "tr:M", "tr:C", "tr:R"]},
    "ThreadEventList::operator= rkcommon::tracing::ThreadEventList &(const rkcommon::tracing::ThreadEventList &) noexcept(false) [implicit] [=default]":
        {"out": "a ThreadEventList lives behind a shared_ptr created by getThreadTraceList and is never copied, moved or assigned by the library (facts_trace_match: getThreadTraceList shape)"},
    "ThreadEventList::operator= rkcommon::tracing::ThreadEventList &(rkcommon::tracing::ThreadEventList &&) noexcept [implicit] [=default]":
        {"out": "a ThreadEventList lives behind a shared_ptr created by getThreadTraceList and is never copied, moved or assigned by the library (facts_trace_match: getThreadTraceList shape)"},
    "ThreadEventList::setCounter void (const char *, const uint64_t)":
        {"by": ["savelog_complete", "facts_trace_match"], "ops": ["tr:C", "tr:R"]},
    "ThreadEventList::setMarker void (const char *, const char *)":
        {"by": ["savelog_complete", "facts_trace_match"], "ops": ["tr:M"]},
    "ThreadEventList::~ThreadEventList void () noexcept [implicit] [=default]":
        {"by": ["registry_keeps_every_event"], "ops": ["tr:case"]},
    "TraceEvent::TraceEvent void ()":
        {"by": ["savelog_complete"], "ops": ["tr:B", "tr:E", "tr:M", "tr:C", "tr:R"]},
    "TraceEvent::TraceEvent void (const rkcommon::tracing::EventType)":
        {"by": ["savelog_complete"], "ops": ["tr:E", "tr:B", "tr:M", "tr:C", "tr:R"]},
    "TraceEvent::TraceEvent void (const rkcommon::tracing::EventType, const char *, const char *)":
        {"by": ["savelog_complete", "facts_trace_match"], "ops": ["tr:B", "tr:M", "tr:C", "tr:R"]},
    "TraceEvent::TraceEvent void (const rkcommon::tracing::EventType, const char *, const uint64_t)":
        {"by": ["savelog_complete", "facts_trace_match"], "ops": ["tr:C", "tr:R"]},
    "TraceEvent::TraceEvent void (const rkcommon::tracing::TraceEvent &) noexcept [implicit] [=default]":
        {"out": "events are constructed in place / moved into their chunk and never copied or assigned afterwards (chunks_never_reallocate: no reallocation); trivially copyable aggregate"},
    "TraceEvent::TraceEvent void (rkcommon::tracing::TraceEvent &&) noexcept [implicit] [=default]":
        {"by": ["chunks_never_reallocate"], "ops": ["tr:B", "tr:E", "tr:M", "tr:C", "tr:R"]},
    "TraceEvent::operator= rkcommon::tracing::TraceEvent &(const rkcommon::tracing::TraceEvent &) noexcept [implicit] [=default]":
        {"out": "events are constructed in place / moved into their chunk and never copied or assigned afterwards (chunks_never_reallocate: no reallocation); trivially copyable aggregate"},
    "TraceEvent::operator= rkcommon::tracing::TraceEvent &(rkcommon::tracing::TraceEvent &&) noexcept [implicit] [=default]":
        {"out": "events are constructed in place / moved into their chunk and never copied or assigned afterwards (chunks_never_reallocate: no reallocation); trivially copyable aggregate"},
    "TraceEvent::~TraceEvent void () noexcept [implicit] [=default]":
        {"by": ["chunks_concat"], "ops": ["tr:B", "tr:E", "tr:M", "tr:C", "tr:R"]},
    "TraceRecorder::TraceRecorder void () noexcept [implicit] [=default]":
        {"by": ["registry_keeps_every_event"], "ops": ["tr:case"]},
    "TraceRecorder::TraceRecorder void (const rkcommon::tracing::TraceRecorder &) [implicit] [=deleted]":
        {"out": "implicitly deleted (std::mutex member): the recorder cannot be copied or moved"},
    "TraceRecorder::TraceRecorder void (rkcommon::tracing::TraceRecorder &&) [implicit] [=deleted]":
        {"out": "implicitly deleted (std::mutex member): the recorder cannot be copied or moved"},
    "TraceRecorder::getThreadTraceList std::shared_ptr<ThreadEventList> (const std::thread::id &)":
        {"by": ["registry_keeps_every_event", "registry_one_entry_per_id", "facts_trace_model"], "ops": ["tr:threads", "race"]},
    "TraceRecorder::operator= rkcommon::tracing::TraceRecorder &(const rkcommon::tracing::TraceRecorder &) [implicit] [=deleted]":
        {"out": "implicitly deleted (std::mutex member): the recorder cannot be copied or moved"},
    "TraceRecorder::operator= rkcommon::tracing::TraceRecorder &(rkcommon::tracing::TraceRecorder &&) [implicit] [=deleted]":
        {"out": "implicitly deleted (std::mutex member): the recorder cannot be copied or moved"},
    "TraceRecorder::saveLog void (const char *, const char *)":
        {"by": ["savelog_wellformed", "savelog_complete", "savelog_nesting", "savelog_complete_registry", "facts_trace_match"], "ops": ["tr:case", "race"]},
    "TraceRecorder::~TraceRecorder void () noexcept [implicit] [=default]":
        {"by": ["registry_keeps_every_event"], "ops": ["tr:case"]},
    "beginEvent void (const char *, const char *)":
        {"by": ["savelog_complete", "facts_trace_match"], "ops": ["tr:B", "race"]},
    "class ThreadEventList":
        {"by": ["facts_trace_match"], "ops": ["tr:B", "tr:E", "tr:M", "tr:C", "tr:R"]},
    "class TraceEvent":
        {"by": ["facts_trace_match"], "ops": ["tr:B", "tr:E", "tr:M", "tr:C", "tr:R"]},
    "class TraceRecorder":
        {"by": ["facts_trace_match"], "ops": ["tr:B", "tr:E", "tr:M", "tr:C", "tr:R"]},
    "cpuUtilization float (const rkcommon::tracing::TraceEvent &, const rkcommon::tracing::TraceEvent &)":
        {"by": ["savelog_wellformed", "savelog_nesting"], "ops": ["tr:E"]},
    "endEvent void ()":
        {"by": ["savelog_complete"], "ops": ["tr:E", "race"]},
    "enum EventType {INVALID, BEGIN, END, MARKER, COUNTER}":
        {"by": ["facts_trace_match"], "ops": ["tr:B", "tr:E", "tr:M", "tr:C", "tr:R"]},
    "field ThreadEventList::events std::list<std::vector<TraceEvent>>":
        {"by": ["chunks_concat", "chunks_never_reallocate", "facts_trace_model"], "ops": ["tr:B", "tr:E", "tr:M", "tr:C", "tr:R"]},
    "field ThreadEventList::stringCache std::unordered_map<const char *, std::shared_ptr<std::string>>":
        {"by": ["string_cache_faithful", "facts_trace_model"], "ops": ["tr:B", "tr:M", "tr:C", "tr:R"]},
    "field ThreadEventList::threadName std::string":
        {"by": ["savelog_wellformed"], "ops": ["tr:name"]},
    "field TraceEvent::category const char *":
        {"by": ["savelog_complete", "string_cache_faithful"], "ops": ["tr:B", "tr:M"]},
    "field TraceEvent::counterValue uint64_t":
        {"by": ["savelog_complete"], "ops": ["tr:C", "tr:R"]},
    "field TraceEvent::name const char *":
        {"by": ["savelog_complete"], "ops": ["tr:B", "tr:E", "tr:M", "tr:C", "tr:R"]},
    "field TraceEvent::ru_stime timeval":
        {"by": ["savelog_wellformed"], "ops": ["tr:long"]},
    "field TraceEvent::ru_utime timeval":
        {"by": ["savelog_wellformed"], "ops": ["tr:long"]},
    "field TraceEvent::time std::chrono::steady_clock::time_point":
        {"by": ["savelog_complete"], "ops": ["tr:B", "tr:E", "tr:M", "tr:C", "tr:R"]},
    "field TraceEvent::type rkcommon::tracing::EventType":
        {"by": ["savelog_complete"], "ops": ["tr:B", "tr:E", "tr:M", "tr:C", "tr:R"]},
    "field TraceRecorder::threadTrace std::unordered_map<std::thread::id, std::shared_ptr<ThreadEventList>>":
        {"by": ["registry_keeps_every_event", "registry_one_entry_per_id", "facts_trace_model"], "ops": ["tr:threads"]},
    "field TraceRecorder::threadTraceMutex std::mutex":
        {"by": ["facts_trace_match"], "ops": ["race", "tr:threads"]},
    "getProcMemUse void (uint64_t &, uint64_t &)":
        {"by": ["savelog_wellformed"], "ops": ["tr:R"]},
    "getProcStatus std::string ()":
        {"out": "returns the text of /proc/self/status; not called by the recording functions or saveLog and nothing of it reaches the log"},
    "initThreadEventList void ()":
        {"by": ["registry_keeps_every_event", "facts_trace_match"], "ops": ["tr:threads", "race"]},
    "macro RKCOMMON_ENABLE_PROFILING => <nothing> [Tracing.cpp]":
        {"by": ["savelog_complete"], "ops": ["tr:M"]},
    "macro RKCOMMON_IF_TRACING_ENABLED(CMD) => <nothing> [Tracing.h, under else of ifdef RKCOMMON_ENABLE_PROFILING]":
        {"out": "the disabled form of the macro: with profiling compiled out nothing is recorded, which the property (about what saveLog writes for recorded events) does not speak about"},
    "macro RKCOMMON_IF_TRACING_ENABLED(CMD) => CMD [Tracing.h, under ifdef RKCOMMON_ENABLE_PROFILING]":
        {"by": ["savelog_complete"], "ops": ["tr:M"]},
    "macro THREAD_EVENT_CHUNK_SIZE => 8192 [Tracing.cpp]":
        {"by": ["chunks_concat", "facts_trace_model"], "ops": ["tr:chunkfull"]},
    "operator<< std::ostream &(std::ostream &, const rkcommon::tracing::EventType &)":
        {"by": ["savelog_wellformed", "savelog_complete"], "ops": ["tr:B", "tr:E", "tr:M", "tr:C", "tr:R"]},
    "recordMemUse void ()":
        {"by": ["savelog_complete", "savelog_wellformed"], "ops": ["tr:R"]},
    "saveLog void (const char *, const char *)":
        {"by": ["savelog_wellformed", "savelog_complete", "savelog_nesting", "savelog_complete_registry", "facts_trace_match"], "ops": ["tr:case", "race"]},
    "setCounter void (const char *, uint64_t)":
        {"by": ["savelog_complete", "facts_trace_match"], "ops": ["tr:C", "race"]},
    "setMarker void (const char *, const char *)":
        {"by": ["savelog_complete", "facts_trace_match"], "ops": ["tr:M", "race"]},
    "setThreadName void (const char *)":
        {"by": ["savelog_wellformed", "facts_trace_match"], "ops": ["tr:name"]},
    "variable threadEventList std::shared_ptr<ThreadEventList> thread_local":
        {"by": ["facts_trace_match", "registry_keeps_every_event"], "ops": ["tr:threads", "race"]},
    "variable traceRecorder std::unique_ptr<TraceRecorder>":
        {"by": ["registry_keeps_every_event"], "ops": ["tr:case"]},
    "writeImage void (const std::string &, const char *const, const int, const int, const PIXEL_T *const) [template]":
        {"by": ["image_decode", "image_reads_in_bounds", "facts_image_loop_nest", "facts_image_index", "facts_image_stack_one_row"], "ops": ["img:PPM", "img:PGM", "img:PFM1", "img:PFM3", "img:PFM3a", "img:PFM4"]},
    "writeImage void (const std::string &, const char *const, const int, const int, const float *const) [instantiation <float, 1, float, 1, 0>]":
        {"by": ["image_decode", "image_reads_in_bounds", "facts_image_formats"], "ops": ["img:PFM1"]},
    "writeImage void (const std::string &, const char *const, const int, const int, const rkcommon::math::vec_t<float, 3, false, void> *const) [instantiation <float, 3, rkcommon::math::vec_t<float, 3, false, void>, 3, 0>]":
        {"by": ["image_decode", "image_reads_in_bounds", "facts_image_formats"], "ops": ["img:PFM3"]},
    "writeImage void (const std::string &, const char *const, const int, const int, const rkcommon::math::vec_t<float, 3, true, void> *const) [instantiation <float, 3, rkcommon::math::vec_t<float, 3, true, void>, 4, 0>]":
        {"by": ["image_decode", "image_reads_in_bounds", "facts_image_formats"], "ops": ["img:PFM3a"]},
    "writeImage void (const std::string &, const char *const, const int, const int, const rkcommon::math::vec_t<float, 4, false, void> *const) [instantiation <float, 4, rkcommon::math::vec_t<float, 4, false, void>, 4, 0>]":
        {"by": ["image_decode", "image_reads_in_bounds", "facts_image_formats"], "ops": ["img:PFM4"]},
    "writeImage void (const std::string &, const char *const, const int, const int, const unsigned int *const) [instantiation <unsigned char, 1, unsigned int, 4, 1>]":
        {"by": ["image_decode", "image_reads_in_bounds", "facts_image_formats"], "ops": ["img:PGM"]},
    "writeImage void (const std::string &, const char *const, const int, const int, const unsigned int *const) [instantiation <unsigned char, 3, unsigned int, 4, 1>]":
        {"by": ["image_decode", "image_reads_in_bounds", "facts_image_formats"], "ops": ["img:PPM"]},
    "writePFM void (const std::string &, const int, const int, const T *) [template] [deleted]":
        {"out": "deleted primary template: writePFM of any other pixel type does not compile; nothing to run"},
    "writePFM void (const std::string &, const int, const int, const float *) [specialization <float>]":
        {"by": ["image_decode", "facts_image_formats"], "ops": ["img:PFM1"]},
    "writePFM void (const std::string &, const int, const int, const rkcommon::math::vec3f *) [specialization <rkcommon::math::vec_t<float, 3, false, void>>]":
        {"by": ["image_decode", "facts_image_formats"], "ops": ["img:PFM3"]},
    "writePFM void (const std::string &, const int, const int, const rkcommon::math::vec3fa *) [specialization <rkcommon::math::vec_t<float, 3, true, void>>]":
        {"by": ["image_decode", "facts_image_formats"], "ops": ["img:PFM3a"]},
    "writePFM void (const std::string &, const int, const int, const rkcommon::math::vec4f *) [specialization <rkcommon::math::vec_t<float, 4, false, void>>]":
        {"by": ["image_decode", "facts_image_formats"], "ops": ["img:PFM4"]},
    "writePGM void (const std::string &, const int, const int, const uint32_t *)":
        {"by": ["image_decode", "facts_image_formats"], "ops": ["img:PGM"]},
    "writePPM void (const std::string &, const int, const int, const uint32_t *)":
        {"by": ["image_decode", "facts_image_formats"], "ops": ["img:PPM"]},
}


def inventory_check(ctx, counts):
    try:
        inv = factgen.inventory(ctx.repo, os.path.join(ctx.build, "ast"))
    except Exception as ex:   # noqa
        ctx.broken.append("inventory: extraction failed: %r" % (ex,))
        return
    problems, report = factgen.sxast.cover_check(inv, COVER, counts)
    for pb in problems[:8]:
        ctx.broken.append(pb)
    ctx.cov["inventory"] = {"declarations": len(inv), "covered": sum(1 for v in report.values() if isinstance(v, int)),
                            "out_of_scope": sum(1 for v in report.values() if not isinstance(v, int)), "problems": problems,
                            "executed": report}


class Stage:
    """One stage of the check: an exception inside it is recorded (ctx.broken names the stage) and the run goes on."""
    def __init__(self, ctx, name):
        self.ctx, self.name = ctx, name

    def __enter__(self):
        return self

    def __exit__(self, et, ev, tb):
        if et is not None and issubclass(et, Exception):
            import traceback
            self.ctx.log("stage %s raised:\n%s" % (self.name, "".join(traceback.format_exception(et, ev, tb))[-2000:]))
            self.ctx.broken.append("stage '%s' of the check raised %s: %s" % (self.name, et.__name__, str(ev)[:200]))
            return True
        return False


BUDGET_S = 210      # wall-clock budget: shrinkers stop (keeping what they have) when it is used up
T_START = [0.0]


def over_budget():
    return T_START[0] and time.time() - T_START[0] > BUDGET_S


FACT_THMS = ("facts_image_loop_nest", "facts_image_index", "facts_image_stack_one_row", "facts_image_formats", "facts_trace_match", "facts_trace_model")


def source_facts(ctx):
    """regenerate coq/C20/gen/Facts.v from the working tree (clang AST of SaveImage.h and tracing/Tracing.cpp)."""
    gen_v = os.path.join(ctx.coqdir, "gen", "Facts.v")
    facts_js = os.path.join(ctx.build, "facts.json")
    try:
        factgen.main(["--repo", ctx.repo, "--out", gen_v, "--json", facts_js, "--work", os.path.join(ctx.build, "ast")])
        facts = json.load(open(facts_js))
    except Exception as ex:   # noqa
        ctx.broken.append("fact extraction failed: %r" % (ex,))
        facts = {"img": {}, "fmt": {}, "tr": {}, "notes": [repr(ex)[:500]]}
        os.makedirs(os.path.dirname(gen_v), exist_ok=True)
        open(gen_v, "w").write(factgen.failing_text())
    ctx.cov["source_facts"] = {"writeImage": facts.get("img"), "wrappers": facts.get("fmt"), "tracing": facts.get("tr"), "notes": facts.get("notes")}
    return facts


def run(ctx):
    T_START[0] = time.time()
    facts, res, model = {"notes": ["not run"]}, {}, None
    with Stage(ctx, "fact extraction"):
        facts = source_facts(ctx)
    with Stage(ctx, "Coq build"):
        res = ctx.coq_check(("Properties.v", "PropertiesFactsImg.v", "PropertiesFactsTrace.v"))
    bad_facts = [t for t in FACT_THMS if not res.get(t)]
    if bad_facts:
        ctx.log("source-derived obligations that no longer hold: %s; extractor notes: %s; extracted: %s"
                % (bad_facts, facts.get("notes"), json.dumps({k: facts.get(k) for k in ("img", "fmt", "tr")})[:2000]))
    ctx.cov["source_obligations_broken"] = bad_facts
    with Stage(ctx, "extraction / OCaml model build"):
        model = ctx.extract(snippets=["conv_N.ml"])
    if not model:
        ctx.log("no executable model: the files written by the real code are judged by the independent python readers alone; "
                "model-vs-code comparison skipped")
    # SaveImage.h / Tracing.cpp may call into other translation units of the library (memory/malloc.cpp, common.cpp ...): link what
    # they plausibly need, and if a build still fails retry it once with a wider set - every build that can be made is run
    base_src = ["rkcommon/memory/malloc.cpp"]
    wide_src = base_src + ["rkcommon/common.cpp", "rkcommon/os/library.cpp", "rkcommon/os/FileName.cpp", "rkcommon/utility/demangle.cpp"]
    base_src = [x for x in base_src if os.path.exists(os.path.join(ctx.repo, x))]
    wide_src = [x for x in wide_src if os.path.exists(os.path.join(ctx.repo, x))]
    exe, exe_tsan = ctx.cxx_many([dict(sources=["harness.cpp"], out="harness", repo_sources=base_src, sanitize="asan"),
                                  dict(sources=["harness.cpp"], out="harness_tsan", repo_sources=base_src, sanitize="tsan")])
    if exe is None:
        ctx.broken[:] = [b for b in ctx.broken if b != "harness build harness"]
        exe = ctx.cxx(["harness.cpp"], "harness", repo_sources=wide_src, sanitize="asan", libs=["-ldl"])
    if exe_tsan is None:
        ctx.broken[:] = [b for b in ctx.broken if b != "harness build harness_tsan"]
        exe_tsan = ctx.cxx(["harness.cpp"], "harness_tsan", repo_sources=wide_src, sanitize="tsan", libs=["-ldl"])
    public = False
    if exe is None or exe_tsan is None:
        # the harness includes Tracing.cpp as a translation unit and reads the recorder's internals; if that no longer compiles
        # against this tree, build on the public interface (Tracing.h + the library's Tracing.cpp): one case per process
        pub_src = [x for x in wide_src + ["rkcommon/tracing/Tracing.cpp"] if os.path.exists(os.path.join(ctx.repo, x))]
        ctx.broken[:] = [b for b in ctx.broken if b not in ("harness build harness", "harness build harness_tsan")]
        pe, pt = ctx.cxx_many([dict(sources=["harness.cpp"], out="harness_pub", repo_sources=pub_src, sanitize="asan", flags=["-DC20_PUBLIC"], libs=["-ldl"]),
                               dict(sources=["harness.cpp"], out="harness_pub_tsan", repo_sources=pub_src, sanitize="tsan", flags=["-DC20_PUBLIC"], libs=["-ldl"])])
        if exe is None and pe:
            exe, public = pe, True
            ctx.log("the internal-state harness does not compile against this tree: public-interface build, one trace case per process, "
                    "no chunk sizes / clock values (model comparison of traces skipped)")
        if exe_tsan is None:
            exe_tsan = pt
    ctx.cov["public_interface_fallback"] = public
    finish_wide = lambda: None      # noqa: E731
    if exe:
        with Stage(ctx, "images"):
            finish_wide = run_images(ctx, model, exe)
        with Stage(ctx, "traces"):
            run_trace(ctx, model, exe, public)
    if exe_tsan:
        with Stage(ctx, "concurrent first events (TSan)"):
            run_race(ctx, exe_tsan, public)
    with Stage(ctx, "wide images: model digests"):
        finish_wide()
    counts = {}
    for fmt in FMT:
        counts["img:" + fmt] = (ctx.cov.get("image_cases_per_format") or {}).get(fmt, 0) + (ctx.cov.get("wide_image_cases_per_format") or {}).get(fmt, 0)
    for k, v in (ctx.cov.get("trace_op_histogram") or {}).items():
        counts["tr:" + k] = v
    counts["tr:long"] = ctx.cov.get("trace_long_intervals_seen", 0)
    counts["tr:chunkfull"] = (ctx.cov.get("chunk_kinds_seen") or {}).get("full", 0)
    counts["race"] = (ctx.cov.get("concurrent_first_events_tsan") or {}).get("rounds", 0)
    inventory_check(ctx, counts)
    ctx.rule = ("images: every (w,h) in 1..6 x 1..6 plus (1,257),(257,1) (thorough: more) x six writers (writePPM, writePGM, writePFM<float|vec3f|vec3fa|vec4f>), "
                "distinct component values, exact-size heap buffer under ASan, file decoded by an independent python reader and compared with the input and "
                "byte-for-byte with the model; non-trivial = more than one pixel.  traces: empty log, threads without events, one event, nesting depth 0..5, "
                "8191/8192/8193 events, an interval crossing the chunk boundary, random well-nested scripts on 1..8 concurrently recording threads, recording threads with "
                "NON-overlapping lifetimes (8 spawned and joined one after the other, 8 concurrent then 8 sequential, then the main thread; random phase layouts) through "
                "rkcommon::tracing::{beginEvent,endEvent,setMarker,setCounter,setThreadName,saveLog}; file parsed with python json and compared per thread in order, "
                "and byte-for-byte (cpuUtilization values and printed thread ids normalised) with the model run on the recorded clock values; non-trivial = at least one event recorded")
    ctx.trusted += ["fact extractor props/C20/factgen.py + tools/sxast/sxast.py over `clang++ -std=c++11 -fsyntax-only -Xclang -ast-dump=json` of the working tree's "
                    "SaveImage.h and tracing/Tracing.cpp (expression trees, template arguments, constants, statement placement -> coq/C20/gen/Facts.v; "
                    "their meaning is coq/C20/FactsDefs.v); sizeof(PIXEL_T) = PIXEL_COMP*sizeof(COMP_T) is a static_assert of the harness",
                    "correspondence harness harness/C20/harness.cpp (includes the working tree's Tracing.cpp as a translation unit to reset the file-static recorder "
                    "between cases and to read chunk sizes/clock values) + generators/readers in props/C20/check.py (g++ -O1, ASan+UBSan)",
                    "modelled, not verified: fopen/fprintf/fwrite/ofstream/seekp, alloca row buffer, std::list/std::vector/unordered_map, the pointer-keyed string cache, "
                    "steady_clock and getrusage (clock values are inputs of the model; cpuUtilization text is an opaque token assumed to be a JSON number)"]
    ctx.assumptions += ["the writer's extra stack is O(one row): the alloca'd row buffer of N_COMP*sizeX components is allocated once (source fact "
                        "facts_image_stack_one_row; each writer is run once for a 64x4096 image on a 256 KiB stack); the width itself is limited by the stack",
                        "names/categories are string literals: a pointer designates one text for the whole run (the recorder caches by pointer; the harness "
                        "passes one fixed address per distinct text, reused across events, names and categories; theorem string_cache_faithful)",
                        "std::thread::id values are inputs observed in the run (the system may give a later thread the id of a finished one); the recorder keeps "
                        "one list per id, so such threads share one list in recording order and the last setThreadName wins (modelled: Model.reg_run; "
                        "theorems registry_keeps_every_event / savelog_complete_registry); the iteration order of the unordered_map is taken from the file",
                        "image theorems: every input component fits sizeof(COMP_T) bytes (Spec.comps_fit); the file reader of Spec.v is the reference decoder",
                        "pixel buffers hold w*h pixels of PIXEL_COMP components; sizeof(PIXEL_T) = PIXEL_COMP*sizeof(COMP_T) (static_assert in the harness); 0 < w,h and w*h*4 fits int",
                        "names, categories, thread and process names contain no '\"', '\\\\' or control characters (saveLog does no escaping)",
                        "steady_clock is monotone (an end is not earlier than its begin); the printed cpuUtilization is a finite number",
                        "begin/end histories are properly nested per thread (an END without an open BEGIN makes saveLog drop the rest of that chunk: modelled, excluded from completeness)"]
    if ctx.thorough():
        ctx.coq_thorough_chk(["C20.Properties", "C20.PropertiesFactsImg", "C20.PropertiesFactsTrace"])
