"""C18 — string, URL, path and argument helpers satisfy their decomposition laws.
Tie B: hand-written Gallina model (coq/C18/Model.v) with the decomposition theorems
(coq/C18/Properties.v); correspondence = extracted model vs the real code on the same cases;
an independent python oracle (reference decompositions written from the property text, evaluated
on the implementation's own output) classifies every difference."""
import itertools, math, os, re, struct, sys
from fractions import Fraction
import vlib

sys.path.insert(0, os.path.dirname(os.path.abspath(__file__)))
import factgen  # noqa: E402

REPO_SRC = ["rkcommon/common.cpp", "rkcommon/os/library.cpp", "rkcommon/os/FileName.cpp",
            "rkcommon/utility/PseudoURL.cpp"]


# ------------------------------------------------------------------ transport
def hx(s):
    return "-" if s == "" else "".join("%02x" % ord(c) for c in s)


def uh(h):
    return "" if h == "-" else "".join(chr(int(h[i:i + 2], 16)) for i in range(0, len(h), 2))


def toks(l):
    return "[]" if not l else ",".join(hx(t) for t in l)


def untoks(f):
    return [] if f == "[]" else [uh(t) for t in f.split(",")]


def show(case):
    """human-readable form of a case line for replay files"""
    t = case.split()
    k = t[0]
    if k in ("PN", "PD"):
        return case
    if k == "AL":
        return "AL " + " ".join("%r:%s" % (uh(a.split(":")[0]), a.split(":")[1]) for a in t[1:])
    if k in ("AR", "RA"):
        return "%s where=%s howMany=%s args=%r" % (k, t[1], t[2], [uh(a) for a in t[3:]])
    if k == "SS":
        return "SS input=%r delims=%r keepDelim=%s" % (uh(t[1]), uh(t[2]), t[3])
    return k + " " + " ".join(repr(uh(a)) for a in t[1:])


# ----------------------------------------- reference decompositions (python, from the text)
def ref_norm(s):
    return s.replace("\\", "/").rstrip("/")


def ref_file(f):
    """path, base, name, ext(or None) of a normalised file name: last component only"""
    i = f.rfind("/")
    path, base = f[:i + 1], f[i + 1:]
    j = base.rfind(".")
    if j < 0:
        return path, base, base, None
    return path, base, base[:j], base[j + 1:]


def ref_url(s):
    if "://" in s:
        ty, rest = s.split("://", 1)
    else:
        ty, rest = "", s
    parts = [p for p in rest.split(":") if p != ""]
    if not parts:
        return ty, "", []
    params = []
    for p in parts[1:]:
        if "=" in p:
            n, v = p.split("=", 1)
        else:
            n, v = p, ""
        params.append((n, v))
    return ty, parts[0], params


def ref_args(prs):
    """prs: list of (arg, k).  The table maps an argument string to the k of its first occurrence."""
    table = {}
    for a, k in prs:
        table.setdefault(a, k)
    rest = [a for a, _ in prs]
    kept = []
    while rest:
        k = min(table[rest[0]], len(rest))
        if k == 0:
            kept.append(rest.pop(0))
        else:
            rest = rest[k:]
    return kept


SI = {"E": 18, "P": 15, "T": 12, "G": 9, "M": 6, "k": 3, "m": -3, "u": -6, "n": -9, "p": -12, "f": -15}


def pretty_ok(out, v, is_int):
    """v: Fraction (exact input).  Returns (in_domain, ok, required-text)."""
    a = abs(v)
    if not (Fraction(1, 10 ** 15) <= a < Fraction(10 ** 21)):
        return False, True, ""
    req = "mantissa in [1.0, 1000.0] with the SI suffix s.t. |mantissa*10^k - v| <= 0.05*10^k"
    m = re.fullmatch(r"(-?\d+\.\d)([EPTGMkmunpf])", out)
    if m:
        man = Fraction(m.group(1))
        sc = Fraction(10) ** SI[m.group(2)]
        ok = (1 <= abs(man) <= 1000) and abs(man * sc - v) <= Fraction(501, 10000) * sc and (man < 0) == (v < 0)
        return True, ok, req
    if is_int:
        return True, (out == str(int(v)) and a < 1000), "plain integer below 1000 / " + req
    m = re.fullmatch(r"-?\d+\.\d{6}", out)
    if not m:
        return True, False, req
    # plain "%f" of (float)val: the mantissa is the number itself, 1 <= |v| <= 1000 (no suffix needed)
    ok = (1 <= a <= 1000) and abs(Fraction(out) - v) <= a / 2 ** 23 + Fraction(1, 10 ** 6)
    return True, ok, "plain number between 1 and 1000 printed to 6 decimals / " + req


KNOWN_HIDDEN = "C18-dropExt-hidden-file-under-directory-drops-separator"


def hidden_under_dir(raw):
    """the class of the open finding: (after normalisation) the last component starts with its only/last dot
    (name() is empty) and path() is not empty, e.g. "a/.x", "/.x", "a/b/.x" """
    s = ref_norm(raw)
    path, base, name, ext = ref_file(s)
    return ext is not None and name == "" and path != ""


def oracle(case, out, relax=False, public_only=False):
    """Evaluate the decomposition laws on the implementation's output line `out`.
    Returns (ok, required) ; required describes what the property demands for this case.
    relax: leave out the recomposition laws through dropExt() (used to attribute a failure to the open finding)."""
    t = case.split()
    k = t[0]
    f = out.split(" ")
    try:
        if k == "SC":
            s, d = uh(t[1]), uh(t[2])
            tk = untoks(out)
            ok = all(d not in x for x in tk) and (d.join(tk) == s or d.join(tk) + d == s) and (tk != [] or s == "")
            if s != "" and not s.endswith(d):
                ok = ok and d.join(tk) == s
            return ok, "tokens free of %r whose join on %r gives back the input (one trailing delimiter allowed)" % (d, d)
        if k == "SS":
            s, ds, keep = uh(t[1]), uh(t[2]), t[3] == "1"
            exp = []
            for m in re.finditer(("[^" + re.escape(ds) + "]+") if ds else "(?s).+", s):
                pre = s[m.start() - 1] if (keep and m.start() > 0) else ""
                exp.append(pre + m.group(0))
            return untoks(out) == exp, "tokens " + repr(exp)
        if k == "TK":
            s, d = uh(t[1]), uh(t[2])
            exp = [x for x in s.split(d) if x != ""]
            return untoks(out) == exp, "tokens " + repr(exp)
        if k == "LB":
            a, b = uh(t[1]), uh(t[2])
            exp = os.path.commonprefix([a, b])
            return (uh(f[0]) == exp and f[1] == ("1" if a.startswith(b) else "0")), \
                "prefix %r beginsWith %s" % (exp, a.startswith(b))
        if k == "LU":
            s = uh(t[1])
            lo = "".join(chr(ord(c) + 32) if "A" <= c <= "Z" else c for c in s)
            up = "".join(chr(ord(c) - 32) if "a" <= c <= "z" else c for c in s)
            return (uh(f[0]) == lo and uh(f[1]) == up), "%r %r" % (lo, up)
        if k == "PU":
            ty, fl, params = ref_url(uh(t[1]))
            exp = [hx(ty), hx(fl), "[]" if not params else ",".join(hx(n) + "=" + hx(v) for n, v in params)]
            for q in t[2:]:
                vals = [v for n, v in params if n == uh(q)]
                exp.append(("1" if vals else "0") + ":" + (hx(vals[-1]) if vals else "throw"))
            if public_only:
                exp[2] = "?"
            return f == exp, "type=%r file=%r params=%r (getValue = last duplicate)" % (ty, fl, params)
        if k == "FN":
            s = ref_norm(uh(t[1]))
            path, base, name, ext = ref_file(s)
            got = [uh(x) for x in f[:6]]
            exp = [s, path, base, name, ext or "", ref_norm(path + name)]
            ok = got == exp and len(f) == 7
            # recomposition: dropExt().addExt("." + ext()) gives the file back
            if ok and not relax:
                ok = (f[6] == "~") if ext is None else (f[6] != "~" and uh(f[6]) == s)
                if not ok:
                    return ok, "dropExt().addExt('.'+ext()) == %r  (str=%r path=%r base=%r name=%r ext=%r)" % (s, s, path, base, name, ext)
            # the laws themselves, on the implementation's output
            ok = ok and got[1] + got[2] == got[0] and got[2] == got[3] + ("." + got[4] if ext is not None else "")
            return ok, "str=%r path=%r base=%r name=%r ext=%r dropExt=%r" % tuple(exp)
        if k == "FE":
            s, e = ref_norm(uh(t[1])), uh(t[2])
            path, base, name, ext = ref_file(s)
            exp = [ref_norm(path + name + e), ref_norm(s + e)]
            ok = [uh(x) for x in f[:2]] == exp and len(f) == 3
            if ok and not relax and uh(f[2]) != exp[0]:
                return False, "setExt(e) == dropExt().addExt(e) == %r" % exp[0]
            return ok, "setExt=%r addExt=%r" % tuple(exp)
        if k == "FP":
            a, b = ref_norm(uh(t[1])), ref_norm(uh(t[2]))
            r = b if a == "" else ref_norm(a + "/" + b)
            return [uh(x) for x in f] == [r, r], "a+b=%r" % r
        if k == "FO":
            a, b = ref_norm(uh(t[1])), ref_norm(uh(t[2]))
            # operator-: as implemented (std::string::find_first_of: first character of a that occurs in b's character set).
            # NOTE the documented intent "removes the base from a filename" ((a+b)-a == b) does NOT hold on the unchanged
            # tree - reported to the coordinator as a possible finding; here only the implemented meaning is pinned.
            pos = next((i for i, ch in enumerate(a) if ch in b), None)
            minus = a if pos is None else ref_norm(a[pos + 1:])
            exp = ["1" if a == b else "0", "0" if a == b else "1", hx(minus), "1", "1"]
            return f == exp, "== %s, != %s, a-b=%r, str/c_str/operator string/operator<< agree, FileName() is the empty name" % (a == b, a != b, minus)
        if k == "AL":
            prs = [(uh(a.split(":")[0]), int(a.split(":")[1])) for a in t[1:]]
            exp = ref_args(prs)
            return untoks(out) == exp, "remaining " + repr(exp)
        if k == "AR":
            w, n, args = int(t[1]), int(t[2]), [uh(a) for a in t[3:]]
            exp = args[:w] + args[w + n:]
            e = "%s %d %s %s" % (toks(exp), len(exp), "0" if exp else "1", hx(exp[0]) if exp else "throw")
            return out == e, "remaining " + repr(exp)
        if k == "RA":
            w, n, args = int(t[1]), int(t[2]), [uh(a) for a in t[3:]]
            exp = args[:w] + args[w + n:]
            return out == "%d %s" % (len(exp), toks(exp)), "ac=%d av=%r" % (len(exp), exp)
        if k == "PN":
            dom, ok, req = pretty_ok(out, Fraction(int(t[1])), True)
            return ok, req
        if k == "PD":
            dom, ok, req = pretty_ok(out, Fraction(int(t[2]), int(t[3])), False)
            return ok, req
    except Exception as ex:           # unparsable output = law not satisfied
        return False, "well-formed output (%s)" % ex
    return False, "known case kind"


# ------------------------------------------------------------------ generators
def strings(alpha, maxlen):
    for n in range(0, maxlen + 1):
        for t in itertools.product(alpha, repeat=n):
            yield "".join(t)


def f32(x):
    return struct.unpack("f", struct.pack("f", x))[0]


def gen_cases(ctx):
    r = ctx.rng("cases")
    L = ctx.pick(7, 8)
    cases = []
    mix = {}

    def add(kind, lines):
        n0 = len(cases)
        cases.extend(lines)
        mix[kind] = mix.get(kind, 0) + len(cases) - n0

    # --- split / tokenize over {a,b,:} and {a,',',' '}
    abc = list(strings("ab:", L))
    add("split_char", ["SC %s 3a" % hx(s) for s in abc])
    add("tokenize", ["TK %s 3a" % hx(s) for s in abc])
    for ds in (":", ":b"):
        for keep in "01":
            add("split_set", ["SS %s %s %s" % (hx(s), hx(ds), keep) for s in abc])
    acs = list(strings("a, ", L))
    add("split_char", ["SC %s 2c" % hx(s) for s in acs])
    add("tokenize", ["TK %s 2c" % hx(s) for s in acs])
    for ds in (", ", " ,a", ""):
        for keep in "01":
            add("split_set", ["SS %s %s %s" % (hx(s), hx(ds), keep) for s in (acs if ds == ", " else acs[:1100])])
    # --- prefix functions: all pairs of strings of length <= 4 over {a,b,:} + longer random
    short = list(strings("ab:", 4))
    add("prefix", ["LB %s %s" % (hx(a), hx(b)) for a in short for b in short])
    for _ in range(ctx.pick(500, 5000)):
        a = "".join(r.choice("ab") for _ in range(r.randint(0, 40)))
        b = a[:r.randint(0, len(a))] + "".join(r.choice("ab") for _ in range(r.randint(0, 3)))
        add("prefix", ["LB %s %s" % (hx(a), hx(b)), "LB %s %s" % (hx(b), hx(a))])
    # --- lower/upper: every 7-bit character on its own and in context, random text
    add("case", ["LU %s" % hx(chr(c)) for c in range(1, 128)])
    add("case", ["LU %s" % hx("".join(chr(c) for c in range(1, 128)))])
    for _ in range(ctx.pick(200, 2000)):
        add("case", ["LU %s" % hx("".join(chr(r.choice([64, 65, 90, 91, 96, 97, 122, 123, r.randint(1, 127)]))
                                          for _ in range(r.randint(0, 12))))])
    # --- FileName over {a,.,/} (+ backslash alphabet)
    adf = list(strings("a./", L))
    add("filename", ["FN %s" % hx(s) for s in adf])
    hidden = ["a/.x", "a/b/.x", ".x", "/.x", "a/.x.y", "a/..x", "a\\.x", "a/.x/", "dir.d/.hidden", "a/.", "./.x"]
    add("filename_hidden", ["FN %s" % hx(h) for h in hidden])
    add("filename_hidden", ["FE %s %s" % (hx(h), hx(e)) for h in hidden for e in ("", ".y", "y")])
    bsl = list(strings("a./\\", 5))
    add("filename", ["FN %s" % hx(s) for s in bsl])
    shortf = list(strings("a./", 5))
    for e in ("", ".x", "x", ".x.y", "/", ".", "./x", ".x/"):
        add("filename_ext", ["FE %s %s" % (hx(s), hx(e)) for s in shortf])
    sf4 = list(strings("a./", 4))
    add("filename_plus", ["FP %s %s" % (hx(a), hx(b)) for a in sf4 for b in sf4])
    add("filename_plus", ["FP %s %s" % (hx(a), hx(b)) for a in ("", "a\\", "\\a", "a/b\\") for b in bsl[:400]])
    sf3 = list(strings("a./", 3)) + ["dir/file", "dir", "b", "ab", "x/y.z"]
    add("filename_ops", ["FO %s %s" % (hx(a), hx(b)) for a in sf3 for b in sf3])
    # --- PseudoURL: exhaustive short strings over {a,:,/,=}, assembled URLs with short components
    for s in strings("a:/=", ctx.pick(6, 7)):
        add("pseudourl_raw", ["PU %s %s %s" % (hx(s), hx("a"), hx("aa"))])
    types = ["", "t", "ty", "points", "a.b", "x/y", "/"]
    files = ["f", "g", "ab", "f.x", "/a/b", "a/", "1", "dir.d/file"]
    names = ["n", "m", "x", "fmt", "ab", ""]
    values = ["", "v", "1", "w", "xyz", "a=b", "/p", "=", "//"]
    nurl = ctx.pick(6000, 40000)
    for i in range(nurl):
        ty, fl = r.choice(types), r.choice(files)
        ps = [(r.choice(names[:r.choice([2, 3, 6])]), r.choice(values)) for _ in range(r.choice([0, 1, 1, 2, 2, 3, 4, 6]))]
        s = (ty + "://" if (ty or r.random() < 0.7) else "") + fl
        for n, v in ps:
            c = r.random()
            s += ":" + (n + "=" + v if (c < 0.85 or n == "") else n)       # 15%: bare name, no '='
            if r.random() < 0.05:
                s += ":"                                                    # repeated / trailing delimiter
        qs = sorted(set(n for n, _ in ps) | {"zz"})
        add("pseudourl_assembled", ["PU %s %s" % (hx(s), " ".join(hx(q) for q in qs))])
    # --- ArgumentList: every consume pattern over k in 0..3 for n <= 6, random longer with repeats
    nmax = 6
    for n in range(0, nmax + 1):
        for ks in itertools.product(range(4), repeat=n):
            add("arglist_exhaustive", ["AL " + " ".join("%s:%d" % (hx("a%d" % i), k) for i, k in enumerate(ks))])
    pool = ["a", "b", "-x", "--long", "", "7", "c"]
    for _ in range(ctx.pick(1500, 15000)):
        tab = {a: r.choice([0, 0, 0, 1, 1, 2, 3, 5]) for a in pool}
        n = r.randint(0, 8)
        add("arglist_random", ["AL " + " ".join("%s:%d" % (hx(a), tab[a]) for a in (r.choice(pool) for _ in range(n)))])
    for n in range(0, 6):
        args = ["p%d" % i if i != 2 else "q" for i in range(n)]
        for w in range(0, n + 1):
            for k in range(0, n - w + 1):
                add("arglist_remove", ["AR %d %d %s" % (w, k, " ".join(hx(a) for a in args))])
                add("removeArgs", ["RA %d %d %s" % (w, k, " ".join(hx(a) for a in args))])
    # --- prettyNumber / prettyDouble
    thr_f = [f32(10.0 ** e) for e in (18, 15, 12, 9, 6, 3, 0, -3, -6, -9, -12)]
    thr_d = [10.0 ** e for e in range(-15, 22, 3)]
    pts = set()
    e = -15.0
    while e <= 21.0 + 1e-9:
        pts.add(10.0 ** e)
        e += 1.0 / 20
    for th in thr_f + thr_d + [999.95, 999.949, 999950.0, 0.99995, 1000.0 * f32(1e18)]:
        lo = hi = th
        pts.add(th)
        for _ in range(3):
            lo, hi = math.nextafter(lo, 0.0), math.nextafter(hi, math.inf)
            pts.add(lo); pts.add(hi)
    for _ in range(ctx.pick(2000, 20000)):
        pts.add(r.choice([1, 9.995, 99.95, 999.95, 1.5, 2.5, r.uniform(1, 1000)]) * 10.0 ** r.randint(-15, 18))
    pts = sorted(pts)
    neg = [-p for p in pts[::7]]
    extra = [0.0, 1e-16, 3e-17, 1e21, 2e21, 1e22, 1e25, 1e-20]
    for v in pts + neg + extra:
        n, d = v.as_integer_ratio()
        add("prettyDouble", ["PD %s %d %d" % (v.hex(), n, d)])
    ints = set(range(0, 1200)) | {2 ** 64 - 1, 2 ** 63, 2 ** 53 - 1, 2 ** 53, 2 ** 53 + 1}
    for th in thr_f[:6] + thr_d:
        if 1 <= th < 2 ** 64:
            c = int(th)
            for dlt in (-1025, -1024, -513, -512, -511, -129, -128, -127, -65, -64, -63, -2, -1, 0, 1, 2, 63, 64, 65, 127, 128, 129, 512, 1024):
                if 0 <= c + dlt < 2 ** 64:
                    ints.add(c + dlt)
    for p in pts:
        if 1 <= p < 2 ** 64:
            ints.add(int(p))
    for _ in range(ctx.pick(2000, 20000)):
        ints.add(min(2 ** 64 - 1, int(r.choice([1, 9.995, 99.95, 999.95, r.uniform(1, 1000)]) * 10 ** r.randint(0, 17))))
    add("prettyNumber", ["PN %d" % i for i in sorted(ints)])
    return cases, mix


def is_nontrivial(case, out):
    t = case.split()
    k = t[0]
    if k in ("SC", "SS", "TK"):
        tk = untoks(out)
        return len(tk) >= 2 or any(len(x) == 1 for x in tk)
    if k == "LB":
        return out.split()[0] != "-"
    if k == "LU":
        return len(set(out.split())) == 2
    if k == "PU":
        return out.split()[2] != "[]"
    if k == "FO":
        return out.split()[0] == "1" or out.split()[2] != hx(ref_norm(uh(t[1])))
    if k in ("FN", "FE", "FP"):
        s = uh(t[1])
        return "/" in s.strip("/") or "." in s
    if k == "AL":
        return out != "[]" and len(untoks(out)) < len(t) - 1
    if k in ("AR", "RA"):
        return int(t[2]) > 0
    return bool(re.search(r"[EPTGMkmunpf]$", out))


# ------------------------------------------------------------------------------ inventory closure
# Every declaration of namespace rkcommon / rkcommon::utility made by the anchored headers (props/C18/factgen.py inventory():
# clang JSON AST of common.h, os/FileName.h, utility/PseudoURL.h, utility/StringManip.h, utility/ArgumentList.h plus a TU that makes
# clang declare the implicit special members) -> theorems / source-derived obligations ("by") and the case kinds that execute it
# ("ops"), or an out-of-scope reason tied to the property text.  Fails closed on: a declaration missing here, an entry whose
# declaration vanished / changed signature, a covered entry with zero executed cases.
def _c(by, ops):
    return {"by": by, "ops": ops}


FN_ALL = ["FN", "FE", "FP", "FO"]
ENV = "environment-dependent (reads $HOME / resolves against the file system): not a decomposition law of the property"
COVER = {
    # ---- StringManip.h
    "utility::longestBeginningMatch : std::string (const std::string &, const std::string &)": _c(["lbm_is_lcp", "src_prefix_functions"], ["LB"]),
    "utility::beginsWith : bool (const std::string &, const std::string &)": _c(["beginsWith_prefix", "src_prefix_functions"], ["LB"]),
    "utility::split : std::vector<std::string> (const std::string &, char)": _c(["split_char_concat", "split_char_join"], ["SC"]),
    "utility::split : std::vector<std::string> (const std::string &, const std::string &, const bool)": _c(["split_set_tokens", "split_set_concat"], ["SS"]),
    "utility::lowerCase : std::string (const std::string &)": _c(["lower_pointwise"], ["LU"]),
    "utility::upperCase : std::string (const std::string &)": _c(["upper_pointwise"], ["LU"]),
    # ---- PseudoURL.h/.cpp
    "utility::tokenize : void (const std::string &, const char, std::vector<std::string> &)": _c(["tokenize_tokens", "tokenize_concat", "tokenize_is_split_set", "src_tokenize_keeps_nonempty"], ["TK", "PU"]),
    "utility::PseudoURL::PseudoURL : void (const std::string &)": _c(["pseudourl_parse_assemble"], ["PU"]),
    "utility::PseudoURL::getType : std::string () const": _c(["pseudourl_parse_assemble"], ["PU"]),
    "utility::PseudoURL::getFileName : std::string () const": _c(["pseudourl_parse_assemble"], ["PU"]),
    "utility::PseudoURL::getValue : std::string (const std::string &) const": _c(["getValue_last_duplicate", "getValue_throws_iff_absent"], ["PU"]),
    "utility::PseudoURL::hasParam : bool (const std::string &)": _c(["hasParam_iff_present"], ["PU"]),
    "utility::PseudoURL::type : field std::string": _c(["pseudourl_parse_assemble"], ["PU"]),
    "utility::PseudoURL::fileName : field std::string": _c(["pseudourl_parse_assemble"], ["PU"]),
    "utility::PseudoURL::params : field std::vector<std::pair<std::string, std::string>>": _c(["pseudourl_parse_assemble (read through #define private public)"], ["PU"]),
    "utility::PseudoURL::PseudoURL : void (const PseudoURL &) noexcept(false) (implicit)": _c(["(memberwise copy of three value members; the harness reads getType/getFileName/params through a const reference to the parsed object)"], ["PU"]),
    "utility::PseudoURL::PseudoURL : void (PseudoURL &&) (implicit)": {"out": "memberwise move of std::string / std::vector members: standard-library behaviour, not a law of the property"},
    "utility::PseudoURL::operator= : PseudoURL &(const PseudoURL &) noexcept(false) (implicit)": {"out": "memberwise assignment of std::string / std::vector members: standard-library behaviour, not a law of the property"},
    "utility::PseudoURL::operator= : PseudoURL &(PseudoURL &&) (implicit)": {"out": "memberwise move assignment: standard-library behaviour, not a law of the property"},
    "utility::PseudoURL::~PseudoURL : void () noexcept (implicit)": _c(["(every PU case)"], ["PU"]),
    # ---- FileName.h/.cpp
    "FileName::FileName : void ()": _c(["filename_plus_component (plus_empty: left identity)"], ["FO"]),
    "FileName::FileName : void (const char *)": _c(["filename_normalised"], ["FN"]),
    "FileName::FileName : void (const std::string &)": _c(["filename_normalised"], FN_ALL),
    "FileName::filename : field std::string": _c(["filename_normalised"], FN_ALL),
    "FileName::str : const std::string &() const": _c(["filename_decompose"], FN_ALL),
    "FileName::c_str : const char *() const": _c(["filename_eq_spec (same string as str())"], ["FO"]),
    "FileName::operator basic_string : std::string () const": _c(["filename_eq_spec (same string as str())"], ["FO"]),
    "FileName::friend::operator<< : std::ostream &(std::ostream &, const FileName &)": _c(["filename_eq_spec (prints str())"], ["FO"]),
    "FileName::friend::operator== : bool (const FileName &, const FileName &)": _c(["filename_eq_spec"], ["FO", "FN"]),
    "FileName::friend::operator!= : bool (const FileName &, const FileName &)": _c(["filename_eq_spec"], ["FO", "FN"]),
    "FileName::path : std::string () const": _c(["filename_decompose"], ["FN"]),
    "FileName::base : std::string () const": _c(["filename_decompose"], ["FN"]),
    "FileName::name : std::string () const": _c(["filename_decompose", "filename_ext_last_component", "src_filename_last_component"], ["FN"]),
    "FileName::ext : std::string () const": _c(["filename_decompose", "filename_ext_last_component", "src_filename_last_component"], ["FN"]),
    "FileName::dropExt : FileName () const": _c(["filename_decompose", "filename_dropExt_addExt", "dropExt_addExt_hidden_refuted", "src_filename_last_component"], ["FN", "FE"]),
    "FileName::setExt : FileName (const std::string &) const": _c(["filename_decompose", "filename_setExt_own_ext", "src_filename_last_component"], ["FE"]),
    "FileName::addExt : FileName (const std::string &) const": _c(["filename_dropExt_addExt", "filename_no_ext"], ["FE", "FN"]),
    "FileName::operator+ : FileName (const FileName &) const": _c(["filename_plus_component", "filename_plus_recompose"], ["FP", "FO"]),
    "FileName::operator+ : FileName (const std::string &) const": _c(["filename_plus_component"], ["FP", "FO"]),
    "FileName::operator- : FileName (const FileName &) const": _c(["filename_minus_spec", "filename_minus_not_inverse_of_plus (possible finding, reported: (a+b)-a != b)"], ["FO"]),
    "FileName::homeFolder : FileName ()": {"out": ENV},
    "FileName::canonical : FileName ()": {"out": ENV},
    "FileName::FileName : void (const FileName &) noexcept(false) (implicit)": _c(["(every member returning FileName by value: dropExt/setExt/addExt/operator+/-)"], ["FE", "FP", "FO"]),
    "FileName::FileName : void (FileName &&) (implicit)": _c(["(returning FileName by value)"], ["FE", "FP", "FO"]),
    "FileName::operator= : FileName &(const FileName &) noexcept(false) (implicit)": {"out": "memberwise assignment of one std::string: standard-library behaviour, not a law of the property"},
    "FileName::operator= : FileName &(FileName &&) (implicit)": {"out": "memberwise move assignment of one std::string: standard-library behaviour, not a law of the property"},
    "FileName::~FileName : void () noexcept (implicit)": _c(["(every FileName case)"], FN_ALL),
    # ---- ArgumentList.h
    "utility::ArgumentList::ArgumentList : void (int, const char **)": _c(["arglist_remove_spec (al_ctor drops av[0])"], ["AL", "AR"]),
    "utility::ArgumentList::operator[] : std::string (const int) const": _c(["arglist_remaining"], ["AL", "AR"]),
    "utility::ArgumentList::size : int () const": _c(["arglist_remaining"], ["AL", "AR"]),
    "utility::ArgumentList::empty : bool () const": _c(["arglist_remove_spec"], ["AR"]),
    "utility::ArgumentList::remove : void (int, int)": _c(["arglist_remove_spec", "src_parse_and_remove"], ["AR", "AL"]),
    "utility::ArgumentList::arg : field std::vector<std::string>": _c(["arglist_remaining"], ["AL", "AR"]),
    "utility::ArgumentList::ArgumentList : void (const ArgumentList &) noexcept(false) (implicit)": {"out": "memberwise copy of a std::vector<std::string>: standard-library behaviour, not a law of the property"},
    "utility::ArgumentList::ArgumentList : void (ArgumentList &&) (implicit)": {"out": "memberwise move: standard-library behaviour, not a law of the property"},
    "utility::ArgumentList::operator= : ArgumentList &(const ArgumentList &) noexcept(false) (implicit)": {"out": "memberwise assignment: standard-library behaviour, not a law of the property"},
    "utility::ArgumentList::operator= : ArgumentList &(ArgumentList &&) (implicit)": {"out": "memberwise move assignment: standard-library behaviour, not a law of the property"},
    "utility::ArgumentList::~ArgumentList : void () noexcept (implicit)": _c(["(every AL/AR case)"], ["AL", "AR"]),
    "utility::ArgumentsParser::parseAndRemove : void (ArgumentList &)": _c(["arglist_remaining", "src_parse_and_remove"], ["AL"]),
    "utility::ArgumentsParser::tryConsume : int (ArgumentList &, int)": _c(["arglist_remaining (the Section variable: ANY tryConsume within bounds)"], ["AL"]),
    "utility::ArgumentsParser::~ArgumentsParser : void () (defaulted)": _c(["(every AL case)"], ["AL"]),
    "utility::ArgumentsParser::operator= : ArgumentsParser &(const ArgumentsParser &) (implicit)": {"out": "stateless interface class: assignment has nothing to copy"},
    # ---- common.h / common.cpp
    "prettyDouble : std::string (double)": _c(["pretty_suffix_large", "pretty_suffix_small", "pretty_plain_between", "src_pretty_double_table"], ["PD"]),
    "prettyNumber : std::string (size_t)": _c(["pretty_number_suffix", "pretty_number_plain", "src_pretty_number_table"], ["PN"]),
    "removeArgs : void (int &, const char **&, int, int)": _c(["removeArgs_spec"], ["RA"]),
    "loadLibrary : void (const void *, const std::string &, const std::vector<int> &)": {"out": "dynamic library loading (os/library): not a string / path / argument helper of the property"},
    "unloadLibrary : void (const std::string &)": {"out": "dynamic library loading (os/library): not a string / path / argument helper of the property"},
    "getSymbol : void *(const std::string &)": {"out": "dynamic library loading (os/library): not a string / path / argument helper of the property"},
    "make_unique<> : std::unique_ptr<T> (Args &&...)": {"out": "generic memory helper (C++14 backfill): not in the property"},
    "getDataSafe<> : T *(std::vector<T, A> &)": {"out": "generic container helper: not in the property"},
}


def check_inventory(ctx, cases):
    try:
        inv = factgen.inventory(ctx.repo, os.path.join(ctx.build, "ast"))
    except Exception as ex:
        inv = []
        ctx.broken.append("inventory extraction failed: %r" % (ex,))
    if not inv:
        ctx.broken.append("inventory of the anchored headers is empty (AST not available)")
    execs = {}
    for c in cases:
        execs[c[:2]] = execs.get(c[:2], 0) + 1
    report = {}
    for key in inv:
        ent = COVER.get(key)
        if ent is None:
            ctx.broken.append("inventory: the anchored headers declare `%s`, which is not in props/C18/check.py COVER (new overload / member?)" % key)
            report[key] = {"status": "NOT IN TABLE"}
        elif "out" in ent:
            report[key] = {"status": "out of scope", "reason": ent["out"]}
        else:
            n = sum(execs.get(o, 0) for o in ent["ops"])
            report[key] = {"status": "covered", "by": ent["by"], "ops": ent["ops"], "executions": n}
            if n == 0:
                ctx.broken.append("inventory: no case of this run executed `%s` (case kinds %s)" % (key, ent["ops"]))
    for key in COVER:
        if inv and key not in inv:
            ctx.broken.append("inventory: COVER entry `%s` matches no declaration any more (removed or signature changed)" % key)
            report[key] = {"status": "VANISHED"}
    ctx.cov["inventory"] = report
    ctx.cov["inventory_summary"] = {"declarations": len(inv), "covered": sum(1 for v in report.values() if v["status"] == "covered"),
                                    "out_of_scope": sum(1 for v in report.values() if v["status"] == "out of scope")}


def regen_facts(ctx):
    """source-derived obligations: regenerate coq/C18/gen/Facts.v from the working tree (clang JSON AST)"""
    gen_v = os.path.join(ctx.coqdir, "gen", "Facts.v")
    try:
        txt = factgen.main(["--repo", ctx.repo, "--out", gen_v, "--work", os.path.join(ctx.build, "ast")])
    except Exception as ex:
        ctx.broken.append("fact extraction failed: %r" % (ex,))
        txt = factgen.unknown_text()
        os.makedirs(os.path.dirname(gen_v), exist_ok=True)
        open(gen_v, "w").write(txt)
    # compiled files that depend on the facts must not survive a change of the facts
    for f in ("FactsCheck", "PropertiesFacts"):
        vo = os.path.join(ctx.coqdir, f + ".vo")
        if os.path.exists(vo) and os.path.getmtime(vo) < os.path.getmtime(gen_v):
            os.remove(vo)
    ctx.cov["source_facts"] = [l.strip() for l in txt.splitlines() if l and not l.startswith(("From", "Import", "Local", "(*"))]
    ctx.trusted.append("fact extractor props/C18/factgen.py over `clang++ -std=c++11 -fsyntax-only -Xclang -ast-dump=json` of common.cpp, "
                       "FileName.cpp, PseudoURL.cpp, StringManip.h, ArgumentList.h (pretty* if-chains with the float literals rounded "
                       "exactly to binary32, tokenize tests, FileName guards, beginsWith/longestBeginningMatch shape, parseAndRemove "
                       "reactions; anything unrecognised becomes an Unknown constructor, which fails the Coq check)")


def stage(ctx, name, fn, default=None):
    """run one stage; an exception is recorded (stage name + first line) and the run continues"""
    try:
        return fn()
    except Exception as ex:                       # noqa: BLE001 - a broken stage must never abort the whole check
        import traceback
        ctx.log("stage %s raised:\n%s" % (name, traceback.format_exc()[-1500:]))
        ctx.broken.append("stage %s failed: %s: %s" % (name, type(ex).__name__, str(ex).split("\n")[0][:200]))
        return default


BUDGET_S = 200


def over_budget(ctx):
    import time
    return (not ctx.thorough()) and time.time() - ctx.t0 > BUDGET_S


def run_impl_resumable(ctx, exe, cases, timeout=300, max_restarts=6):
    """one output line per case; when the harness dies (sanitizer report, signal) the case is marked and the run resumes behind it"""
    import subprocess
    lines, events, start = [], [], 0
    inp, outp, errp = (os.path.join(ctx.build, "impl_%s.txt" % k) for k in ("in", "out", "err"))
    while start < len(cases):
        open(inp, "w").write("\n".join(cases[start:]) + "\n")
        env = dict(os.environ)
        env.update(ctx.SAN_ENV)
        with open(inp) as fi, open(outp, "w") as fo, open(errp, "w") as fe:
            try:
                rc = subprocess.run([exe], stdin=fi, stdout=fo, stderr=fe, env=env, timeout=timeout).returncode
            except subprocess.TimeoutExpired:
                rc = 124
        got = open(outp, errors="replace").read().split("\n")[:-1][:len(cases) - start]
        err = open(errp, errors="replace").read()
        err = err if len(err) < 4000 else err[:1500] + "\n[...]\n" + err[-2500:]
        lines.extend(got)
        n = start + len(got)
        if n >= len(cases):
            if rc != 0:
                events.append((len(cases), rc, err))
            break
        events.append((n, rc, err))
        lines.append("<no output: harness died rc=%d>" % rc)
        start = n + 1
        if len(events) > max_restarts or over_budget(ctx):
            lines.extend(["<not run>"] * (len(cases) - start))
            break
    return lines, events


def build_harness(ctx):
    """the harness reads PseudoURL::params through `#define private public`; when that build fails against the tree the
    PUBLIC-INTERFACE build (-DC18_PUBLIC_ONLY: params shown as '?', everything else through getType/getFileName/getValue/hasParam)
    is used.  Each is retried once with a wider repo source list.  -> (exe, public_only)"""
    wide = REPO_SRC + ["rkcommon/utility/demangle.cpp"]
    for pub in (False, True):
        for srcs in (REPO_SRC, wide):
            exe = stage(ctx, "harness build", lambda: ctx.cxx(["harness.cpp"], "harness_pub" if pub else "harness", repo_sources=srcs,
                                                             sanitize="asan", libs=["-ldl"], flags=["-DC18_PUBLIC_ONLY"] if pub else []))
            if exe:
                if pub:
                    ctx.broken.append("the private-state harness does not build against this tree; the public-interface harness is used "
                                      "(PseudoURL::params not observed directly)")
                return exe, pub
    return None, False


def pub_line(case, line):
    """public-interface harness: the params field of a PU line is not observed"""
    if case[:2] == "PU":
        f = line.split(" ")
        if len(f) >= 3:
            f[2] = "?"
            return " ".join(f)
    return line


def run(ctx):
    stage(ctx, "fact extraction", lambda: regen_facts(ctx))
    res = stage(ctx, "coq build", lambda: ctx.coq_check(("Properties.v", "PropertiesFacts.v")), default={}) or {}
    bad_facts = sorted(n for n, ok in res.items() if n.startswith("src_") and not ok)
    if bad_facts:
        first = None
        m = re.search(r'File "\./(FactsCheck|PropertiesFacts)\.v", line (\d+)', getattr(ctx, "coq_log", ""))
        if m:
            src = open(os.path.join(ctx.coqdir, m.group(1) + ".v")).read().split("\n")[:int(m.group(2))]
            names = re.findall(r"^(?:Lemma|Theorem)\s+(\w+)", "\n".join(src), re.M)
            first = names[-1] if names else None
        ctx.cov["source_fact_broken_first"] = first
        ctx.log("source-derived obligations broken (first failing: %s); all of PropertiesFacts.v counted as broken: %s\n  extracted facts:\n    %s"
                % (first, ", ".join(bad_facts), "\n    ".join(ctx.cov.get("source_facts", []))))
    model = stage(ctx, "model extraction", lambda: ctx.extract(snippets=["conv_N.ml", "conv_Z.ml", "conv_nat.ml"]))
    exe, public_only = build_harness(ctx)
    ctx.cov["stages"] = {"model": bool(model), "harness": ("public-interface" if public_only else "private-state") if exe else None}
    if not exe:
        ctx.broken.append("no harness could be built against this tree: nothing was run on the real code")
        return
    cases, mix = gen_cases(ctx)
    corpus = os.path.join(ctx.verif, "corpus", "C18", "cases.txt")
    if os.path.exists(corpus):
        extra = [l.strip() for l in open(corpus) if l.strip() and not l.startswith("#")]
        cases = extra + cases
        mix["corpus"] = len(extra)
    label = "rkcommon"
    mlines = []
    if model:
        mlines = stage(ctx, "model run", lambda: vlib.differential(ctx, cases, model, [])[2], default=[]) or []
    have_model = len(mlines) == len(cases)
    if not have_model:
        ctx.broken.append("the extracted model is not available: the real code is judged by the independent python oracle alone "
                          "(model-vs-code correspondence skipped)")
    ilines, events = stage(ctx, "harness run", lambda: run_impl_resumable(ctx, exe, cases), default=([], []))
    ilines = (ilines + ["<not run>"] * len(cases))[:len(cases)]
    ctx.count(len(cases))
    if public_only and have_model:
        mlines = [pub_line(c, m) for c, m in zip(cases, mlines)]
    impl = list(ilines)
    mism = [(i, label, il, mlines[i]) for i, il in enumerate(ilines)
            if have_model and il != mlines[i] and not il.startswith("<no")] if have_model else []
    crashes = {}
    for (n, rc, err) in events[:3]:
        crashes["%s#%d" % (label, n)] = (rc, err, n)
    if not have_model:
        mlines = list(ilines)          # bookkeeping below counts on what actually ran
    # ---- coverage bookkeeping
    toklen = {"0": 0, "1": 0, "2": 0, ">=3": 0}
    sfx = {}
    for c, o in zip(cases, mlines):
        k = c[:2]
        if is_nontrivial(c, o):
            ctx.nontriv(c)
        if k in ("SC", "SS", "TK"):
            for x in untoks(o):
                toklen[str(len(x)) if len(x) < 3 else ">=3"] += 1
        elif k in ("PN", "PD"):
            s = o[-1] if o[-1:] in SI else "plain"
            sfx[k + ":" + s] = sfx.get(k + ":" + s, 0) + 1
    check_inventory(ctx, cases)
    ctx.cov["case_mix"] = mix
    ctx.cov["token_length_histogram"] = toklen
    ctx.cov["pretty_suffix_histogram"] = sfx
    ctx.rule = ("all strings of length <= %d over {a,b,:}, {a,',',' '}, {a,'.','/'} through split(char), split(set, keepDelim 0/1), tokenize, "
                "FileName accessors; all pairs of strings of length <= 4 for the prefix functions and FileName::operator+; PseudoURLs assembled "
                "from short component lists (1-character parts frequent) plus all strings of length <= %d over {a,:,/,=}; every consume "
                "pattern k in 0..3 for <= 6 arguments plus random vectors with repeated arguments; pretty* on 20 points per decade over "
                "1e-15..1e21 and 3 neighbours on both sides of every threshold.  non-trivial = >=2 tokens or a 1-character token / "
                "non-empty common prefix / a parameter parsed / a path with a separator or dot / some arguments consumed and some kept / "
                "an SI suffix printed" % (ctx.pick(7, 8), ctx.pick(6, 7)))
    for c in cases[:: max(1, len(cases) // 6)][:6]:
        ctx.sample({"case": show(c), "model_and_impl": mlines[cases.index(c)][:200]})
    # ---- crashes / sanitizer reports
    for lbl, (rc, err, n) in crashes.items():
        ctx.violation("harness crashed (rc=%d) — sanitizer report / abort in the real code" % rc,
                      {"stderr_tail": err, "case": show(cases[n]) if n < len(cases) else None, "case_line": cases[n] if n < len(cases) else None,
                       "required": "no crash, no sanitizer report"}, found_input=n < len(cases))
    # ---- property oracle on the implementation's own output, every case
    bad = {}          # kind -> list of (case index)
    known_hidden = []
    for i, (c, o) in enumerate(zip(cases, impl)):
        if o.startswith("<no"):
            continue
        ok, req = oracle(c, o, public_only=public_only) if c[:2] == "PU" else oracle(c, o)
        if not ok:
            if c[:2] in ("FN", "FE") and hidden_under_dir(uh(c.split()[1])) and oracle(c, o, relax=True)[0]:
                known_hidden.append(i)       # exactly the class of the open finding, and only its law fails
            else:
                bad.setdefault(c[:2], []).append(i)
    ctx.cov["oracle_failures"] = {k: len(v) for k, v in bad.items()}
    ctx.cov["known_finding_cases"] = {KNOWN_HIDDEN: len(known_hidden)}
    if known_hidden:
        i = min(known_hidden, key=lambda j: (len(cases[j]), j))
        ok, req = oracle(cases[i], impl[i])
        ctx.violation("FileName: dropExt() of a hidden file directly under a directory drops the path separator, so "
                      "dropExt().addExt('.'+ext()) and dropExt().addExt(e) land in the parent directory (%d cases of exactly this class)"
                      % len(known_hidden),
                      {"case": show(cases[i]), "case_line": cases[i], "observed": impl[i], "observed_decoded": decode_out(cases[i], impl[i]),
                       "required": req, "model": mlines[i], "failing_cases_of_kind": len(known_hidden)},
                      signature=KNOWN_HIDDEN)
    ctx.cov["mismatches"] = len(mism)
    mis_idx = set(i for (i, _, _, _) in mism)

    def orc(c, o):
        return oracle(c, o, public_only=public_only) if c[:2] == "PU" else oracle(c, o)

    def run1(line):
        rc, out, err = ctx.run_exe(exe, [], stdin=line + "\n")
        return out.strip("\n")

    for k, idxs in sorted(bad.items()):
        i = min(idxs, key=lambda j: (len(cases[j]), j))
        line = cases[i]
        t = line.split()
        if k in ("SC", "SS", "TK", "PU", "FN", "FE", "FP", "FO", "LB", "LU"):
            def fails(chars, t=t):
                l2 = " ".join([t[0], hx("".join(chars))] + t[2:])
                return (not over_budget(ctx)) and not orc(l2, run1(l2))[0]
            small = vlib.shrink_list(list(uh(t[1])), fails)
            line = " ".join([t[0], hx("".join(small))] + t[2:])
        elif k == "AL":
            def fails(args):
                l2 = "AL " + " ".join(args)
                return (not over_budget(ctx)) and not orc(l2, run1(l2))[0]
            line = "AL " + " ".join(vlib.shrink_list(t[1:], fails))
        obs = run1(line)
        ok, req = orc(line, obs)
        if ok:                      # shrinking went wrong; fall back to the original
            line, obs = cases[i], impl[i]
            ok, req = orc(line, obs)
        agrees = have_model and i not in mis_idx
        ctx.violation("%s: the implementation's output breaks the decomposition law (%d failing cases of this kind)%s"
                      % (k, len(idxs), " — the model agrees with the implementation: model/theorem and oracle are inconsistent" if agrees else ""),
                      {"case": show(line), "case_line": line, "observed": obs, "observed_decoded": decode_out(line, obs),
                       "required": req, "model": mlines[i] if line == cases[i] else None, "failing_cases_of_kind": len(idxs)})
    # ---- differences that the oracle accepts: correspondence broken, no failing input
    seen = set()
    for (i, _, il, ml) in mism:
        k = cases[i][:2]
        if k in bad or k in seen or il.startswith("<no output"):
            continue
        seen.add(k)
        ctx.broken.append("correspondence C18 model vs implementation on case %s: impl=%r model=%r (oracle accepts the implementation's output)"
                          % (show(cases[i]), il[:200], ml[:200]))
    ctx.trusted += ["correspondence harness harness/C18/harness.cpp + generators/oracle in props/C18/check.py (g++ -O1, ASan+UBSan)",
                    "printf \"%.1f\"/\"%f\" formatting and IEEE double division are an oracle: the OCaml driver formats the quotient chosen by the "
                    "model with the C library's printf; the model decides branch, factor and suffix",
                    "modelled, not verified: std::string find/find_first_of/find_last_of/substr, std::getline, std::mismatch, ::tolower/::toupper "
                    "(C locale), std::vector::erase (their observable behaviour is what the differential run compares)"]
    ctx.assumptions += ["POSIX build (path_sep '/'); characters are 7-bit in the lowerCase/upperCase cases; tryConsume returns 0 <= k <= size-argID; "
                        "removeArgs/remove are called with where+howMany <= size"]
    if ctx.thorough():
        ctx.coq_thorough_chk(["C18.Properties", "C18.PropertiesFacts"])


def decode_out(case, out):
    k = case[:2]
    try:
        if k in ("SC", "SS", "TK", "AL"):
            return repr(untoks(out))
        if k in ("PN", "PD"):
            return out
        if k == "PU":
            f = out.split(" ")
            ps = [] if f[2] == "[]" else [tuple(uh(x) for x in p.split("=")) for p in f[2].split(",")]
            return "type=%r file=%r params=%r queries=%r" % (uh(f[0]), uh(f[1]), ps, f[3:])
        if k in ("AR", "RA"):
            return out
        return " ".join(repr(uh(x)) if x[:1] not in ("!", "~") else x for x in out.split(" "))
    except Exception:
        return out
