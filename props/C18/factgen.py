#!/usr/bin/env python3
"""C18 fact extractor: reads the clang JSON AST of common.cpp, FileName.cpp, PseudoURL.cpp, StringManip.h and
ArgumentList.h of the working tree and writes coq/C18/gen/Facts.v:

  gen_pd / gen_pn : list plink     the if-chains of prettyDouble / prettyNumber, link by link:
       PL ge thr mul factor suffix    ge: `x >= thr` (else `x <= thr`); thr = exact rational value of the float literal;
                                      the printed number is val / factor (mul = false) or val * factor; suffix character
  gen_pd_shape / gen_pn_shape : bool   prettyDouble compares std::abs(val) and scales val; prettyNumber compares and scales
                                      (double)s; the chain ends in the plain "%f" / "%zu" branch
  gen_tok_inner / gen_tok_last : option nat   tokenize keeps a field iff its length exceeds this
  gen_fn_ext / gen_fn_dropExt / gen_fn_name / gen_fn_setExt : fnguard
       GLast  = `start = find_last_of(path_sep); start = (start == npos) ? 0 : start + 1; dot = find_last_of('.');
                 if (dot == npos || dot < start)`   (the dot must lie in the last component)
       GWhole = only `dot == npos` is tested;  GUnknown otherwise
  gen_begins : bool                beginsWith is exactly `m = longestBeginningMatch(a, b); return m.size() == b.size();`
  gen_lbm : bool                   longestBeginningMatch = std::mismatch over a.begin() .. a.begin() + min(a.size(), b.size())
  gen_par_zero / gen_par_nonzero / gen_par_inc : list pact
       what parseAndRemove does when tryConsume returned 0 / something else, and the for-increment
       (AAdvance = ++argID, ARemove = argList.remove(argID, numConsumed), AUnknown)
usage: factgen.py [--repo DIR] [--out Facts.v] [--work DIR]
"""
import os
import subprocess
import sys
from fractions import Fraction

HERE = os.path.dirname(os.path.abspath(__file__))
sys.path.insert(0, os.path.join(os.path.dirname(os.path.dirname(HERE)), "tools", "cxx2coq"))
from astutil import load_docs, walk  # noqa: E402

INST = r'''
#include "rkcommon/common.cpp"
#include "rkcommon/os/FileName.cpp"
#include "rkcommon/utility/PseudoURL.cpp"
#include "rkcommon/utility/StringManip.h"
#include "rkcommon/utility/ArgumentList.h"
'''
CASTS = {"ImplicitCastExpr", "ParenExpr", "ExprWithCleanups", "CStyleCastExpr", "CXXStaticCastExpr",
         "CXXFunctionalCastExpr", "MaterializeTemporaryExpr", "CXXBindTemporaryExpr", "CXXConstructExpr"}


def inner(n):
    return [c for c in (n.get("inner") or []) if isinstance(c, dict) and c]


def strip(n):
    while n.get("kind") in CASTS and len(inner(n)) >= 1 and (n.get("kind") != "CXXConstructExpr" or len(inner(n)) == 1):
        n = inner(n)[0]
    return n


def refname(n):
    n = strip(n)
    if n.get("kind") == "DeclRefExpr":
        r = n.get("referencedDecl") or {}
        return r.get("name"), r.get("id")
    return None, None


def round_binary(q, p, emin):
    """round the rational q >= 0 to the nearest binary float with p significant bits (ties to even); exact result"""
    if q == 0:
        return Fraction(0)
    e = 0
    while q >= Fraction(2) ** (e + 1):
        e += 1
    while q < Fraction(2) ** e:
        e -= 1
    e = max(e, emin)
    ulp = Fraction(2) ** (e - p + 1)
    k = q / ulp
    f = k.numerator // k.denominator
    r = k - f
    if r > Fraction(1, 2) or (r == Fraction(1, 2) and f % 2 == 1):
        f += 1
    return f * ulp


def literal(n):
    """exact value of a floating / integer literal as a Fraction, or None"""
    n = strip(n)
    if n.get("kind") == "FloatingLiteral":
        q = Fraction(n.get("value"))
        ty = n.get("type", {}).get("qualType", "")
        if ty == "float":
            return round_binary(q, 24, -126)
        if ty == "double":
            return round_binary(q, 53, -1022)
        return None
    if n.get("kind") == "IntegerLiteral":
        return Fraction(int(n.get("value")))
    return None


def qtext(q):
    return "(%d # %d)" % (q.numerator, q.denominator)


def find_fn(docs, name, cls=None):
    for d in docs:
        for n, ps in walk(d):
            if n.get("kind") in ("FunctionDecl", "CXXMethodDecl") and n.get("name") == name and \
                    any(c.get("kind") == "CompoundStmt" for c in inner(n)):
                return n
    return None


def body(fn):
    return [c for c in inner(fn) if c.get("kind") == "CompoundStmt"][0]


# ------------------------------------------------------------------ pretty*
def pretty_chain(fn):
    """-> (links, shape_ok).  links: list of coq texts"""
    if fn is None:
        return ["PLUnknown"], False
    ss = inner(body(fn))
    param = [c for c in inner(fn) if c.get("kind") == "ParmVarDecl"][0]
    is_double = "double" in param.get("type", {}).get("qualType", "")
    role = {param["id"]: "param"}
    ifs = None
    shape = True
    for s in ss:
        if s.get("kind") == "DeclStmt":
            for v in inner(s):
                if v.get("kind") == "VarDecl" and inner(v):
                    init = inner(v)[-1]
                    t = strip(init)
                    if t.get("kind") == "CallExpr" and any(refname(m)[0] == "abs" for m in inner(t)[:1]) and refname(inner(t)[1])[1] == param["id"]:
                        role[v["id"]] = "abs"
                    elif refname(init)[1] == param["id"] and "double" in v.get("type", {}).get("qualType", ""):
                        role[v["id"]] = "dbl"
        elif s.get("kind") == "IfStmt":
            if ifs is not None:
                shape = False
            ifs = s
        elif s.get("kind") != "ReturnStmt":
            shape = False
    links = []
    want_cmp = "abs" if is_double else "dbl"
    want_scale = "param" if is_double else "dbl"
    cur = ifs
    while cur is not None and cur.get("kind") == "IfStmt":
        parts = inner(cur)
        if len(parts) != 3:
            return links + ["PLUnknown"], False
        cond, then, els = parts
        c = strip(cond)
        a, b = inner(c) if c.get("kind") == "BinaryOperator" else (None, None)
        thr = literal(b) if b is not None else None
        if c.get("opcode") not in (">=", "<=") or thr is None or role.get(refname(a)[1]) != want_cmp:
            links.append("PLUnknown"); shape = False
        else:
            call = strip(then)
            args = inner(call)[1:] if call.get("kind") == "CallExpr" else []
            ok = len(args) == 5 and strip(args[2]).get("value") == "\"%.1f%c\""
            if ok:
                sc = strip(args[3])
                x, f = inner(sc) if sc.get("kind") == "BinaryOperator" and sc.get("opcode") in ("/", "*") else (None, None)
                fac = literal(f) if f is not None else None
                ch = strip(args[4])
                ok = fac is not None and fac.denominator == 1 and role.get(refname(x)[1]) == want_scale and ch.get("kind") == "CharacterLiteral"
            if ok:
                links.append("PL %s %s %s %d %d" % ("true" if c["opcode"] == ">=" else "false", qtext(thr),
                                                    "true" if sc["opcode"] == "*" else "false", fac.numerator, int(ch["value"])))
            else:
                links.append("PLUnknown"); shape = False
        cur = els if els.get("kind") == "IfStmt" else None
        last = els
    # the final else: the plain branch
    if ifs is None:
        return ["PLUnknown"], False
    fin = strip(last)
    fmt = strip(inner(fin)[3]).get("value") if fin.get("kind") == "CallExpr" and len(inner(fin)) >= 4 else None
    if fmt not in ("\"%f\"", "\"%zu\""):
        shape = False
    return links, shape


# ------------------------------------------------------------------ tokenize
def minlen(cond):
    """`X - prev > k` -> k ; `>= k` -> k-1 ; `X != prev`, `X > prev`, `X - prev != 0` -> 0"""
    c = strip(cond)
    if c.get("kind") != "BinaryOperator":
        return None
    op = c.get("opcode")
    a, b = [strip(x) for x in inner(c)]
    if a.get("kind") == "BinaryOperator" and a.get("opcode") == "-" and refname(inner(a)[1])[0] == "prev":
        k = literal(b)
        if k is None or k.denominator != 1:
            return None
        k = int(k)
        if op == ">": return k
        if op == ">=" and k >= 1: return k - 1
        if op == "!=" and k == 0: return 0
        return None
    if refname(b)[0] == "prev" and op in ("!=", ">"):
        return 0
    if refname(a)[0] == "prev" and op in ("!=", "<"):
        return 0
    return None


def tokenize_facts(fn):
    if fn is None:
        return None, None
    inner_if = last_if = None
    for s in inner(body(fn)):
        if s.get("kind") == "ForStmt":
            b = s["inner"][4]
            ifs = [x for x in inner(b) if x.get("kind") == "IfStmt"] if b.get("kind") == "CompoundStmt" else ([b] if b.get("kind") == "IfStmt" else [])
            if len(ifs) == 1 and len(inner(b)) == 1:
                inner_if = ifs[0]
        elif s.get("kind") == "IfStmt":
            last_if = s

    def pushes(i):
        return i is not None and len(inner(i)) == 2 and any(m.get("kind") == "MemberExpr" and m.get("name") == "push_back" for m, _ in walk(inner(i)[1]))
    return (minlen(inner(inner_if)[0]) if pushes(inner_if) else None,
            minlen(inner(last_if)[0]) if pushes(last_if) else None)


# ------------------------------------------------------------------ FileName
def is_flo(n, what):
    """filename.find_last_of(<what>) with one explicit argument; what = 'sep' | 'dot'"""
    n = strip(n)
    if n.get("kind") != "CXXMemberCallExpr":
        return False
    a = inner(n)
    if a[0].get("kind") != "MemberExpr" or a[0].get("name") != "find_last_of":
        return False
    args = [x for x in a[1:] if x.get("kind") != "CXXDefaultArgExpr"]
    if len(args) != 1:
        return False
    x = strip(args[0])
    if what == "sep":
        return refname(x)[0] == "path_sep"
    return x.get("kind") == "CharacterLiteral" and x.get("value") == 46


def is_npos(n):
    return refname(n)[0] == "npos"


def fn_guard(fn):
    if fn is None:
        return "GUnknown"
    ss = inner(body(fn))
    start = dot = None
    norm = False
    guard = None
    for s in ss:
        if s.get("kind") == "DeclStmt":
            for v in inner(s):
                if v.get("kind") == "VarDecl" and inner(v):
                    if is_flo(inner(v)[-1], "sep") and start is None and dot is None:
                        start = v["id"]
                    elif is_flo(inner(v)[-1], "dot") and dot is None:
                        dot = v["id"]
                    else:
                        return "GUnknown"
        elif s.get("kind") == "IfStmt":
            parts = inner(s)
            c = strip(parts[0])
            if start is not None and dot is None and len(parts) == 3 and c.get("opcode") == "==" and \
                    refname(inner(c)[0])[1] == start and is_npos(inner(c)[1]):
                t, e = strip(parts[1]), strip(parts[2])
                norm = (t.get("opcode") == "=" and refname(inner(t)[0])[1] == start and literal(inner(t)[1]) == 0 and
                        e.get("kind") == "UnaryOperator" and e.get("opcode") == "++" and refname(inner(e)[0])[1] == start)
                if not norm:
                    return "GUnknown"
            elif dot is not None and guard is None:
                guard = c
            else:
                return "GUnknown"
    if dot is None or guard is None:
        return "GUnknown"

    def eq_npos(c):
        return c.get("kind") == "BinaryOperator" and c.get("opcode") == "==" and refname(inner(c)[0])[1] == dot and is_npos(inner(c)[1])

    def before_start(c):
        if c.get("kind") != "BinaryOperator":
            return False
        a, b = inner(c)
        return (c.get("opcode") == "<" and refname(a)[1] == dot and refname(b)[1] == start) or \
               (c.get("opcode") == ">" and refname(a)[1] == start and refname(b)[1] == dot)
    if guard.get("opcode") == "||":
        a, b = [strip(x) for x in inner(guard)]
        if start is not None and norm and ((eq_npos(a) and before_start(b)) or (eq_npos(b) and before_start(a))):
            return "GLast"
        return "GUnknown"
    if eq_npos(guard) and start is None:
        return "GWhole"
    return "GUnknown"


# ------------------------------------------------------------------ StringManip
def begins_fact(fn):
    if fn is None:
        return False
    ss = inner(body(fn))
    ps = [c for c in inner(fn) if c.get("kind") == "ParmVarDecl"]
    if len(ss) != 2 or ss[0].get("kind") != "DeclStmt" or ss[1].get("kind") != "ReturnStmt" or len(ps) != 2:
        return False
    v = inner(ss[0])[0]
    call = None
    for m, _ in walk(v):
        if m.get("kind") == "CallExpr" and refname(inner(m)[0])[0] == "longestBeginningMatch":
            call = m
    if call is None or [refname(x)[1] for x in inner(call)[1:]] != [ps[0]["id"], ps[1]["id"]]:
        return False
    r = strip(inner(ss[1])[0])
    if r.get("kind") != "BinaryOperator" or r.get("opcode") != "==":
        return False

    def size_of(n):
        n = strip(n)
        if n.get("kind") == "CXXMemberCallExpr" and inner(n)[0].get("name") == "size":
            return refname(inner(inner(n)[0])[0])[1]
        return None
    return {size_of(inner(r)[0]), size_of(inner(r)[1])} == {v["id"], ps[1]["id"]}


def lbm_fact(fn):
    """one std::min over the two sizes bounds the range handed to one std::mismatch (directly or through locals)"""
    if fn is None:
        return False
    inits = {}
    for m, _ in walk(body(fn)):
        if m.get("kind") == "VarDecl" and inner(m):
            inits[m["id"]] = inner(m)[-1]

    def mentions_min(n, depth=0):
        for x, _ in walk(n):
            if x.get("kind") == "CallExpr" and refname(inner(x)[0])[0] == "min":
                sizes = [y for y, _ in walk(x) if y.get("kind") == "MemberExpr" and y.get("name") == "size"]
                return len(sizes) == 2
            if x.get("kind") == "DeclRefExpr" and depth < 3:
                i = (x.get("referencedDecl") or {}).get("id")
                if i in inits and mentions_min(inits[i], depth + 1):
                    return True
        return False
    calls = [m for m, _ in walk(body(fn)) if m.get("kind") == "CallExpr" and refname(inner(m)[0])[0] == "mismatch"]
    mins = [m for m, _ in walk(body(fn)) if m.get("kind") == "CallExpr" and refname(inner(m)[0])[0] == "min"]
    return len(calls) == 1 and len(mins) == 1 and len(inner(calls[0])) == 4 and mentions_min(inner(calls[0])[2])


# ------------------------------------------------------------------ parseAndRemove
def par_facts(fn):
    unk = (["AUnknown"], ["AUnknown"], ["AUnknown"])
    if fn is None:
        return unk
    ss = inner(body(fn))
    if len(ss) != 1 or ss[0].get("kind") != "ForStmt":
        return unk
    f = ss[0]["inner"]
    init, cond, inc, b = f[0], f[2], f[3], f[4]
    idx = [v for v, _ in walk(init) if v.get("kind") == "VarDecl"]
    if len(idx) != 1 or literal(inner(idx[0])[-1]) != 0:
        return unk
    idx = idx[0]["id"]
    c = strip(cond)
    if c.get("opcode") != "<" or refname(inner(c)[0])[1] != idx or not any(m.get("name") == "size" for m, _ in walk(inner(c)[1])):
        return unk
    ncons = [None]

    def act(n):
        n = strip(n)
        if n.get("kind") == "UnaryOperator" and n.get("opcode") == "++" and refname(inner(n)[0])[1] == idx:
            return "AAdvance"
        if n.get("kind") == "CXXMemberCallExpr" and inner(n)[0].get("name") == "remove":
            a = inner(n)[1:]
            if len(a) == 2 and refname(a[0])[1] == idx and refname(a[1])[1] == ncons[0]:
                return "ARemove"
        return "AUnknown"

    def acts(n):
        if not n:
            return []
        if n.get("kind") == "CompoundStmt":
            return [act(x) for x in inner(n)]
        return [act(n)]
    bs = inner(b) if b.get("kind") == "CompoundStmt" else [b]
    if len(bs) != 2 or bs[0].get("kind") != "DeclStmt" or bs[1].get("kind") != "IfStmt":
        return unk
    v = inner(bs[0])[0]
    call = strip(inner(v)[-1]) if inner(v) else {}
    if call.get("kind") != "CXXMemberCallExpr" or inner(call)[0].get("name") != "tryConsume" or refname(inner(call)[2])[1] != idx:
        return unk
    ncons[0] = v["id"]
    parts = inner(bs[1])
    t = strip(parts[0])
    if t.get("kind") != "BinaryOperator" or refname(inner(t)[0])[1] != ncons[0] or literal(inner(t)[1]) != 0:
        return unk
    then, els = acts(parts[1]), acts(parts[2]) if len(parts) == 3 else []
    if t.get("opcode") == "==":
        zero, nonzero = then, els
    elif t.get("opcode") in ("!=", ">"):
        zero, nonzero = els, then
    else:
        return unk
    return zero, nonzero, acts(inc)


INV_TU = r'''
#include "rkcommon/common.h"
#include "rkcommon/os/FileName.h"
#include "rkcommon/utility/PseudoURL.h"
#include "rkcommon/utility/StringManip.h"
#include "rkcommon/utility/ArgumentList.h"
namespace c18inst {
// make clang declare the implicit special members that matter (value types that are copied around)
inline void use(rkcommon::FileName &f, rkcommon::utility::PseudoURL &u, rkcommon::utility::ArgumentList &l) {
  rkcommon::FileName f2(f); f2 = f; rkcommon::FileName f3; rkcommon::utility::PseudoURL u2(u); u2 = u;
  rkcommon::utility::ArgumentList l2(l); l2 = l;
}
}
'''


def norm_sig(t):
    import re
    t = t.replace("rkcommon::utility::", "").replace("rkcommon::", "")
    return re.sub(r"\s+", " ", t).strip()


def inventory(repo, work):
    """every declaration of namespace rkcommon (incl. rkcommon::utility) made by the anchored headers: functions, operators,
    templates, and per class constructors / destructor / methods / conversions / friends / data members / the implicit special
    members clang declares for the instantiation TU.  -> sorted list of keys"""
    os.makedirs(work, exist_ok=True)
    src = os.path.join(work, "c18_inv.cpp")
    open(src, "w").write(INV_TU)
    ast = os.path.join(work, "ast_inv.json")
    inc = os.path.join(os.path.dirname(os.path.dirname(HERE)), "build", "include")
    with open(ast, "w") as f:
        p = subprocess.run(["clang++", "-std=c++11", "-I" + repo, "-I" + inc, "-fsyntax-only", "-Xclang", "-ast-dump=json",
                            "-Xclang", "-ast-dump-filter=rkcommon", src], stdout=f, stderr=subprocess.PIPE, timeout=180,
                           universal_newlines=True)
    if p.returncode != 0:
        raise RuntimeError("clang failed: " + p.stderr[-2000:])
    docs = load_docs(ast)
    out = set()

    def sig(n):
        return norm_sig(n.get("type", {}).get("qualType", ""))

    def visit(n, scope, in_class):
        for c in inner(n):
            k = c.get("kind")
            nm = c.get("name")
            if k == "NamespaceDecl":
                visit(c, scope + ([nm] if nm not in ("rkcommon",) else []), False)
            elif k == "CXXRecordDecl" and c.get("completeDefinition") and nm:
                visit(c, scope + [nm], True)
            elif k == "FriendDecl":
                visit(c, scope + ["friend"], in_class)
            elif k in ("FunctionDecl", "CXXMethodDecl", "CXXConstructorDecl", "CXXDestructorDecl", "CXXConversionDecl"):
                if c.get("previousDecl") and not in_class:
                    continue
                tag = " (implicit)" if c.get("isImplicit") else (" (defaulted)" if c.get("explicitlyDefaulted") == "default" else "")
                out.add("::".join(scope + [nm]) + " : " + sig(c) + tag)
            elif k == "FunctionTemplateDecl":
                if c.get("previousDecl"):
                    continue
                fds = [x for x in inner(c) if x.get("kind") in ("FunctionDecl", "CXXMethodDecl")]
                out.add("::".join(scope + [nm + "<>"]) + " : " + (sig(fds[0]) if fds else ""))
            elif k == "FieldDecl" and in_class:
                out.add("::".join(scope + [nm]) + " : field " + sig(c))
            elif k == "VarDecl" and not in_class:
                out.add("::".join(scope + [nm]) + " : variable " + sig(c))
    for d in docs:
        if d.get("kind") == "NamespaceDecl" and d.get("name") == "rkcommon":
            visit(d, [], False)
    return sorted(out)


def coq_list(xs):
    return "[" + "; ".join(xs) + "]"


def opt(n):
    return "None" if n is None else "(Some %d%%nat)" % n


def main(argv):
    repo, out, work = "/repo", None, "/tmp/c18facts"
    i = 0
    while i < len(argv):
        if argv[i] == "--repo": repo = argv[i + 1]; i += 2
        elif argv[i] == "--out": out = argv[i + 1]; i += 2
        elif argv[i] == "--work": work = argv[i + 1]; i += 2
        else: i += 1
    os.makedirs(work, exist_ok=True)
    src = os.path.join(work, "c18_inst.cpp")
    open(src, "w").write(INST)
    ast = os.path.join(work, "ast.json")
    inc = os.path.join(os.path.dirname(os.path.dirname(HERE)), "build", "include")
    with open(ast, "w") as f:
        p = subprocess.run(["clang++", "-std=c++11", "-I" + repo, "-I" + inc, "-fsyntax-only", "-Xclang", "-ast-dump=json",
                            "-Xclang", "-ast-dump-filter=rkcommon", src], stdout=f, stderr=subprocess.PIPE, timeout=180,
                           universal_newlines=True)
    if p.returncode != 0:
        raise RuntimeError("clang failed: " + p.stderr[-2000:])
    docs = load_docs(ast)
    pd, pd_shape = pretty_chain(find_fn(docs, "prettyDouble"))
    pn, pn_shape = pretty_chain(find_fn(docs, "prettyNumber"))
    ti, tl = tokenize_facts(find_fn(docs, "tokenize"))
    zero, nonzero, incs = par_facts(find_fn(docs, "parseAndRemove"))
    lines = ["(* GENERATED by props/C18/factgen.py from the working tree - do not edit, not under version control. *)",
             "From Coq Require Import ZArith NArith QArith List.", "From C18 Require Import FactsModel.", "Import ListNotations.", "",
             "Definition gen_pd : list plink :=\n  [%s]." % ";\n   ".join(pd),
             "Definition gen_pd_shape : bool := %s." % ("true" if pd_shape else "false"),
             "Definition gen_pn : list plink :=\n  [%s]." % ";\n   ".join(pn),
             "Definition gen_pn_shape : bool := %s." % ("true" if pn_shape else "false"),
             "Definition gen_tok_inner : option nat := %s." % opt(ti),
             "Definition gen_tok_last : option nat := %s." % opt(tl)]
    for m in ("ext", "dropExt", "name", "setExt"):
        lines.append("Definition gen_fn_%s : fnguard := %s." % (m, fn_guard(find_fn(docs, m))))
    lines += ["Definition gen_begins : bool := %s." % ("true" if begins_fact(find_fn(docs, "beginsWith")) else "false"),
              "Definition gen_lbm : bool := %s." % ("true" if lbm_fact(find_fn(docs, "longestBeginningMatch")) else "false"),
              "Definition gen_par_zero : list pact := %s." % coq_list(zero),
              "Definition gen_par_nonzero : list pact := %s." % coq_list(nonzero),
              "Definition gen_par_inc : list pact := %s." % coq_list(incs)]
    txt = "\n".join(lines) + "\n"
    if out:
        os.makedirs(os.path.dirname(out), exist_ok=True)
        if not os.path.exists(out) or open(out).read() != txt:
            open(out, "w").write(txt)
    else:
        sys.stdout.write(txt)
    return txt


def unknown_text():
    return ("From Coq Require Import ZArith NArith QArith List.\nFrom C18 Require Import FactsModel.\nImport ListNotations.\n"
            "Definition gen_pd : list plink := [PLUnknown].\nDefinition gen_pd_shape : bool := false.\n"
            "Definition gen_pn : list plink := [PLUnknown].\nDefinition gen_pn_shape : bool := false.\n"
            "Definition gen_tok_inner : option nat := None.\nDefinition gen_tok_last : option nat := None.\n"
            "Definition gen_fn_ext : fnguard := GUnknown.\nDefinition gen_fn_dropExt : fnguard := GUnknown.\n"
            "Definition gen_fn_name : fnguard := GUnknown.\nDefinition gen_fn_setExt : fnguard := GUnknown.\n"
            "Definition gen_begins : bool := false.\nDefinition gen_lbm : bool := false.\n"
            "Definition gen_par_zero : list pact := [AUnknown].\nDefinition gen_par_nonzero : list pact := [AUnknown].\n"
            "Definition gen_par_inc : list pact := [AUnknown].\n")


if __name__ == "__main__":
    main(sys.argv[1:])
