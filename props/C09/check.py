"""C09 — Optional and Any behave as value types for every payload type and history.
Tie B: hand-written Gallina model of Optional's storage-lifetime machine and of Any
(coq/C09/Model.v, mirrors the repaired Optional.h / Any.h member by member), proved to realise the
value-type reference semantics with no lifetime error and exactly-once destruction
(coq/C09/Properties.v).  Correspondence = extracted model vs the real templates on the same
histories, for a lifetime-instrumented payload (event-exact), std::string, std::vector<int>, an
over-aligned struct and int, in a normal and in an odd-offset placement, under ASan+UBSan; plus the
layout facts alignof/sizeof(Optional<T>) against the model's layout function."""
import itertools, json, os, re, sys, time, traceback
import vlib
sys.path.insert(0, os.path.dirname(os.path.abspath(__file__)))
import factgen  # noqa: E402

REPO_SRC = ["rkcommon/utility/demangle.cpp"]
NS = 4
# family, driver output form, payload flavour (does a move leave code 0 behind)
# payload kinds along the trait lattice: the instrumented traces are compared with Spec.observed <kind> of the model's event log
PK = {"trk": "pk=full",        # user-provided ctors, copy/move, assignment, destructor
      "tnd": "pk=nodtor",      # trivially destructible, user-provided copy/move (self-pointer, every call logged)
      "dto": "pk=dtoronly"}    # user-provided default ctor and destructor, trivial copies
FAMS = [("trk", "full", "mvz1"), ("tnd", "full", "mvz1"), ("dto", "full", "mvz0"), ("str", "plain", "mvz1"), ("vec", "plain", "mvz1"),
        ("over", "plain", "mvz0"), ("int", "plain", "mvz0"), ("ks", "plain", "mvz0"), ("dbl", "plain", "mvz0")]
# a payload code is 4 * key + shadow: the payload's comparison operators see the key only.  The classic families are fed
# shadow-free codes (4 * v); ks ({key, shadow} compared on key) and dbl (+0.0 / -0.0) also get codes with shadows.
VALUE_FIELD = {"cv": 3, "mk": 3, "av": 2, "em": 2, "vo": 2, "sv": 2}


def recode(case, f):
    """apply f to every payload value of an Optional history"""
    out = []
    for tok in case.split():
        p = tok.split(":")
        k = VALUE_FIELD.get(p[0])
        if k is not None and len(p) > k:
            p[k] = str(f(int(p[k])))
        out.append(":".join(p))
    return " ".join(out)
TRANSFER = ("cc", "cm", "xc", "xm", "ac", "am", "xac", "xam")
CMPS = ("eq", "ne", "lt", "le", "gt", "ge")


# ------------------------------------------------- independent property oracle: Optional (python)
def oracle_O(ops, mvz, stats=None):
    """Value-type reference semantics, written independently of the Coq model.
    Returns the list of (out, dump) per step, plus the closing step."""
    st = [None] * NS                    # None = no wrapper; else [isU, value-or-None]

    def dump():
        return ",".join("-" if w is None else ("U" if w[0] else "T") + ("e" if w[1] is None else "v%d" % w[1]) for w in st)

    def moved(x):
        return None if x is None else (0 if mvz else x)

    res = []
    env = {}                            # getEnvVar.h: variable name -> string id (0 = the empty string)
    pv = {}                             # named payload variables of the client (arguments of value operations)
    for tok in ops:
        f = tok.split(":")
        c = f[0]
        if c == "sv":
            pv[int(f[1])] = int(f[2]); res.append(("ok", dump())); continue
        if c == "vr":
            res.append(("val=%s" % (pv[int(f[1])] if int(f[1]) in pv else "none"), dump())); continue
        if c == "vu":
            # member (0 Optional(const T&), 1 emplace, 2 operator=(U&&), 3 make_optional) applied to slot with variable k passed as
            # category 0 prvalue copy / 1 xvalue / 2 const lvalue / 3 non-const lvalue: only an xvalue handed to a forwarding
            # member (emplace, make_optional) may end moved-from; lvalues are never modified
            m, slot, k, cat = int(f[1]), int(f[2]), int(f[4]), int(f[5])
            out = "ok"
            if k not in pv: out = "ill"
            elif m in (0, 3):
                if st[slot] is not None: out = "ill"
                else: st[slot] = [False, pv[k]]
            else:
                if st[slot] is None or st[slot][0]: out = "ill"
                else: st[slot][1] = pv[k]
            if out == "ok" and m in (1, 3) and cat == 1 and mvz: pv[k] = 0
            if stats is not None and out == "ok": stats[("vu%d" % m, "cat%d" % cat, "")] = stats.get(("vu%d" % m, "cat%d" % cat, ""), 0) + 1
            res.append((out, dump())); continue
        if c in ("es", "eu"):
            if c == "es": env[int(f[1])] = int(f[2])
            else: env.pop(int(f[1]), None)
            res.append(("ok", dump()))
            continue
        i = int(f[1])
        out = "ok"
        wi = st[i]
        if c == "gv":
            k, sid = int(f[2]), env.get(int(f[3]))
            if wi is not None: out = "ill"
            else:
                # engaged iff the variable is set (also when set to ""); value = atoi / (float)atof / the string itself
                val = None if sid is None else (4 * sid if k == 0 else (1 if sid == 1 else 4 * sid) if k == 1 else sid)
                st[i] = [k == 1, val]
        elif c in ("cd", "cv", "mk"):
            if wi is not None: out = "ill"
            else: st[i] = [f[2] == "1", None if c == "cd" else int(f[3])]
        elif c in ("cc", "cm", "xc", "xm"):
            j = int(f[2]); wj = st[j]
            conv, mv = c[0] == "x", c[1] == "m"
            if wi is not None or wj is None or (conv and not wj[0]): out = "ill"
            else:
                if stats is not None: stats[(c, "engaged" if wj[1] is not None else "empty", "new")] = stats.get((c, "engaged" if wj[1] is not None else "empty", "new"), 0) + 1
                st[i] = [False if conv else wj[0], wj[1]]
                if mv: wj[1] = moved(wj[1])
        elif wi is None:
            out = "ill"
        elif c == "d": st[i] = None
        elif c == "av": wi[1] = int(f[2])
        elif c in ("ac", "am", "xac", "xam"):
            j = int(f[2]); wj = st[j]
            conv, mv = c[0] == "x", c[-1] == "m"
            if wj is None: out = "ill"
            elif conv and not (not wi[0] and wj[0]): out = "ill"
            elif not conv and (wi[0] != wj[0] or (mv and i == j)): out = "ill"
            else:
                if stats is not None:
                    k = (c, "engaged" if wj[1] is not None else "empty", "engaged" if wi[1] is not None else "empty")
                    stats[k] = stats.get(k, 0) + 1
                x = wj[1]
                wi[1] = x
                if mv and not conv: wj[1] = moved(x)       # operator=(Optional<U>&&) copies
        elif c in ("adr", "edr"):
            # the argument is the payload of another wrapper ( *j, or std::move( *j ) when f[3] == 1 )
            j = int(f[2]); wj = st[j]
            if wj is None or wi[0] != wj[0] or wj[1] is None or (c == "edr" and i == j): out = "ill"
            else:
                wi[1] = wj[1]
                if c == "edr" and f[3] == "1": wj[1] = moved(wj[1])     # only emplace forwards; value() = rhs copies
        elif c == "em": wi[1] = int(f[2])
        elif c == "rs": wi[1] = None
        elif c == "hv": out = "true" if wi[1] is not None else "false"
        elif c == "val": out = "val=none" if wi[1] is None else "val=%d" % wi[1]
        elif c == "vo": out = "val=%d" % (wi[1] if wi[1] is not None else int(f[2]))
        elif c == "str": out = "str"
        elif c in CMPS:
            wj = st[int(f[2])]
            if wj is None: out = "ill"
            else:
                x, y = wi[1], wj[1]
                both = x is not None and y is not None
                if both:
                    x, y = x // 4, y // 4               # the payload's operators compare keys
                r = {"eq": both and x == y, "ne": not (both and x == y), "lt": both and x < y, "le": both and x <= y,
                     "gt": both and x > y, "ge": both and x >= y}[c]
                out = "true" if r else "false"
        else:
            out = "badop"
        res.append((out, dump()))
    for i in range(NS):
        st[i] = None
    res.append(("end", dump()))
    return res


def lifecycle_ok(events):
    """events: list like C0 D1 A0 X0 R1 M2 — per slot: construct/destroy alternate, payload ops only while constructed."""
    live = {}
    for e in events:
        k, s = e[0], e[1:]
        l = live.get(s, False)
        if k in "CD":
            if l: return False
            live[s] = True
        elif k == "X":
            if not l: return False
            live[s] = False
        elif not l:
            return False
    return not any(live.values())


def check_O(ops, line, full, mvz):
    """Judge the implementation's own output line against the property.  Returns (ok, reason, required)."""
    exp = oracle_O(ops, mvz)
    req = " ; ".join(o + "|" + d for o, d in exp)
    if "!" in line:
        return False, "lifetime/alignment misuse flagged by the instrumented payload: " + ",".join(sorted(set(re.findall(r"![A-Za-z-]+(?:@\w+)?", line)))), req
    steps = line.split(" ; ")
    if len(steps) != len(exp):
        return False, "harness produced %d steps for %d (died?)" % (len(steps), len(exp)), req
    events = []
    for s, (o, d) in zip(steps, exp):
        p = s.split("|")
        if len(p) != (3 if full else 2):
            return False, "malformed step %r" % s, req
        got_d = p[-1]
        if full:
            events += [e for e in p[1].split(",") if e]
            # live suffix must agree with the flag: vN..L / e..R
            for w in got_d.split(","):
                if w != "-" and not ((w[1] == "v" and w.endswith("L")) or (w[1] == "e" and w.endswith("R"))):
                    return False, "storage liveness disagrees with hasValue: %s" % w, req
            got_d = ",".join(w if w == "-" else w[:-1] for w in got_d.split(","))
        if p[0] != o or got_d != d:
            return False, "observable state differs from the value semantics at step %r (required %s|%s)" % (s, o, d), req
    if full in (True, "full") and not lifecycle_ok(events):
        return False, "payload events are not a legal construct/destroy lifecycle: " + ",".join(events), req
    return True, "", req


# ------------------------------------------------- independent property oracle: Any (python)
def peqv(t, x, y):
    """the payload's own operator== (independent restatement): tag 6 = double with +0.0 (0), -0.0 (1), NaN (2);
    tag 7 = {key, shadow} compared on key (code = 16*key + shadow)"""
    if t == 6:
        return x != 2 and y != 2 and (x == y or (x <= 1 and y <= 1))
    if t == 7:
        return x // 16 == y // 16
    return x == y


def oracle_A(ops, stats=None):
    st = [None] * NS                # None = dead, "e" = empty, (t, v)
    def bump(k):
        if stats is not None: stats[k] = stats.get(k, 0) + 1
    def dump():
        return ",".join("-" if w is None else ("e" if w == "e" else "%d:%d" % w) for w in st)
    res = []
    for tok in ops:
        f = tok.split(":"); c = f[0]; i = int(f[1]); wi = st[i]; out = "ok"
        if c in ("cd", "cv", "cc", "mc"):           # mc: Any has no move constructor, an rvalue is copied
            if wi is not None: out = "ill"
            elif c == "cd": st[i] = "e"
            elif c == "cv": st[i] = (int(f[2]), int(f[3])); bump("new_handle")
            else:
                wj = st[int(f[2])]
                if wj is None: out = "ill"
                else:
                    st[i] = wj
                    if wj != "e": bump("clone")
        elif wi is None: out = "ill"
        elif c == "d": st[i] = None
        elif c == "av": st[i] = (int(f[2]), int(f[3])); bump("new_handle")
        elif c in ("ac", "ma", "eq", "ne"):           # ma: no move assignment either
            wj = st[int(f[2])]
            if wj is None: out = "ill"
            elif c in ("ac", "ma"):
                st[i] = wj
                if wj != "e": bump("clone")
            else:
                if wi == "e" or wj == "e": r = (wi == "e" and wj == "e")
                else:
                    r = wi[0] == wj[0] and wi[0] != 4 and peqv(wi[0], wi[1], wj[1])
                    bump("isSame_noeq" if wi[0] == 4 else "isSame_eq")
                out = "true" if (r if c == "eq" else not r) else "false"
        elif c == "get":
            out = "val=%d" % wi[1] if wi != "e" and wi[0] == int(f[2]) else "throw"
            bump("get_ok" if out != "throw" else "get_throw")
        elif c == "set":
            if wi != "e" and wi[0] == int(f[2]): st[i] = (wi[0], int(f[3]))
            else: out = "throw"
        elif c == "is": out = "true" if wi != "e" and wi[0] == int(f[2]) else "false"
        elif c == "valid": out = "true" if wi != "e" else "false"
        elif c == "str": out = "str=empty" if wi == "e" else "str=%d" % wi[0]
        else: out = "badop"
        res.append(out + "|" + dump())
    res.append("end|" + ",".join(["-"] * NS) + "|outstanding=0")
    return " ; ".join(res)


def check_A(ops, line):
    req = oracle_A(ops)
    if "!" in line:
        return False, "lifetime misuse flagged by the instrumented payload", req
    if line != req:
        return False, "Any's observable behaviour differs from the value semantics (or a holder is leaked / freed twice)", req
    return True, "", req


# ------------------------------------------------------------------ generators
ENV_SIDS = {0: [0, 0, 1, 2, 3, 5, 9], 1: [0, 0, 1, 1, 2, 3, 6], 2: [0, 0, 4, 8, 12, 20]}


def gen_O(r, maxlen, env=None, vals=False):
    """env: None, or the getEnvVar kind (0 int, 1 float, 2 string) whose operations are mixed into the history;
    vals: mix in value operations whose argument is a named variable / another wrapper's payload, in every value category"""
    vset = set()
    alive = [None] * NS            # None or isU
    eng = [False] * NS             # generator's own guess, only used to bias towards interesting sources
    ops = []
    n = r.randint(2, maxlen)
    while len(ops) < n:
        i = r.randrange(NS)
        v = r.choice([0] + list(range(1, 100)) * 3) if r.random() < 0.1 else r.randint(1, 99)
        others = [j for j in range(NS) if alive[j] is not None]
        if vals and r.random() < 0.30:
            c = r.random()
            k = r.randrange(2)
            tw = [j for j in range(NS) if alive[j] is False]          # living wrappers of payload type T
            free = [j for j in range(NS) if alive[j] is None]
            if c < 0.22 or not vset:
                ops.append("sv:%d:%d" % (k, v)); vset.add(k)
            elif c < 0.40:
                ops.append("vr:%d" % r.choice(sorted(vset)))
            elif c < 0.55 and free:
                j = r.choice(free)
                ops.append("vu:%d:%d:0:%d:%d" % (r.choice([0, 3]), j, r.choice(sorted(vset)), r.randrange(4)))
                alive[j] = False; eng[j] = True
            elif c < 0.80 and tw:
                j = r.choice(tw)
                ops.append("vu:%d:%d:0:%d:%d" % (r.choice([1, 2]), j, r.choice(sorted(vset)), r.randrange(4))); eng[j] = True
                if r.random() < 0.6: ops.append("vr:%d" % r.choice(sorted(vset)))
            else:
                same = [(a_, b_) for a_ in range(NS) for b_ in range(NS) if alive[a_] is not None and alive[a_] == alive[b_] and eng[b_]]
                if same:
                    a_, b_ = r.choice(same)
                    ops.append("%s:%d:%d:%d" % (r.choice(["adr", "edr"]), a_, b_, r.randrange(2))); eng[a_] = True
                    ops.append("val:%d" % b_)
            continue
        if env is not None and r.random() < 0.18:
            n = r.randrange(3)
            ops.append("es:%d:%d" % (n, r.choice(ENV_SIDS[env])) if r.random() < 0.7 else "eu:%d" % n)
            continue
        if alive[i] is None:
            c = r.random()
            if env is not None and r.random() < 0.45:
                ops.append("gv:%d:%d:%d" % (i, env, r.choice([0, 1, 2, 0, 1, 7])))     # name 7 is never set
                alive[i] = env == 1; eng[i] = r.random() < 0.5
            elif c < 0.25 or not others:
                u = 1 if r.random() < 0.35 else 0
                k = r.choice(["cd", "cd", "cv", "cv", "mk"])
                ops.append("%s:%d:%d" % (k, i, u) if k == "cd" else "%s:%d:%d:%d" % (k, i, u, v))
                alive[i] = bool(u); eng[i] = k != "cd"
            else:
                j = r.choice(others)
                if alive[j] and r.random() < 0.5:
                    k = r.choice(["xc", "xm"]); alive[i] = False
                else:
                    k = r.choice(["cc", "cm"]); alive[i] = alive[j]
                ops.append("%s:%d:%d" % (k, i, j)); eng[i] = eng[j]
            continue
        c = r.random()
        if c < 0.30 and others:
            same = [j for j in others if alive[j] == alive[i] and j != i]
            us = [j for j in others if alive[j]]
            # prefer an EMPTY source half of the time when one exists
            def pick(cands):
                emp = [j for j in cands if not eng[j]]
                return r.choice(emp) if emp and r.random() < 0.5 else r.choice(cands)
            if not alive[i] and us and r.random() < 0.4:
                j = pick(us); k = r.choice(["xac", "xam"])
            elif same:
                j = pick(same); k = r.choice(["ac", "am"])
            elif r.random() < 0.5:
                j = i; k = "ac"                      # self-assignment
            else:
                j = r.choice(others); k = r.choice(["ac", "am", "xac"])      # possibly ill-formed: both sides say "ill"
            ops.append("%s:%d:%d" % (k, i, j)); eng[i] = eng[j]
        elif c < 0.40: ops.append("av:%d:%d:%d" % (i, v, 1 if (not alive[i] and r.random() < 0.4) else 0)); eng[i] = True
        elif c < 0.48: ops.append("em:%d:%d" % (i, v)); eng[i] = True
        elif c < 0.58: ops.append("rs:%d" % i); eng[i] = False
        elif c < 0.66: ops.append("d:%d" % i); alive[i] = None; eng[i] = False
        elif c < 0.74: ops.append("val:%d" % i)
        elif c < 0.78: ops.append("hv:%d" % i)
        elif c < 0.83: ops.append("vo:%d:%d" % (i, r.randint(100, 199)))
        elif c < 0.97 and others: ops.append("%s:%d:%d" % (r.choice(CMPS), i, r.choice(others)))
        else: ops.append("str:%d" % i)
    return "O " + " ".join(ops)


ALPHA_O = ["cd:0:0", "cv:0:0:5", "cd:1:0", "cv:1:0:7", "cv:2:1:6", "cd:2:1", "cc:1:0", "cm:1:0", "xc:1:2", "xm:1:2",
           "ac:0:1", "am:0:1", "ac:1:0", "am:1:0", "ac:0:0", "xac:0:2", "xam:0:2", "rs:0", "rs:2", "em:0:3", "av:0:4:0",
           "av:0:8:1", "d:0", "d:1", "val:0", "val:1", "eq:0:1", "lt:0:2", "ne:1:1", "mk:3:0:9", "vo:1:150"]
ALPHA_O2 = ["cc:3:0", "cm:3:1", "cm:3:0", "xc:3:2", "xm:3:2", "ac:0:1", "am:0:1", "ac:1:0", "am:1:0", "ac:1:1", "xac:0:2",
            "xam:1:2", "xac:1:2", "rs:0", "rs:2", "em:1:3", "av:1:4:0", "d:0", "d:1", "d:2", "val:0", "val:1", "val:2",
            "eq:0:1", "ge:1:2", "ne:1:0", "le:2:2", "am:3:0", "ac:3:1", "val:3", "hv:0", "str:1"]


ALPHA_KS = ["cv:0:0:4", "cv:1:0:6", "cd:1:0", "cv:2:1:5", "ac:0:1", "am:0:1", "ac:1:0", "xac:0:2", "xam:0:2", "cc:3:0", "cm:3:1",
            "xc:3:2", "em:0:7", "av:0:5:0", "av:0:6:1", "rs:1", "val:0", "val:1", "eq:0:1", "le:0:2", "ne:1:2", "vo:1:7",
            "mk:3:0:4", "d:0"]


def alpha_env(kind):
    a, b = {0: (3, 5), 1: (1, 2), 2: (4, 8)}[kind]
    ty = 1 if kind == 1 else 0
    return ["es:0:0", "es:0:%d" % a, "es:1:%d" % b, "eu:0", "gv:0:%d:0" % kind, "gv:1:%d:1" % kind, "gv:2:%d:7" % kind, "gv:1:%d:0" % kind,
            "hv:0", "val:0", "val:1", "val:2", "cv:3:%d:8" % ty, "ac:0:3", "am:1:0", "cc:3:0", "eq:0:1", "d:0", "rs:0", "vo:0:40", "ac:0:1"]


# move-only payload: the members of Optional that can be instantiated without copying the payload
ALPHA_MOV = ["cd:0:0", "mk:0:0:4", "mk:1:0:9", "cd:1:0", "em:0:12", "em:1:6", "cm:2:0", "cm:2:1", "cm:3:2", "am:0:1", "am:1:0", "am:0:2",
             "am:2:0", "rs:0", "rs:1", "d:0", "d:2", "hv:0", "val:0", "val:1", "val:2", "eq:0:1", "lt:0:2", "ne:1:1", "str:0"]


# value operations with an observable argument (named variable 0; the payload of wrapper 1), each value category
ALPHA_VAL = ["sv:0:5", "sv:0:9", "cd:0:0", "cv:1:0:7", "vu:0:2:0:0:3", "vu:0:2:0:0:1", "vu:3:2:0:0:3", "vu:3:2:0:0:1", "vu:1:0:0:0:3",
             "vu:1:0:0:0:1", "vu:1:0:0:0:2", "vu:2:0:0:0:3", "vu:2:0:0:0:1", "vu:2:1:0:0:0", "vr:0", "adr:0:1:0", "adr:0:1:1", "edr:0:1:0",
             "edr:0:1:1", "val:1", "val:0", "d:2", "adr:1:1:0"]


def exhaustive_O(n1, n2):
    for n in range(1, n1 + 1):
        for t in itertools.product(ALPHA_O, repeat=n):
            yield "O " + " ".join(t)
    pre = "O cv:0:0:5 cd:1:0 cv:2:1:6 "
    for n in range(1, n2 + 1):
        for t in itertools.product(ALPHA_O2, repeat=n):
            yield pre + " ".join(t)


def gen_A(r, maxlen):
    alive = [False] * NS
    ops = []
    n = r.randint(2, maxlen)
    while len(ops) < n:
        i = r.randrange(NS); t = r.choice([0, 1, 2, 3, 4, 5, 6, 6, 6, 7, 7]); v = r.randint(1, 60)
        if t == 6: v = r.choice([0, 1, 2, 0, 1, 2, 3, 5])                 # +0.0, -0.0, NaN, ordinary
        if t == 7: v = 16 * r.randint(1, 2) + r.randint(0, 3)             # few keys, several shadows
        others = [j for j in range(NS) if alive[j]]
        if not alive[i]:
            c = r.random()
            if c < 0.3: ops.append("cd:%d" % i)
            elif c < 0.7 or not others: ops.append("cv:%d:%d:%d" % (i, t, v))
            else: ops.append("%s:%d:%d" % (r.choice(["cc", "cc", "mc"]), i, r.choice(others)))
            alive[i] = True
            continue
        c = r.random()
        j = r.choice(others)
        if c < 0.12: ops.append("av:%d:%d:%d" % (i, t, v))
        elif c < 0.22: ops.append("ac:%d:%d" % (i, j))
        elif c < 0.26: ops.append("ma:%d:%d" % (i, j))
        elif c < 0.40: ops.append("get:%d:%d" % (i, t))
        elif c < 0.52: ops.append("set:%d:%d:%d" % (i, t, v))
        elif c < 0.58: ops.append("is:%d:%d" % (i, t))
        elif c < 0.63: ops.append("valid:%d" % i)
        elif c < 0.78: ops.append("eq:%d:%d" % (i, j))
        elif c < 0.85: ops.append("ne:%d:%d" % (i, j))
        elif c < 0.92: ops.append("str:%d" % i)
        else: ops.append("d:%d" % i); alive[i] = False
    return "A " + " ".join(ops)


ALPHA_A = ["mc:2:0", "mc:2:1", "ma:1:0", "ma:0:1", "cd:0", "cv:0:0:5", "cv:1:0:5", "cv:1:2:5", "cv:2:4:5", "cc:1:0", "cc:2:0", "ac:0:1", "ac:1:0", "ac:0:0", "av:0:2:7",
           "get:0:0", "get:0:2", "get:1:0", "set:1:0:9", "set:0:0:9", "eq:0:1", "eq:1:0", "ne:0:1", "eq:0:0", "eq:2:2", "str:0",
           "str:1", "d:0", "valid:0", "is:0:0",
           "cv:0:6:0", "cv:1:6:1", "cv:0:6:2", "cv:1:6:2", "get:0:6", "cv:0:7:17", "cv:1:7:18", "get:0:7", "ac:1:1", "ne:1:1"]


def exhaustive_A(n):
    for k in range(1, n + 1):
        for t in itertools.product(ALPHA_A, repeat=k):
            yield "A " + " ".join(t)


def load_corpus(ctx):
    p = os.path.join(ctx.verif, "corpus", "C09", "cases.txt")
    if not os.path.exists(p):
        return []
    return [l.strip() for l in open(p) if l.strip() and not l.startswith("#")]


# ------------------------------------------------------------------ judging one implementation run

# ------------------------------------------------- exceptions thrown by payload operations (python oracle)
class _Thrown(Exception):
    pass


class _W:                              # a wrapper of the throwing payload: live payload (code or None) and the flag
    def __init__(self):
        self.live, self.hv = None, False


def oracle_X(ops):
    """Statement-order semantics of the members of Optional.h when the n-th payload construction / assignment at the
    wrapper's storage throws (th:n plants n for the next step).  Independent restatement of the order the source has:
      reset():   if (has_value()) ~T();  hasValue = false
      dcsin():   if (!has_value()) { new T(); hasValue = true }
      emplace(): reset();  new T(arg);  hasValue = true
      op=(U&&):  dcsin();  value() = arg;  hasValue = true
      wrapper op=: if (other) { dcsin(); value() = other.value(); hasValue = true } else reset()
      copy ctor: Optional(); if (other) *this = other.value()      move ctor: Optional(); if (other) emplace(move(other.value()))
    Returns (steps, zidx): steps = [(out, dump)] with dump entries T v<code>L | eR | eL | vXR; zidx = the step after which a payload
    is ALIVE WITHOUT THE FLAG (cannot happen with the repaired helper; with the helper before 4e05296 it did: from there on the
    trace is only compared up to that step - the state itself is a plain violation)."""
    st = [None] * NS
    cnt = [0]
    zombie = [False]
    zidx = [None]                      # number of steps up to and including the one that left a payload alive without the flag
    lost = [0]                         # payloads alive in a slot whose wrapper is gone (leaked for good)

    def pay():
        if cnt[0] > 0:
            cnt[0] -= 1
            if cnt[0] == 0:
                raise _Thrown()

    def reset(w):
        if w.hv: w.live = None
        w.hv = False

    def dcsin(w):
        if not w.hv:
            pay(); w.live = 0; w.hv = True          # the helper raises the flag as soon as the T() exists

    def emplace(w, v):
        reset(w); pay(); w.live = v; w.hv = True

    def assignv(w, v):
        dcsin(w); pay(); w.live = v; w.hv = True

    def dump():
        out = []
        for w in st:
            if w is None: out.append("-")
            elif w.hv: out.append("Tv%dL" % w.live if w.live is not None else "TvXR")
            else: out.append("TeL" if w.live is not None else "TeR")
        return ",".join(out)

    res = []
    planted = 0
    for tok in ops:
        f = tok.split(":")
        c = f[0]
        if c == "th":
            planted = int(f[1]); res.append(("ok", dump())); continue
        cnt[0], planted = planted, 0
        i = int(f[1]); wi = st[i]; out = "ok"
        try:
            if c in ("cd", "cv", "cc", "cm"):
                if wi is not None: out = "ill"
                elif c == "cd": st[i] = _W()
                elif c == "cv":
                    w = _W(); emplace(w, int(f[3])); st[i] = w                 # (a throwing constructor: no wrapper)
                else:
                    wj = st[int(f[2])]
                    if wj is None: out = "ill"
                    else:
                        w = _W()                                               # Optional() completed: ~Optional runs if the body throws
                        try:
                            if wj.hv:
                                if c == "cc": assignv(w, wj.live)
                                else:
                                    emplace(w, wj.live); wj.live = 0
                            st[i] = w
                        except _Thrown:
                            reset(w)
                            if w.live is not None: zombie[0] = True; lost[0] += 1
                            raise
            elif wi is None: out = "ill"
            elif c == "d": reset(wi); st[i] = None; lost[0] += 1 if wi.live is not None else 0
            elif c == "av": assignv(wi, int(f[2]))
            elif c == "em": emplace(wi, int(f[2]))
            elif c == "rs": reset(wi)
            elif c in ("ac", "am"):
                wj = st[int(f[2])]
                if wj is None or (c == "am" and i == int(f[2])): out = "ill"
                elif wj.hv:
                    v = wj.live
                    assignv(wi, v)
                    if c == "am": wj.live = 0
                else: reset(wi)
            elif c == "hv": out = "true" if wi.hv else "false"
            elif c == "val": out = "val=none" if not wi.hv else "val=%d" % wi.live
            else: out = "badop"
        except _Thrown:
            out = "throw"
        cnt[0] = 0
        for w in st:
            if w is not None and w.live is not None and not w.hv: zombie[0] = True
        res.append((out, dump()))
        if zombie[0] and zidx[0] is None: zidx[0] = len(res)
    return res, zidx[0]


def check_X(ops, line):
    """-> (valid, tie, reason, required): valid = the property holds on the implementation's own output (after every caught
    exception the wrapper is in a valid state: flag => live payload, no payload operation on dead storage, everything that
    was constructed is destroyed exactly once); tie = the output equals the statement-order semantics"""
    exp, zombie = oracle_X(ops)
    req = " ; ".join(o + "|" + d for o, d in exp) + " ; end|" + ",".join(["-"] * NS)
    steps = line.split(" ; ")
    got = []
    for s_ in steps:
        p = s_.split("|")
        got.append((re.sub(r"!.*", "", p[0]), re.sub(r"!MISALIGNED", "", p[-1])) if len(p) == 3 else ("?", s_))
    valid = "!" not in line and "vXR" not in line and "XR" not in line
    reason = ""
    if not valid:
        reason = "after a caught payload exception: " + ",".join(sorted(set(re.findall(r"![A-Za-z-]+(?:\([0-9/]+\))?(?:@\w+)?|T[ve]XR|TvXR", line)))[:4])
    if zombie is not None:             # from there on the leaked object makes the rest of the trace meaningless: compare the prefix
        tie = len(got) >= zombie and all(g == e for g, e in zip(got[:zombie], exp[:zombie]))
    else:
        tie = len(got) == len(exp) + 1 and all(g == e for g, e in zip(got, exp))
    return valid, tie, reason, req, zombie is not None


ALPHA_X = ["cd:0:0", "cv:0:0:20", "cv:1:0:28", "cd:1:0", "th:1", "th:2", "em:0:12", "av:0:16:0", "ac:0:1", "am:0:1", "ac:1:0", "cc:2:0", "cm:2:1",
           "rs:0", "d:0", "val:0", "hv:0", "em:1:8"]


def gen_X(r):
    ops = []
    for _ in range(r.randint(3, 14)):
        ops.append(r.choice(ALPHA_X + ["th:1", "th:2", "th:3"]))
    return "O " + " ".join(ops)


def exception_stage(ctx, exe, exe_odd, counters):
    """EXCEPTIONS from payload operations: every member that runs a payload operation, with the throw planted at that operation"""
    r = ctx.rng("throw")
    cases = ["O " + " ".join(t) for n in range(2, 4) for t in itertools.product(ALPHA_X, repeat=n) if any(x.startswith("th") for x in t)] + \
        [gen_X(r) for _ in range(ctx.pick(1500, 12000))]
    acases = []
    ra = ctx.rng("throw-any")
    for _ in range(ctx.pick(1200, 8000)):
        ops = gen_A(ra, 16).split()[1:]
        out = []
        for t in ops:
            if t.split(":")[0] in ("cv", "av", "cc", "ac", "mc", "ma") and ra.random() < 0.35:
                out.append("th:1")
            out.append(t)
        acases.append("A " + " ".join(out))
    tally(counters, cases, 2, "O")
    planted_hits = {}
    for label, ex in (("Optional<throwing payload>", exe), ("Optional<throwing payload>@odd-offset", exe_odd)):
        rc, lines, err = vlib.run_lines(ctx, ex, ["trk"], cases)
        ctx.count(len(cases))
        bad = None
        ties = None
        for i, c in enumerate(cases):
            il = lines[i] if i < len(lines) else "<no output: harness died>"
            ops = c.split()[1:]
            valid, tie, reason, req, zombie = check_X(ops, il)
            if "throw" in il:
                for t_, s_ in zip(ops[1:], il.split(" ; ")[1:]):
                    if s_.startswith("throw"):
                        planted_hits[t_.split(":")[0]] = planted_hits.get(t_.split(":")[0], 0) + 1
                ctx.nontriv("X" + c)
            if not valid and bad is None: bad = (i, il, reason, req)
            if valid and not tie and ties is None: ties = (i, il, req)
        if rc != 0 and bad is None:
            n = len(lines)
            bad = (min(n, len(cases) - 1), "<harness died rc=%d>" % rc, "harness died rc=%d (sanitizer report / crash on the real code)" % rc, None)
        if bad is not None and len(ctx.violations) < VIOLATION_CAP:
            i, il, reason, req = bad

            def fails(ops, ex=ex):
                l = "O " + " ".join(ops)
                rc2, out2, _ = ctx.run_exe(ex, ["trk"], stdin=l + "\n", timeout=60)
                v, t, _, _, z = check_X(ops, out2.strip("\n")) if rc2 == 0 else (False, False, "", "", False)
                return not v
            small = vlib.shrink_list(cases[i].split()[1:], fails)
            sl = "O " + " ".join(small)
            rc2, out2, err2 = ctx.run_exe(ex, ["trk"], stdin=sl + "\n", timeout=60)
            v, t, reason2, req2, z = check_X(small, out2.strip("\n")) if rc2 == 0 else (False, False, "harness died rc=%d" % rc2, None, False)
            ctx.violation("Optional history with a throwing payload operation [%s]: %s" % (label, reason2 or reason),
                          {"label": label, "harness_args": ["trk"], "case": sl, "observed": out2.strip("\n"), "required": req2 or req,
                           "rc": rc2, "stderr_tail": err2[-1200:], "original_case": cases[i]})
        elif ties is not None:
            i, il, req = ties
            ctx.broken.append("correspondence C09 statement-order exception semantics vs %s on case %r: impl=%r expected=%r (state valid)"
                              % (label, cases[i], il[:300], req[:300]))
    need = ("cv", "em", "av", "ac", "am", "cc", "cm")
    miss = [k for k in need if not planted_hits.get(k)]
    if miss:
        ctx.broken.append("generator coverage: no exception was raised inside: " + ", ".join(miss))
    ctx.cov["exceptions_raised_in"] = planted_hits
    # ---- Any: strong guarantee - a throwing payload operation leaves the Any (and the source) exactly as it was
    if acases:
        rc, lines, err = vlib.run_lines(ctx, exe, ["trk"], acases)
        ctx.count(len(acases))
        tally(counters, acases, 1, "A")
        for i, c in enumerate(acases):
            il = lines[i] if i < len(lines) else "<no output: harness died>"
            req = oracle_AX(c.split()[1:])
            if il != req:
                if len(ctx.violations) < VIOLATION_CAP:
                    ctx.violation("Any history with a throwing payload operation: state after the caught exception differs from the unchanged state "
                                  "(or a holder leaked)", {"label": "Any", "harness_args": ["trk"], "case": c, "observed": il, "required": req})
                break


def oracle_AX(ops):
    """Any with th:1 planted: every value operation of Any allocates the new holder before it touches currentValue, so a throwing
    payload constructor leaves the target (and the source) unchanged; payload types whose operations cannot throw ignore the plant"""
    st = [None] * NS
    def dump():
        return ",".join("-" if w is None else ("e" if w == "e" else "%d:%d" % w) for w in st)
    res = []
    planted = False
    for tok in ops:
        f = tok.split(":"); c = f[0]
        if c == "th":
            planted = True; res.append("ok|" + dump()); continue
        p, planted = planted, False
        i = int(f[1]); wi = st[i]
        throws = False
        if p:
            if c in ("cv", "av") and int(f[2]) in (4, 5): throws = not (c == "cv" and wi is not None) and not (c == "av" and wi is None)
            if c in ("cc", "mc", "ac", "ma"):
                wj = st[int(f[2])]
                ok_form = (wi is None) if c in ("cc", "mc") else (wi is not None)
                throws = ok_form and wj is not None and wj != "e" and wj[0] in (4, 5)
        if throws:
            res.append("throw|" + dump()); continue
        sub_state = list(st)
        line = _oracle_A_from(sub_state, tok)
        st = sub_state
        res.append(line + "|" + dump())
    res.append("end|" + ",".join(["-"] * NS) + "|outstanding=0")
    return " ; ".join(res)


def _oracle_A_from(st, tok):
    f = tok.split(":"); c = f[0]; i = int(f[1]); wi = st[i]; out = "ok"
    if c in ("cd", "cv", "cc", "mc"):
        if wi is not None: out = "ill"
        elif c == "cd": st[i] = "e"
        elif c == "cv": st[i] = (int(f[2]), int(f[3]))
        else:
            wj = st[int(f[2])]
            if wj is None: out = "ill"
            else: st[i] = wj
    elif wi is None: out = "ill"
    elif c == "d": st[i] = None
    elif c == "av": st[i] = (int(f[2]), int(f[3]))
    elif c in ("ac", "ma", "eq", "ne"):
        wj = st[int(f[2])]
        if wj is None: out = "ill"
        elif c in ("ac", "ma"): st[i] = wj
        else:
            if wi == "e" or wj == "e": r = (wi == "e" and wj == "e")
            else: r = wi[0] == wj[0] and wi[0] != 4 and peqv(wi[0], wi[1], wj[1])
            out = "true" if (r if c == "eq" else not r) else "false"
    elif c == "get": out = "val=%d" % wi[1] if wi != "e" and wi[0] == int(f[2]) else "throw"
    elif c == "set":
        if wi != "e" and wi[0] == int(f[2]): st[i] = (wi[0], int(f[3]))
        else: out = "throw"
    elif c == "is": out = "true" if wi != "e" and wi[0] == int(f[2]) else "false"
    elif c == "valid": out = "true" if wi != "e" else "false"
    elif c == "str": out = "str=empty" if wi == "e" else "str=%d" % wi[0]
    else: out = "badop"
    return out


# ------------------------------------------------------------------ robustness: isolated stages, oracle-only mode, budgets
BUDGET_S = 225            # wall-clock budget of the whole run; stages starting later are skipped (recorded as broken)
VIOLATION_CAP = 14        # concrete inputs shrunk and reported per run; further mismatching labels are only named
NOMODEL_CAP = 8000        # cases per list judged by the python oracle alone when the executable model is missing
REPO_SRC_WIDE = ["rkcommon/utility/demangle.cpp", "rkcommon/common.cpp", "rkcommon/os/library.cpp"]


def over_budget(ctx):
    # the budget is for the quick tier; the thorough tier runs 10-20x more cases and gets 12x the time
    return time.time() - ctx.t0 > BUDGET_S * (12 if ctx.thorough() else 1)


def stage(ctx, name, fn):
    """run one stage of the check; an exception or an exhausted budget is recorded, never propagated"""
    if over_budget(ctx):
        ctx.broken.append("time budget of %d s exhausted: stage '%s' skipped" % (BUDGET_S, name))
        return None
    try:
        return fn()
    except Exception as ex:
        tb = traceback.format_exc().strip().split("\n")
        ctx.broken.append("stage '%s' raised %r (%s)" % (name, ex, tb[-3].strip() if len(tb) >= 3 else ""))
        ctx.log("stage '%s' raised:\n%s" % (name, "\n".join(tb[-8:])))
        return None


def diff(ctx, cases, model, impls, model_args, full, mvz):
    """model-vs-code comparison; without an executable model the implementation's own output is judged by the independent
    python oracle (on a capped prefix of the case list), so a behavioural change still yields a concrete input"""
    if model:
        return vlib.differential(ctx, cases, model, impls, model_args=model_args)
    sub = cases[:NOMODEL_CAP]
    mism, crashes = [], {}
    for label, exe, args in impls:
        rc, ilines, ierr = vlib.run_lines(ctx, exe, list(args), sub)
        if rc != 0:
            crashes[label] = (rc, ierr[-3000:], len(ilines))
        for i, c in enumerate(sub):
            il = ilines[i] if i < len(ilines) else "<no output: harness died>"
            ops = c.split()[1:]
            ok = (check_O(ops, il, full, mvz) if c[0] == "O" else check_A(ops, il))[0]
            if not ok:
                mism.append((i, label, il, "<no executable model: judged by the python oracle>"))
    return mism, crashes, []

def judge(ctx, what, cases, exe, hargs, full, mvz, mism, crashes, label, seen_budget=2):
    """Turn mismatches / crashes of one harness run into violations (oracle fails on the implementation's own
    output -> shrink -> concrete history) or broken correspondences (oracle satisfied)."""
    def run1(line):
        rc, out, err = ctx.run_exe(exe, hargs, stdin=line + "\n", timeout=60)
        return rc, out.strip("\n"), err

    def verdict(line, rc, out):
        ops = line.split()[1:]
        if rc != 0:
            return False, "harness died rc=%d (sanitizer report / crash on the real code)" % rc, None
        if line[0] == "O":
            return check_O(ops, out, full, mvz)
        return check_A(ops, out)

    def report(idx, impl_line, model_line, rc_hint=None, err_hint=""):
        line = cases[idx]
        kind = line[0]
        rc, out, err = run1(line)
        ok, reason, req = verdict(line, rc, out)
        if ok:
            return False

        def fails(ops):
            l = kind + " " + " ".join(ops)
            rc2, out2, _ = run1(l)
            return not verdict(l, rc2, out2)[0]

        small = vlib.shrink_list(line.split()[1:], fails)
        sl = kind + " " + " ".join(small)
        rc, out, err = run1(sl)
        ok, reason, req = verdict(sl, rc, out)
        if req is None:
            req = (" ; ".join(o + "|" + d for o, d in oracle_O(small, mvz)) if kind == "O" else oracle_A(small)) + \
                  "   (and no sanitizer report)"
        ctx.violation("%s [%s]: %s" % (what, label, reason),
                      {"label": label, "harness_args": hargs, "case": sl, "observed": out, "required": req, "rc": rc,
                       "stderr_tail": err[-1500:], "original_case": line, "model": model_line if small == line.split()[1:] else None})
        return True

    done = 0
    if (label in crashes or any(m[1] == label for m in mism)) and (len(ctx.violations) >= VIOLATION_CAP or over_budget(ctx)):
        note = "further failing configuration not shrunk (cap of %d reported inputs / time budget reached): %s" % (VIOLATION_CAP, label)
        if note not in ctx.broken:
            ctx.broken.append(note)
        return
    if label in crashes:
        rc, err, n = crashes[label]
        if n < len(cases):
            if report(n, None, None):
                done += 1
        if not done:
            ctx.violation("%s [%s]: harness died rc=%d" % (what, label, rc), {"label": label, "stderr_tail": err,
                          "case": cases[n] if n < len(cases) else None, "required": "no crash, no sanitizer report"},
                          found_input=n < len(cases))
            done += 1
        return
    mine = [m for m in mism if m[1] == label]
    benign = None
    for (i, _, il, ml) in mine[:40]:
        if done >= seen_budget:
            break
        if report(i, il, ml):
            done += 1
        elif benign is None:
            benign = (i, il, ml)
    if mine and not done and benign is not None:
        i, il, ml = benign
        ctx.broken.append("correspondence C09 model vs %s on case %r: impl=%r model=%r (implementation satisfies the value-type oracle)"
                          % (label, cases[i], il[:300], ml[:300]))


# ------------------------------------------------------------------ source-derived facts (Tie: AST -> gen/Facts.v)
FACT_THMS = {"facts_getenv_specialisations": "env", "facts_getenv_generic_empty": "env_generic", "facts_traits_operator_equals": "traits",
             "facts_optional_members": "table", "facts_optional_comparisons": "cmp", "facts_optional_accessors": "misc",
             "facts_optional_layout": "lay", "facts_any_members": "any", "facts_any_holder_unique": "holder"}


def regen_facts(ctx):
    """Regenerate coq/C09/gen/Facts.v from the clang AST of the working tree (props/C09/factgen.py)."""
    gen_v = os.path.join(ctx.coqdir, "gen", "Facts.v")
    js = os.path.join(ctx.build, "facts.json")
    try:
        factgen.main(["--repo", ctx.repo, "--out", gen_v, "--json", js, "--work", os.path.join(ctx.build, "ast")])
        facts = json.load(open(js))
    except Exception as ex:
        facts = factgen.unknown_facts("fact extraction failed: %r" % (ex,))
        os.makedirs(os.path.dirname(gen_v), exist_ok=True)
        open(gen_v, "w").write(factgen.coq_text(facts))
    if facts.get("notes"):
        ctx.log("fact extractor notes: " + "; ".join(facts["notes"])[:600])
    ctx.cov["source_facts"] = facts
    return facts


def coq_diag(ctx, facts):
    """Which entries of the source-derived tables differ from Micro.v's, and what Micro.v expects there."""
    goals = [("M:" + m, "gen_table %s = model_table %s" % (m, m), "model_table %s" % m) for m in factgen.METHS]
    goals += [("C:" + o, "gen_cmp %s = model_cmp %s" % (o, o), "model_cmp %s" % o) for o in ("CEq", "CNe", "CLt", "CLe", "CGt", "CGe")]
    goals += [("A:" + m, "gen_any %s = model_any %s" % (m, m), "model_any %s" % m) for m in factgen.AMETHS]
    goals += [("E:" + k, "gen_env %s = model_env %s" % (k, k), "model_env %s" % k) for k in ("KInt", "KFloat", "KStr")]
    goals += [("traits", "gen_traits = model_traits", "model_traits"), ("env_generic", "gen_env_generic_empty = true", "true")]
    goals += [("misc", "gen_misc = model_misc", "model_misc"), ("lay", "gen_lay = model_lay", "model_lay"),
              ("holder", "gen_holder = model_holder", "model_holder")]
    lines = ["From Coq Require Import List NArith.", "From C09 Require Import Model Env Micro.", "From C09.gen Require Import Facts.",
             "Import ListNotations."]
    for tag, g, e in goals:
        lines.append('Goal True. first [ assert (%s) by reflexivity; idtac "@@OK %s" | idtac "@@DIFF %s" ]. Abort.' % (g, tag, tag))
    for tag, g, e in goals:
        lines.append('Goal True. idtac "@@EXP %s". Abort.' % tag)
        lines.append("Eval cbv in %s." % e)
    lines.append('Goal True. idtac "@@END". Abort.')
    f = os.path.join(ctx.build, "FactsDiag.v")
    open(f, "w").write("\n".join(lines) + "\n")
    rc, out = vlib.sh(["coqc"] + vlib.coqproject_args(ctx.coqdir) + [f], cwd=ctx.build, timeout=120)
    diff = re.findall(r"@@DIFF (\S+)", out)
    exp = {}
    for m in re.finditer(r"@@EXP (\S+)\n(.*?)(?=@@EXP|@@END)", out, re.S):
        exp[m.group(1)] = " ".join(m.group(2).split())
    if rc != 0 and not diff:
        diff = ["(diagnostic script failed: %s)" % out[-300:]]
    return diff, exp


def source_entry(facts, tag):
    if tag.startswith("M:"):
        e = facts["table"][tag[2:]]
        return "{| mf_fresh := %s; mf_prog := [%s] |}" % ("true" if e["fresh"] else "false", "; ".join(e["prog"]))
    if tag.startswith("C:"):
        return facts["cmp"][tag[2:]]
    if tag.startswith("A:"):
        return "[%s]" % "; ".join(facts["any"][tag[2:]])
    if tag.startswith("E:"):
        return "[%s]" % "; ".join(facts["env"][tag[2:]])
    return json.dumps(facts.get(tag))


def facts_report(ctx, facts, res):
    broken_syn = [t for t in FACT_THMS if not res.get(t)]
    sem_thms = [t for t in res if t.startswith("source_")]
    broken_sem = [t for t in sem_thms if not res[t]]
    ctx.trusted.append("fact extractor props/C09/factgen.py over `clang++ -std=c++11 -fsyntax-only -Xclang -ast-dump=json` of an instantiation "
                       "unit (Optional<P> with a non-trivial alignas(32) payload, Optional<Q> convertible, Any with int): classifies the "
                       "statements of each member into the micro-operations of coq/C09/Micro.v; anything unrecognised becomes "
                       "OUnknown/TUnknown and fails the Coq obligations")
    if not broken_syn and not broken_sem:
        ctx.cov["source_facts_status"] = "all source-derived tables equal the model's (PropertiesFacts.v) and satisfy the member contracts (PropertiesFactsSem.v)"
        return
    diff, exp = coq_diag(ctx, facts)
    first_sem = None
    m = re.search(r'File "\./FactsSem\.v", line (\d+)', getattr(ctx, "coq_log", ""))
    if m:
        src = open(os.path.join(ctx.coqdir, "FactsSem.v")).read().split("\n")[:int(m.group(1))]
        names = [re.match(r"Lemma (\w+)", l).group(1) for l in src if re.match(r"Lemma (\w+)", l)]
        first_sem = names[-1] if names else None
    details = []
    for tag in diff:
        if tag.startswith("("):
            details.append(tag); continue
        details.append("%s: working tree %s  |  model %s" % (tag, source_entry(facts, tag), exp.get(tag, "?")))
    sem_txt = ("the member contracts of the extracted programs (PropertiesFactsSem.v) still hold: a re-sequencing the model must follow"
               if not broken_sem else
               "the member contracts of the extracted programs are ALSO broken (first failing: %s)" % (first_sem or ", ".join(broken_sem)))
    ctx.cov["source_facts_diff"] = {"differing_entries": details, "contracts": sem_txt}
    ctx.log("source-derived tables differ from the model's in %d entr%s:" % (len(diff), "y" if len(diff) == 1 else "ies"))
    for d in details:
        ctx.log("   " + d[:400])
    ctx.log("   " + sem_txt)
    ctx.broken.append("source-derived micro-op table differs from the model: " + "; ".join(details)[:1500] + " -- " + sem_txt)

# ------------------------------------------------------------------ inventory closure
# Every declaration of Optional.h, Any.h, getEnvVar.h and rktraits.h (enumerated from the clang AST on every run by
# factgen.inventory: namespace-level functions / operators / templates / aliases, class members incl. constructors,
# conversion operators, fields, nested classes and their members) -> the Coq obligations and the harness execution
# counters that cover it, or an out-of-scope reason tied to the property text.  The check fails closed on a
# declaration missing here, on an entry whose declaration vanished / changed signature, and on a covered entry with
# zero executions in this run.
# counters: "O:<tok>" / "A:<tok>" = executed history steps with that harness token (summed over payload families and
# placements), "O:steps" / "O:histories" (every step dumps has_value()/value() of every wrapper; every history ends by
# destroying the living wrappers), oracle-derived "A:clone", "A:new_handle", "A:isSame_eq", "A:isSame_noeq",
# "A:get_ok", "A:get_throw", "facts" (the source-derived fact tables were extracted and their obligations hold).
HIST = "optional_history, optional_step_refines, optional_destroyed_exactly_once; facts_optional_members + model_functions_are_table_programs"
ANYH = "any_compare_print_total, any_get_exact_type, any_copy_is_exact, any_holder_freed_exactly_once; facts_any_members"
OUT_TRAITS = "index / tasking / conversion trait not used by Optional, Any or getEnvVar: the property does not speak of it (listed so that a NEW trait is noticed)"
COVER = {
    "utility::template<T> struct Optional": dict(thm=HIST, ops=["O:steps"]),
    "Optional<T>::Optional() = default": dict(thm="facts_optional_members (MDefCtor, mf_fresh of every constructor); " + HIST, ops=["O:cd"]),
    "Optional<T>::Optional(const Optional<T> &)": dict(thm="MCtorCopy; optional_copies_independent, optional_transfer_is_payload_copy", ops=["O:cc"]),
    "Optional<T>::template<U> Optional(const Optional<U> &)": dict(thm="MCtorConvCopy; optional_copies_independent", ops=["O:xc"]),
    "Optional<T>::Optional(Optional<T> &&)": dict(thm="MCtorMove; optional_move_ctor_constructs", ops=["O:cm"]),
    "Optional<T>::template<U> Optional(Optional<U> &&)": dict(thm="MCtorConvMove; optional_move_ctor_constructs", ops=["O:xm"]),
    "Optional<T>::Optional(const T &)": dict(thm="MCtorValue; optional_last_op_gives, value_copying_members_never_move", ops=["O:cv", "O:vu"]),
    "Optional<T>::~Optional()": dict(thm="MDtor; optional_destroyed_exactly_once, optional_closed_clean", ops=["O:d", "O:histories"]),
    "Optional<T>::Optional<T> & operator=(const Optional<T> &)": dict(thm="MAssignCopy; optional_assign_from_empty, optional_assign_copy_exact, optional_self_assign", ops=["O:ac"]),
    "Optional<T>::Optional<T> & operator=(Optional<T> &&)": dict(thm="MAssignMove; optional_assign_from_empty", ops=["O:am"]),
    "Optional<T>::template<U> Optional<T> & operator=(U &&)": dict(thm="MAssignValue (OAssign SVal: copies whatever the category); optional_last_op_gives, value_copying_members_never_move, value_deref_source_unchanged, source_value_assign_never_moves", ops=["O:av", "O:vu", "O:adr"]),
    "Optional<T>::template<U> Optional<T> & operator=(const Optional<U> &)": dict(thm="MAssignConvCopy; optional_assign_from_empty", ops=["O:xac"]),
    "Optional<T>::template<U> Optional<T> & operator=(Optional<U> &&)": dict(thm="MAssignConvMove (copies the payload); optional_assign_from_empty", ops=["O:xam"]),
    "Optional<T>::const T * operator->() const": dict(thm="facts_optional_accessors (om_deref_value); optional_observers", ops=["O:val", "O:steps"]),
    "Optional<T>::T * operator->()": dict(thm="facts_optional_accessors (om_deref_value)", ops=["O:val"]),
    "Optional<T>::const T & operator*() const": dict(thm="facts_optional_accessors (om_deref_value); optional_observers", ops=["O:val", "O:steps"]),
    "Optional<T>::T & operator*()": dict(thm="facts_optional_accessors (om_deref_value)", ops=["O:val"]),
    "Optional<T>::bool has_value() const": dict(thm="facts_optional_accessors (om_has_value_flag); optional_observers, optional_live_iff_flag", ops=["O:hv", "O:steps"]),
    "Optional<T>::operator bool() const": dict(thm="facts_optional_accessors (om_bool_has_value); optional_compare_total", ops=["O:hv", "O:val"]),
    "Optional<T>::const T & value() const": dict(thm="facts_optional_accessors (om_value_storage); optional_observers", ops=["O:val"]),
    "Optional<T>::T & value()": dict(thm="facts_optional_accessors (om_value_storage); every OAssign/ODtor micro-op goes through it", ops=["O:val", "O:em"]),
    "Optional<T>::template<U> T value_or(U &&) const": dict(thm="facts_optional_accessors (om_value_or_guarded); optional_observers", ops=["O:vo"]),
    "Optional<T>::void reset()": dict(thm="MReset; optional_destroyed_exactly_once", ops=["O:rs"]),
    "Optional<T>::template<...Args> T & emplace(Args &&...)": dict(thm="MEmplace (ONew SValFwd); optional_last_op_gives, value_lvalue_source_unchanged, source_emplace_forwards", ops=["O:em", "O:cv", "O:mk", "O:vu", "O:edr"]),
    "Optional<T>::std::string toString() const": dict(thm="facts_optional_accessors (om_tostring_const); optional_print_total", ops=["O:str"]),
    "Optional<T>::void default_construct_storage_if_needed()": dict(thm="MDcsin (private helper of every assignment)", ops=["O:av", "O:ac"]),
    "Optional<T>::storage : alignas std::array<rkcommon::byte_t, sizeof(T)>": dict(thm="facts_optional_layout, optional_aligned_from_source, source_optional_storage_aligned", ops=["O:steps", "facts"]),
    "Optional<T>::hasValue : bool": dict(thm="facts_optional_layout (lf_flag_default_false); optional_live_iff_flag", ops=["O:steps"]),
    "utility::template<T,U> bool operator==(const Optional<T> &, const Optional<U> &)": dict(thm="facts_optional_comparisons; optional_compare_total (same and mixed payload types)", ops=["O:eq"]),
    "utility::template<T,U> bool operator!=(const Optional<T> &, const Optional<U> &)": dict(thm="facts_optional_comparisons (CmpNotEq); optional_compare_total", ops=["O:ne"]),
    "utility::template<T,U> bool operator<(const Optional<T> &, const Optional<U> &)": dict(thm="facts_optional_comparisons; optional_compare_total", ops=["O:lt"]),
    "utility::template<T,U> bool operator<=(const Optional<T> &, const Optional<U> &)": dict(thm="facts_optional_comparisons; optional_compare_total", ops=["O:le"]),
    "utility::template<T,U> bool operator>(const Optional<T> &, const Optional<U> &)": dict(thm="facts_optional_comparisons; optional_compare_total", ops=["O:gt"]),
    "utility::template<T,U> bool operator>=(const Optional<T> &, const Optional<U> &)": dict(thm="facts_optional_comparisons; optional_compare_total", ops=["O:ge"]),
    "utility::template<T,...Args> Optional<T> make_optional(Args &&...)": dict(thm="MMakeOptional; optional_last_op_gives (instantiated with one argument: const T &, and T && for the move-only payload)", ops=["O:mk"]),
    "utility::struct Any": dict(thm=ANYH, ops=["A:steps"]),
    "Any::Any() = default": dict(thm="any_last_op_gives (ACtorDefault)", ops=["A:cd"]),
    "Any::Any(const rkcommon::utility::Any &)": dict(thm="AMCopyCtor (TInitCloneIfValid); any_copy_is_exact, any_copies_independent; also selected for rvalues and non-const lvalues (facts_any_no_move_members)", ops=["A:cc", "A:mc"]),
    "Any::template<T> Any(T)": dict(thm="AMValueCtor; any_last_op_gives", ops=["A:cv"]),
    "Any::~Any() noexcept = default": dict(thm="AMDtor (TDefaulted); any_holder_freed_exactly_once, any_closed_all_dead", ops=["A:d", "A:histories"]),
    "Any::rkcommon::utility::Any & operator=(const rkcommon::utility::Any &)": dict(thm="AMCopyAssign; any_copy_is_exact, any_skip_if_equal_refuted; also selected for rvalues (facts_any_no_move_members)", ops=["A:ac", "A:ma"]),
    "Any::template<T> rkcommon::utility::Any & operator=(T)": dict(thm="AMValueAssign; any_last_op_gives", ops=["A:av"]),
    "Any::bool operator==(const rkcommon::utility::Any &) const": dict(thm="AMEq; any_compare_total, source_any_compare_guarded", ops=["A:eq"]),
    "Any::bool operator!=(const rkcommon::utility::Any &) const": dict(thm="AMNe; any_compare_total", ops=["A:ne"]),
    "Any::template<T> T & get()": dict(thm="AMGet; any_get_exact_type, source_any_get_guarded (mutation through the reference: ASet)", ops=["A:set"]),
    "Any::template<T> const T & get() const": dict(thm="AMGetConst; any_get_exact_type, source_any_get_guarded", ops=["A:get", "A:steps"]),
    "Any::template<T> bool is() const": dict(thm="AMIs; any_get_exact_type", ops=["A:is", "A:steps"]),
    "Any::bool valid() const": dict(thm="AMValid; any_get_exact_type", ops=["A:valid", "A:steps"]),
    "Any::std::string toString() const": dict(thm="AMToString; any_print_total, source_any_print_guarded", ops=["A:str"]),
    "Any::struct handle_base": dict(thm="holder model of Model.v (holder = id, tag, value)", ops=["A:new_handle"]),
    "Any::handle_base::virtual ~handle_base() noexcept = default": dict(thm="any_holder_freed_exactly_once (the derived holder's payload is destroyed through the base: instrumented payload balance)", ops=["A:d", "A:histories"]),
    "Any::handle_base::virtual rkcommon::utility::Any::handle_base * clone() const = 0": dict(thm="a_clone; any_copy_is_exact, any_holders_unique", ops=["A:clone"]),
    "Any::handle_base::virtual const std::type_info & valueTypeID() const = 0": dict(thm="h_tag; any_get_exact_type, any_print_total", ops=["A:is", "A:str", "A:steps"]),
    "Any::handle_base::virtual bool isSame(rkcommon::utility::Any::handle_base *) const = 0": dict(thm="is_same; any_compare_total", ops=["A:isSame_eq", "A:isSame_noeq"]),
    "Any::handle_base::virtual void * data() = 0": dict(thm="h_val; any_get_exact_type", ops=["A:get_ok", "A:set"]),
    "Any::template<T> struct handle : rkcommon::utility::Any::handle_base": dict(thm="holder model of Model.v", ops=["A:new_handle"]),
    "Any::handle<T>::handle(T)": dict(thm="a_new; any_no_double_free", ops=["A:new_handle", "A:clone"]),
    "Any::handle<T>::rkcommon::utility::Any::handle_base * clone() const": dict(thm="a_clone; any_copy_is_exact", ops=["A:clone"]),
    "Any::handle<T>::const std::type_info & valueTypeID() const": dict(thm="h_tag; any_get_exact_type", ops=["A:is", "A:str", "A:steps"]),
    "Any::handle<T>::bool isSame(rkcommon::utility::Any::handle_base *) const": dict(thm="facts_traits_operator_equals (tf_same_dispatch); is_same", ops=["A:isSame_eq", "A:isSame_noeq"]),
    "Any::handle<T>::void * data()": dict(thm="h_val; any_get_exact_type", ops=["A:get_ok", "A:set"]),
    "Any::handle<T>::value : T": dict(thm="h_val; any_copy_is_exact (bit-exact stored state)", ops=["A:steps"]),
    "Any::handle<T>::template<TYPE> traits::HasOperatorEquals<TYPE, bool> isSameImpl(rkcommon::utility::Any::handle_base *) const":
        dict(thm="facts_traits_operator_equals (tf_impl_eq_shape); is_same with peqv; any_payload_eq_coarser_than_identity", ops=["A:isSame_eq"]),
    "Any::handle<T>::template<TYPE> traits::NoOperatorEquals<TYPE, bool> isSameImpl(rkcommon::utility::Any::handle_base *) const":
        dict(thm="facts_traits_operator_equals (tf_impl_noeq_false); source_any_noeq_payload_compares_false", ops=["A:isSame_noeq"]),
    "Any::currentValue : std::unique_ptr<handle_base>": dict(thm="facts_any_holder_unique; any_holders_unique, any_holder_freed_exactly_once", ops=["A:steps"]),
    "utility::template<T> Optional<T> getEnvVar(const std::string &)":
        dict(thm="facts_getenv_generic_empty (its static_assert rejects every T but the three specialised ones: it cannot be executed)", ops=["facts"]),
    "utility::template<> Optional<float> getEnvVar(const std::string &)": dict(thm="facts_getenv_specialisations (KFloat); getenv_engaged_iff_set", ops=["O:gv:1"]),
    "utility::template<> Optional<int> getEnvVar(const std::string &)": dict(thm="facts_getenv_specialisations (KInt); getenv_engaged_iff_set", ops=["O:gv:0"]),
    "utility::template<> Optional<std::string> getEnvVar(const std::string &)": dict(thm="facts_getenv_specialisations (KStr); getenv_engaged_iff_set", ops=["O:gv:2"]),
    "traits::using byte_t = unsigned char": dict(thm="facts_optional_layout (lf_elem_bytes = 1: the storage array's element type)", ops=["facts", "O:steps"]),
    "traits::template<T,Arg> std::true_type operator==(const T &, const Arg &)":
        dict(thm="facts_traits_operator_equals (fallback found only when T has no operator==: tf_eq_noeq = false, tf_eq_* = true)", ops=["facts", "A:isSame_noeq"]),
    "traits::template<T,Arg> struct HasOperatorEqualsT": dict(thm="facts_traits_operator_equals", ops=["facts", "A:isSame_eq", "A:isSame_noeq"]),
    "HasOperatorEqualsT<T,Arg>::enum {value}": dict(thm="facts_traits_operator_equals (evaluated by the compiler for int, std::string, the payload, a struct without ==)", ops=["facts"]),
    "traits::template<T,TYPE> using HasOperatorEquals": dict(thm="facts_traits_operator_equals (selects the comparing isSameImpl)", ops=["facts", "A:isSame_eq"]),
    "traits::template<T,TYPE> using NoOperatorEquals": dict(thm="source_any_noeq_payload_compares_false (selects the constant-false isSameImpl)", ops=["facts", "A:isSame_noeq"]),
    "traits::template<bool B,T> using enable_if_t": dict(scope=OUT_TRAITS),
    "traits::template<T> struct is_valid_index": dict(scope=OUT_TRAITS),
    "is_valid_index<T>::TypeAliasDecl TYPE": dict(scope=OUT_TRAITS),
    "is_valid_index<T>::enum {value}": dict(scope=OUT_TRAITS),
    "traits::template<TASK> struct has_operator_method": dict(scope=OUT_TRAITS),
    "has_operator_method<TASK>::TypeAliasDecl TASK_T": dict(scope=OUT_TRAITS),
    "has_operator_method<TASK>::template<_,_> struct checker": dict(scope=OUT_TRAITS),
    "has_operator_method<TASK>::template<C> std::true_type test(checker<C, decltype(&C::operator())> *)": dict(scope=OUT_TRAITS),
    "has_operator_method<TASK>::template<C> std::false_type test(...)": dict(scope=OUT_TRAITS),
    "has_operator_method<TASK>::TypeAliasDecl type": dict(scope=OUT_TRAITS),
    "has_operator_method<TASK>::VarDecl value": dict(scope=OUT_TRAITS),
    "traits::template<TASK,EXPECTED_PARAM_T> struct has_operator_method_matching_param": dict(scope=OUT_TRAITS),
    "has_operator_method_matching_param<TASK,EXPECTED_PARAM_T>::TypeAliasDecl TASK_T": dict(scope=OUT_TRAITS),
    "has_operator_method_matching_param<TASK,EXPECTED_PARAM_T>::TypeAliasTemplateDecl t_param": dict(scope=OUT_TRAITS),
    "has_operator_method_matching_param<TASK,EXPECTED_PARAM_T>::TypeAliasDecl operator_t": dict(scope=OUT_TRAITS),
    "has_operator_method_matching_param<TASK,EXPECTED_PARAM_T>::TypeAliasDecl valid_param": dict(scope=OUT_TRAITS),
    "has_operator_method_matching_param<TASK,EXPECTED_PARAM_T>::VarDecl value": dict(scope=OUT_TRAITS),
    "traits::template<DERIVED,BASE> using is_base_of_t": dict(scope=OUT_TRAITS),
    "traits::template<T> using is_class_t": dict(scope=OUT_TRAITS),
    "traits::template<T1,T2> using is_not_same_t": dict(scope=OUT_TRAITS),
    "traits::template<FROM,TO> using can_convert": dict(scope=OUT_TRAITS),
    "traits::template<FROM,TO> using can_convert_t": dict(scope=OUT_TRAITS),
    "traits::template<T> using is_arithmetic_t": dict(scope=OUT_TRAITS),
    "traits::template<T1,T2> using is_not_same_and_arithmetic_t": dict(scope=OUT_TRAITS),
}


def tally(counters, cases, mult, dom):
    for c in cases:
        toks = c.split()[1:]
        counters[dom + ":steps"] = counters.get(dom + ":steps", 0) + mult * len(toks)
        counters[dom + ":histories"] = counters.get(dom + ":histories", 0) + mult
        for t in toks:
            f = t.split(":")
            k = dom + ":" + f[0]
            counters[k] = counters.get(k, 0) + mult
            if f[0] == "gv":
                k = "O:gv:" + f[2]
                counters[k] = counters.get(k, 0) + mult


def inventory_check(ctx, facts, counters, facts_ok):
    inv = facts.get("inventory") or []
    counters["facts"] = 1 if facts_ok else 0
    rep = {}
    if not inv:
        ctx.broken.append("inventory: no declarations enumerated from the AST")
    for d in inv:
        if d not in COVER:
            ctx.broken.append("inventory: the anchored headers declare `%s`, which props/C09/check.py COVER does not list "
                              "(new or changed member / overload / trait: model, facts and harness do not cover it)" % d)
            rep[d] = "NOT IN COVER"
            continue
        e = COVER[d]
        if "scope" in e:
            rep[d] = "out of scope: " + e["scope"]
            continue
        n = sum(counters.get(k, 0) for k in e["ops"])
        rep[d] = {"executions": n, "by": {k: counters.get(k, 0) for k in e["ops"]}, "obligations": e["thm"]}
        if n == 0:
            ctx.broken.append("inventory: `%s` is covered by %s but was executed 0 times in this run" % (d, e["ops"]))
    for d in COVER:
        if d not in inv:
            ctx.broken.append("inventory: COVER lists `%s`, which the headers no longer declare with that signature" % d)
    ctx.cov["inventory"] = rep
    ctx.cov["inventory_size"] = len(inv)


def build_harnesses(ctx):
    """the two placements of the harness; when the full harness does not compile against the tree, fall back to builds
    without the getEnvVar / Any parts (and once to a wider list of repo sources) so that the remaining histories still run"""
    attempts = [([], REPO_SRC, []), ([], REPO_SRC_WIDE, ["-ldl"]), (["-DC09_NO_ENV"], REPO_SRC, []), (["-DC09_NO_ANY"], [], []),
                (["-DC09_NO_ANY", "-DC09_NO_ENV"], [], [])]
    for n, (fl, srcs, libs) in enumerate(attempts):
        exes = ctx.cxx_many([
            dict(sources=["harness.cpp"], out="harness", repo_sources=srcs, sanitize="asan", flags=fl, libs=libs),
            dict(sources=["harness.cpp"], out="harness_odd", repo_sources=srcs, sanitize="asan", flags=fl + ["-DC09_PREFIXED"], libs=libs),
        ])
        if exes[0] or exes[1]:
            if n:
                ctx.broken.append("harness: the full build failed against this tree; running the fallback build %s (sources %s)"
                                  % (" ".join(fl) or "(all parts)", ",".join(srcs) or "none"))
            return exes[0] or exes[1], exes[1] or exes[0], set(fl)
    return None, None, set()


def run(ctx):
    """never raises: bin/vcheck calls ctx.finish() afterwards, which writes the evidence file"""
    try:
        _run(ctx)
    except Exception as ex:
        tb = traceback.format_exc().strip().split("\n")
        ctx.broken.append("props/C09/check.py raised %r (%s)" % (ex, tb[-3].strip() if len(tb) >= 3 else ""))
        ctx.log("check raised:\n" + "\n".join(tb[-10:]))


def _run(ctx):
    if getattr(ctx, "replay", None):
        return replay(ctx)
    facts = regen_facts(ctx)                       # (catches its own failures: unknown facts, obligations break)
    res = stage(ctx, "Coq build", lambda: ctx.coq_check(("Properties.v", "PropertiesFacts.v", "PropertiesFactsSem.v"))) or {}
    stage(ctx, "source-derived facts report", lambda: facts_report(ctx, facts, res))
    facts_ok = all(res.get(t) for t in FACT_THMS) and bool(res.get("facts_any_no_move_members"))
    counters = {}
    src_facts = facts
    model = stage(ctx, "model extraction", lambda: ctx.extract(snippets=["conv_N.ml"]))
    if not model:
        ctx.broken.append("no executable model (Coq build / extraction failed): the harness output is judged by the independent python "
                          "oracle alone, on the first %d cases of each list" % NOMODEL_CAP)
    exe, exe_odd, hflags = stage(ctx, "harness build", lambda: build_harnesses(ctx)) or (None, None, set())
    if not exe:
        ctx.broken.append("no harness could be built against this tree (all fallback builds failed): nothing was executed")
        return
    hist, paths = {}, {}
    r = ctx.rng("cases")
    corpus = load_corpus(ctx)
    o_rand = [gen_O(r, 30) for _ in range(ctx.pick(2500, 25000))]
    o_exh = list(exhaustive_O(3, ctx.pick(2, 3)))
    a_rand = [gen_A(r, 30) for _ in range(ctx.pick(2500, 25000))]
    a_exh = list(exhaustive_A(ctx.pick(3, 4)))
    rv = ctx.rng("values")
    val_cases = [recode(c, lambda v: 4 * v) for c in
                 [gen_O(rv, 30, vals=True) for _ in range(ctx.pick(1500, 12000))] +
                 ["O sv:0:5 cv:1:0:7 cd:0:0 " + " ".join(t) for n in range(1, 3) for t in itertools.product(ALPHA_VAL, repeat=n)] +
                 ["O " + " ".join(t) for t in itertools.product(ALPHA_VAL, repeat=3)]]
    o_rand_raw = o_rand
    o_cases = [recode(c, lambda v: 4 * v) for c in [c for c in corpus if c[0] == "O"] + o_rand + o_exh]
    o_rand = o_cases[len([c for c in corpus if c[0] == "O"]):][:len(o_rand_raw)]
    rs = ctx.rng("shadows")
    ks_extra = [recode(c, lambda v: 4 * (v % 3 + 1) + rs.randrange(4)) for c in o_rand_raw] + \
        ["O " + " ".join(t) for n in range(1, 4) for t in itertools.product(ALPHA_KS, repeat=n)]
    dbl_map = {4: 0, 6: 1, 5: 1, 7: 4}
    dbl_extra = [recode(c, lambda v: rs.choice([0, 1, 0, 1, 4 * v])) for c in o_rand_raw] + \
        [recode("O " + " ".join(t), lambda v: dbl_map[v]) for n in range(1, 4) for t in itertools.product(ALPHA_KS, repeat=n)]
    a_cases = [c for c in corpus if c[0] == "A"] + a_rand + a_exh
    ctx.log("cases: Optional %d (random %d, exhaustive %d), Any %d (random %d, exhaustive %d)"
            % (len(o_cases), len(o_rand), len(o_exh), len(a_cases), len(a_rand), len(a_exh)))

    def st_layout():
        # ---- layout facts: model's layout function vs the compiler's numbers for the working tree
        rc, out, err = ctx.run_exe(exe, ["facts"])
        facts = []
        for ln in out.splitlines():
            m = re.match(r"(\w+) alignT=(\d+) sizeT=(\d+) align=(\d+) size=(\d+) prefixed_offset=(\d+)", ln)
            if m:
                facts.append((m.group(1),) + tuple(int(x) for x in m.groups()[1:]))
        if rc != 0 or len(facts) < 10:
            ctx.broken.append("harness facts failed rc=%d" % rc)
        if model:
            rc, mout, _ = ctx.run_exe(model, ["fixed"], stdin="".join("L %d %d\n" % (f[1], f[2]) for f in facts))
            mfacts = mout.splitlines()
        else:
            mfacts = ["align=%d size=%d prefixed_offset=%d" % (f[3], f[4], f[5]) for f in facts]     # no model: only the requirement itself
        lay = {}
        bad = []
        for f, ml in zip(facts, mfacts):
            name, aT, sT, al, sz, off = f
            il = "align=%d size=%d prefixed_offset=%d" % (al, sz, off)
            lay[name] = {"alignof_T": aT, "sizeof_T": sT, "alignof_Optional": al, "sizeof_Optional": sz, "offset_after_char": off}
            ctx.count(1)
            if al % aT != 0 or off % aT != 0:
                bad.append({"payload_type": name, "alignof_T": aT, "observed": il, "required_by_model": ml})
            elif il != ml:
                ctx.broken.append("layout correspondence for Optional<%s>: compiler %s, model %s (alignment requirement itself holds)" % (name, il, ml))
        if bad:
            b = bad[0]
            ctx.violation("storage of Optional<T> is not suitably aligned for %d of %d payload types, e.g. T=%s: alignof(T)=%d but %s "
                          "(payload of struct{char; Optional<T>;} at offset %s)" % (len(bad), len(facts), b["payload_type"], b["alignof_T"],
                                                                                  b["observed"], b["observed"].split("=")[-1]),
                          {"case": "alignof(Optional<%s>) %% alignof(%s) == 0" % (b["payload_type"], b["payload_type"]),
                           "observed": b["observed"], "required": b["required_by_model"] + " (alignof(Optional<T>) a multiple of alignof(T))",
                           "all_failing_types": bad})
        ctx.cov["layout_facts"] = lay

    stage(ctx, 'layout facts', st_layout)
    def st_stats():
        # ---- Optional histories: statistics of the generated cases
        for c in o_cases:
            ops = c.split()[1:]
            for t in ops:
                k = "O:" + t.split(":")[0]
                hist[k] = hist.get(k, 0) + 1
            st = {}
            oracle_O(ops, True, st)
            for k, n in st.items():
                paths["%s from %s into %s" % k] = paths.get("%s from %s into %s" % k, 0) + n
            # non-trivial: at least one well-formed wrapper-to-wrapper transfer and one observation
            if st and any(t.split(":")[0] in ("val", "hv", "vo") + CMPS for t in ops):
                ctx.nontriv(c)
        for c in a_cases:
            ops = c.split()[1:]
            for t in ops:
                k = "A:" + t.split(":")[0]
                hist[k] = hist.get(k, 0) + 1
            if any(t.split(":")[0] in ("cc", "ac") for t in ops) and any(t.split(":")[0] in ("get", "eq", "ne", "set") for t in ops):
                ctx.nontriv(c)
        missing = [("%s from %s" % (c, s)) for c in TRANSFER for s in ("engaged", "empty")
                   if not any(k.startswith("%s from %s " % (c, s)) for k in paths)]
        if missing:
            ctx.broken.append("generator coverage: transfer paths never exercised: " + ", ".join(missing))
        ctx.cov["op_histogram"] = hist
        ctx.cov["transfer_paths"] = paths
        vstat = {}
        for c in val_cases:
            oracle_O(c.split()[1:], True, vstat)
            t = [x.split(":")[0] for x in c.split()[1:]]
            if "vu" in t and "vr" in t or "adr" in t or "edr" in t:
                ctx.nontriv(c)
        ctx.cov["value_category_uses"] = {"%s %s" % (k[0], k[1]): n for k, n in vstat.items() if k[0].startswith("vu")}
        missing_v = ["vu%d cat%d" % (m, c_) for m in range(4) for c_ in range(4) if ("vu%d" % m, "cat%d" % c_, "") not in vstat]
        if missing_v:
            ctx.broken.append("generator coverage: value member x category never exercised: " + ", ".join(missing_v))

    stage(ctx, 'case statistics', st_stats)
    def st_optional():
        by_mode = {}
        for fam, form, mz in FAMS:
            by_mode.setdefault((form, mz, PK.get(fam, "pk=full")), []).append(fam)
        for (form, mz, pk), fams in by_mode.items():
            fullf = ("full" if pk == "pk=full" else "events") if form == "full" else False
            impls = []
            for fam in fams:
                impls.append(("Optional<%s>" % fam, exe, [fam]))
                impls.append(("Optional<%s>@odd-offset" % fam, exe_odd, [fam]))
            mism, crashes, mlines = diff(ctx, o_cases, model, impls, [form, mz, "fixed", pk], fullf, mz == "mvz1")
            tally(counters, o_cases, len(impls), "O")
            # value operations with an observable argument in every value category (aligned placement)
            vimpls = [("Optional<%s>/value-categories" % fam, exe, [fam]) for fam in fams]
            # (payloads whose move is a copy cannot show a wrongly moved-from argument: they get the random part only)
            vcs = val_cases if mz == "mvz1" or ctx.thorough() else val_cases[:ctx.pick(1500, 12000)]
            vm, vc, _ = diff(ctx, vcs, model, vimpls, [form, mz, "fixed", pk], fullf, mz == "mvz1")
            tally(counters, vcs, len(vimpls), "O")
            ctx.count(len(vcs) * len(vimpls))
            for label, ex, args in vimpls:
                judge(ctx, "Optional history", vcs, ex, args, ("full" if pk == "pk=full" else "events") if form == "full" else False,
                      mz == "mvz1", vm, vc, label)
            ctx.count(len(o_cases) * len(impls))
            ctx.cov["mismatches_%s_%s_%s" % (form, mz, pk[3:])] = len(mism)
            for label, ex, args in impls:
                judge(ctx, "Optional history", o_cases, ex, args, ("full" if pk == "pk=full" else "events") if form == "full" else False,
                      mz == "mvz1", mism, crashes, label)
            if form == "full" and pk == "pk=full":
                for c in o_rand[:2]:
                    ctx.sample({"case": c, "model_and_impl": mlines[o_cases.index(c)][:400] if mlines else None})

    stage(ctx, 'Optional histories', st_optional)
    def st_any():
        # ---- Any histories
        impls = [("Any", exe, ["trk"])]
        mism, crashes, mlines = diff(ctx, a_cases, model, impls, ["fixed"], False, True)
        tally(counters, a_cases, 1, "A")
        ast_ = {}
        for c in a_cases:
            oracle_A(c.split()[1:], ast_)
        for k, v in ast_.items():
            counters["A:" + k] = v
        ctx.count(len(a_cases))
        ctx.cov["mismatches_any"] = len(mism)

        judge(ctx, "Any history", a_cases, exe, ["trk"], False, True, mism, crashes, "Any")
        for c in a_rand[:1]:
            ctx.sample({"case": c, "model_and_impl": mlines[a_cases.index(c)][:400] if mlines else None})

    if "-DC09_NO_ANY" in hflags:
        ctx.broken.append('Any histories not run: the harness was built without the Any part (fallback build)')
    else:
        stage(ctx, 'Any histories', st_any)
    def st_shadow():
        # ---- Optional histories whose values are distinguishable but compare equal (shadows / signed zeros)
        for fam, extra in (("ks", ks_extra), ("dbl", dbl_extra)):
            impls = [("Optional<%s>+shadow" % fam, exe, [fam]), ("Optional<%s>+shadow@odd-offset" % fam, exe_odd, [fam])]
            mism, crashes, mlines = diff(ctx, extra, model, impls, ["plain", "mvz0", "fixed"], False, False)
            tally(counters, extra, len(impls), "O")
            ctx.count(len(extra) * len(impls))
            ctx.cov["mismatches_%s_shadow" % fam] = len(mism)
            for c in extra[:len(o_rand_raw)]:
                st = {}
                oracle_O(c.split()[1:], False, st)
                if st and any(t.split(":")[0] in CMPS for t in c.split()[1:]):
                    ctx.nontriv(c)
            for label, ex, args in impls:
                judge(ctx, "Optional history", extra, ex, args, False, False, mism, crashes, label)
        ctx.sample({"case": ks_extra[0], "note": "payload codes are 4*key+shadow; ks compares keys only"})

    stage(ctx, 'shadowed payload histories', st_shadow)
    def st_mov():
        # ---- move-only payload kind (copy constructor / copy assignment deleted), event-exact
        rm = ctx.rng("mov")
        mcases = ["O " + " ".join(t) for n in range(1, 4) for t in itertools.product(ALPHA_MOV, repeat=n)] + \
            ["O " + " ".join(rm.choice(ALPHA_MOV) for _ in range(rm.randint(4, 14))) for _ in range(ctx.pick(1500, 12000))]
        impls = [("Optional<move-only>", exe, ["mov"]), ("Optional<move-only>@odd-offset", exe_odd, ["mov"])]
        mism, crashes, mlines = diff(ctx, mcases, model, impls, ["full", "mvz1", "fixed", "pk=full"], "full", True)
        tally(counters, mcases, len(impls), "O")
        ctx.count(len(mcases) * len(impls))
        ctx.cov["mismatches_move_only"] = len(mism)
        for label, ex, args in impls:
            judge(ctx, "Optional history", mcases, ex, args, "full", True, mism, crashes, label)
        ctx.cov["case_mix"] = dict(ctx.cov.get("case_mix", {}), move_only_histories=len(mcases))

    stage(ctx, 'move-only payload histories', st_mov)
    def st_env():
        # ---- getEnvVar.h: Optionals produced from the process environment, then used in the ongoing history
        re_ = ctx.rng("env")
        env_total = 0
        for fam, kind, mz in (("int", 0, "mvz0"), ("dbl", 1, "mvz0"), ("str", 2, "mvz1")):
            ecases = [recode(gen_O(re_, 30, env=kind), lambda v: 4 * v) for _ in range(ctx.pick(1500, 12000))] + \
                ["O " + " ".join(t) for n in range(1, 4) for t in itertools.product(alpha_env(kind), repeat=n)]
            env_total += len(ecases)
            impls = [("getEnvVar<%s>" % {0: "int", 1: "float", 2: "string"}[kind], exe, [fam]),
                     ("getEnvVar<%s>@odd-offset" % {0: "int", 1: "float", 2: "string"}[kind], exe_odd, [fam])]
            mism, crashes, mlines = diff(ctx, ecases, model, impls, ["plain", mz, "fixed"], False, mz == "mvz1")
            tally(counters, ecases, len(impls), "O")
            ctx.count(len(ecases) * len(impls))
            ctx.cov["mismatches_env_%s" % fam] = len(mism)
            for c in ecases:
                t = [x.split(":")[0] for x in c.split()[1:]]
                hist["O:es"] = hist.get("O:es", 0) + t.count("es")
                hist["O:eu"] = hist.get("O:eu", 0) + t.count("eu")
                hist["O:gv"] = hist.get("O:gv", 0) + t.count("gv")
                # non-trivial: a variable was set, read through getEnvVar and the result observed
                if "es" in t and "gv" in t and any(x in t for x in ("val", "hv", "vo") + CMPS):
                    ctx.nontriv(c)
            for label, ex, args in impls:
                judge(ctx, "getEnvVar history", ecases, ex, args, False, mz == "mvz1", mism, crashes, label)
            if kind == 0:
                ctx.sample({"case": ecases[0], "model_and_impl": mlines[0][:300] if mlines else None})
        ctx.cov["case_mix"] = dict(ctx.cov.get("case_mix", {}), getenv_histories=env_total)

    if "-DC09_NO_ENV" in hflags:
        ctx.broken.append('getEnvVar histories not run: the harness was built without the getEnvVar part (fallback build)')
    else:
        stage(ctx, 'getEnvVar histories', st_env)
    ctx.cov["case_mix"] = dict(ctx.cov.get("case_mix", {})); ctx.cov["case_mix"].update({"corpus": len(corpus), "optional_random": len(o_rand), "optional_exhaustive": len(o_exh),
                           "optional_shadowed_ks": len(ks_extra), "optional_signed_zero_dbl": len(dbl_extra),
                           "any_random": len(a_rand), "any_exhaustive": len(a_exh), "payload_families": [f[0] for f in FAMS],
                           "placements": ["64-byte aligned slot", "struct{char; Optional<T>} (odd offset when alignment is 1)"]})
    # ---- inventory closure: AST declarations vs COVER, with the execution counts of this run
    stage(ctx, "payload exceptions", lambda: exception_stage(ctx, exe, exe_odd, counters))
    stage(ctx, "inventory closure", lambda: inventory_check(ctx, src_facts, counters, facts_ok))
    ctx.rule = ("Optional: random histories (length<=30, 4 wrapper slots, both payload types T and convertible U, sources biased to be empty "
                "half of the time) + all histories of length<=%d over a %d-op alphabet + all continuations of length<=%d (%d-op alphabet) of "
                "a 3-wrapper preamble; getEnvVar<int|float|string>: random histories mixing setenv/unsetenv/getEnvVar (the empty string, 30+ character strings, decimal spellings with blanks/sign/trailing junk, -0.0, a name never set) with the Optional operations + all histories of length<=3 over a 21-op alphabet per kind; each on 9 payload families x 2 placements (three instrumented kinds along the trait lattice, event-exact against the model's observed trace: everything user-provided; trivially destructible with user-provided copy/move and a self-pointer; destructor-only with trivial copies; plus a move-only payload on the members that do not copy) under ASan+UBSan (payload codes are 4*key+shadow; the {key,shadow} struct compared on key and double/float with +0.0/-0.0 additionally get histories with shadowed codes, full stored state printed after every step). Any: random histories (length<=30, 8 "
                "payload types incl. one without operator==, an instrumented one, double with +0.0/-0.0/NaN and a {key,shadow} struct "
                "compared on key only; the full stored state is printed bit-exactly after every step) + all histories of length<=%d over %d ops. "
                "non-trivial = the history contains a well-formed wrapper-to-wrapper copy/move/assign and a later observation"
                % (3, len(ALPHA_O), ctx.pick(2, 3), len(ALPHA_O2), ctx.pick(3, 4), len(ALPHA_A)))
    ctx.trusted += ["correspondence harness harness/C09/harness.cpp (instrumented payload Trk with a live-address registry; g++ -std=c++11 -O1, "
                    "ASan+UBSan) + generators and python value-type oracle in props/C09/check.py",
                    "modelled, not verified: std::string/std::vector move leaving the source empty (mvz), the payload's own copy/move/assign "
                    "(atomic events KRead/KMove/KAssign), std::unique_ptr ownership in Any (one holder per living Any), typeid name comparison"]
    ctx.trusted.append("libc atoi / atof / getenv are NOT modelled: what they make of a string is an oracle parameter of the getEnvVar theorems "
                       "(Section variables atoi atof in coq/C09/Env.v); the executable model uses the concrete oracle atoi_code/atof_code and the "
                       "harness renders each string id so that the real atoi/atof give that code; the std::string case is exact")
    ctx.assumptions += ["payload values are N codes; a payload's own operations do not throw (exception paths of Optional are not modelled)",
                        "Any's holder identity/ownership is by construction of the model (unique_ptr); leaks/double frees of holders are "
                        "observed by the instrumented payload in the harness, not proved",
                        "alignment is a compile-time fact read from the compiler for 15 payload types and cross-checked by UBSan at odd offsets"]
    if ctx.thorough():
        stage(ctx, "coqchk", lambda: ctx.coq_thorough_chk(["C09.Properties", "C09.PropertiesFacts", "C09.PropertiesFactsSem"]))


def replay(ctx):
    doc = json.load(open(ctx.replay))
    exe = ctx.cxx(["harness.cpp"], "harness_replay", repo_sources=REPO_SRC, sanitize="asan",
                  flags=["-DC09_PREFIXED"] if "odd-offset" in doc.get("label", "") else [])
    if not exe or not doc.get("case") or doc["case"][0] not in "OA":
        ctx.log("replay: nothing to run for this replay file")
        return
    args = doc.get("harness_args") or ["trk"]
    rc, out, err = ctx.run_exe(exe, args, stdin=doc["case"] + "\n", timeout=60)
    out = out.strip("\n")
    ops = doc["case"].split()[1:]
    fam = args[0]
    form, mz = ([(f, m) for (n, f, m) in FAMS if n == fam] + [("full", "mvz1")])[0]
    if rc != 0:
        ok, reason, req = False, "harness died rc=%d" % rc, doc.get("required")
    elif doc["case"][0] == "O":
        ok, reason, req = check_O(ops, out, ("full" if PK.get(fam, "pk=full") == "pk=full" else "events") if form == "full" else False, mz == "mvz1")
    else:
        ok, reason, req = check_A(ops, out)
    ctx.log("replay %s: observed %s" % (doc["case"], out))
    if not ok:
        ctx.violation("replay [%s]: %s" % (doc.get("label"), reason),
                      {"label": doc.get("label"), "harness_args": args, "case": doc["case"], "observed": out, "required": req,
                       "rc": rc, "stderr_tail": err[-1500:]})
