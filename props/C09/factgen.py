#!/usr/bin/env python3
"""C09 fact extractor: the micro-operation programs of Optional<T>'s members, the layout attributes of
its storage member and the statement shapes of Any's members, read from the clang JSON AST of the
working tree (an instantiation unit with a non-trivial, over-aligned payload P and a type Q
convertible to P).  Output: coq/C09/gen/Facts.v in the vocabulary of coq/C09/Micro.v.

Per Optional member the statements are turned, in source order, into
    OIf (CHas|CNotHas This|Other) [..] [..]   test of has_value() / hasValue / operator bool
    OReset | ODcsin | OEmplace s | OAssignValue s   calls of other members on *this
    ONew s | ONewDefault                      placement new into the storage member
    ODtor                                     explicit destructor call on value()
    OAssign s                                 assignment through value()
    OFlag b                                   hasValue = b
    OUnknown                                  anything else (fails the Coq check)
with s = SVal (the value/argument parameter) | SOther mv (other.value(), mv: under std::move) | SThis.

usage: factgen.py [--repo DIR] [--out Facts.v] [--json facts.json] [--work DIR]
"""
import json
import os
import re
import subprocess
import sys

HERE = os.path.dirname(os.path.abspath(__file__))
VERIF = os.path.dirname(os.path.dirname(HERE))
sys.path.insert(0, os.path.join(VERIF, "tools", "cxx2coq"))
from astutil import load_docs, walk  # noqa: E402

P_ALIGN, P_SIZE = 32, 64
INST = r'''
#include "rkcommon/utility/Optional.h"
#include "rkcommon/utility/Any.h"
#include "rkcommon/utility/getEnvVar.h"
namespace c09inst {
struct NoEq { int x; };
struct alignas(32) P { P(); P(const P &); P(P &&); P &operator=(const P &); P &operator=(P &&); ~P(); int x[9]; };
static_assert(alignof(P) == 32 && sizeof(P) == 64, "payload layout assumed by the extractor");
bool operator==(const P &, const P &); bool operator<(const P &, const P &); bool operator<=(const P &, const P &);
bool operator>(const P &, const P &); bool operator>=(const P &, const P &); bool operator!=(const P &, const P &);
struct Q { operator P() const; };
}
using rkcommon::utility::Optional;
using rkcommon::utility::Any;
template struct rkcommon::utility::Optional<c09inst::P>;
namespace c09inst {
void use(const P &p, const Optional<Q> &cq, Optional<Q> &q, const Optional<P> &ca, const Optional<P> &cb)
{
  Optional<P> a;
  Optional<P> fromq(cq);
  Optional<P> fromqm(std::move(q));
  a = cq;
  a = std::move(q);
  a = p;
  a.emplace(p);
  (void)a.value_or(p);
  Optional<P> m = rkcommon::utility::make_optional<P>(p);
  (void)(ca == cb); (void)(ca != cb); (void)(ca < cb); (void)(ca <= cb); (void)(ca > cb); (void)(ca >= cb);
  Any x(1); x = 2; (void)x.get<int>(); const Any &cx = x; (void)cx.get<int>(); (void)cx.is<int>();
  Any ne(NoEq{1}); (void)(ne == ne);
}
}
namespace rkcommon { namespace utility { namespace c09probe {
std::integral_constant<bool, (bool)rkcommon::traits::HasOperatorEqualsT<int>::value> has_eq_int;
std::integral_constant<bool, (bool)rkcommon::traits::HasOperatorEqualsT<std::string>::value> has_eq_string;
std::integral_constant<bool, (bool)rkcommon::traits::HasOperatorEqualsT<c09inst::P>::value> has_eq_payload;
std::integral_constant<bool, (bool)rkcommon::traits::HasOperatorEqualsT<c09inst::NoEq>::value> has_eq_noeq;
}}}
'''

METHS = ["MDefCtor", "MCtorValue", "MCtorCopy", "MCtorConvCopy", "MCtorMove", "MCtorConvMove", "MMakeOptional", "MDtor",
         "MAssignCopy", "MAssignMove", "MAssignConvCopy", "MAssignConvMove", "MAssignValue", "MEmplace", "MReset", "MDcsin"]
CMPS = {"operator==": "CEq", "operator!=": "CNe", "operator<": "CLt", "operator<=": "CLe", "operator>": "CGt", "operator>=": "CGe"}
AMETHS = ["AMCopyCtor", "AMCopyAssign", "AMValueCtor", "AMValueAssign", "AMEq", "AMNe", "AMGet", "AMGetConst", "AMIs", "AMValid",
          "AMToString", "AMDtor"]
MISC = ["om_value_or_guarded", "om_has_value_flag", "om_bool_has_value", "om_value_storage", "om_deref_value", "om_tostring_const"]
TRANSPARENT = {"ImplicitCastExpr", "ParenExpr", "ExprWithCleanups", "MaterializeTemporaryExpr", "CXXBindTemporaryExpr",
               "CXXFunctionalCastExpr", "CXXStaticCastExpr", "CStyleCastExpr", "ConstantExpr"}


def dump(repo, work, filt="rkcommon::utility", out_name="ast.json"):
    os.makedirs(work, exist_ok=True)
    src = os.path.join(work, "c09_inst.cpp")
    with open(src, "w") as f:
        f.write(INST)
    out = os.path.join(work, out_name)
    inc = os.path.join(VERIF, "build", "include")
    cmd = ["clang++", "-std=c++11", "-I" + repo, "-I" + inc, "-fsyntax-only", "-Xclang", "-ast-dump=json",
           "-Xclang", "-ast-dump-filter=" + filt, src]
    with open(out, "w") as f:
        p = subprocess.run(cmd, stdout=f, stderr=subprocess.PIPE, timeout=120, universal_newlines=True)
    if p.returncode != 0:
        raise RuntimeError("clang failed: " + p.stderr[-1500:])
    return load_docs(out)


def inner(n):
    return [c for c in (n.get("inner") or []) if isinstance(c, dict) and c]


def strip(n):
    while n.get("kind") in TRANSPARENT and inner(n):
        n = inner(n)[-1] if n.get("kind") in ("CXXFunctionalCastExpr", "CXXStaticCastExpr", "CStyleCastExpr") else inner(n)[0]
    return n


def qt(n):
    return n.get("type", {}).get("qualType", "")


def body_of(n):
    b = [c for c in inner(n) if c.get("kind") == "CompoundStmt"]
    return b[0] if b else None


def stmts(n):
    if n is None:
        return []
    if n.get("kind") == "CompoundStmt":
        out = []
        for c in inner(n):
            out += stmts(c)
        return out
    return [n]


def callee_name(n):
    """name of the function a call expression calls"""
    n = strip(n)
    k = n.get("kind")
    if k == "CXXMemberCallExpr":
        c = inner(n)[0]
        return c.get("name") if c.get("kind") == "MemberExpr" else None
    if k in ("CallExpr", "CXXOperatorCallExpr"):
        c = strip(inner(n)[0])
        return (c.get("referencedDecl") or {}).get("name")
    return None


class Cx:
    def __init__(self, params, this_local=None, roles=None):
        self.params = params            # ParmVarDecl id -> 'wrapper' | 'value'
        self.this_local = this_local    # VarDecl id of a local standing for *this (make_optional)
        self.roles = roles or {}        # for free comparison functions: param id -> 'This' | 'Other'


def obj_of(n, cx):
    """which wrapper does this object expression denote: 'This' | 'Other' | None"""
    n = strip(n)
    k = n.get("kind")
    if k == "CXXThisExpr":
        return "This"
    if k == "UnaryOperator" and n.get("opcode") == "*":
        return "This" if strip(inner(n)[0]).get("kind") == "CXXThisExpr" else None
    if k == "DeclRefExpr":
        rid = (n.get("referencedDecl") or {}).get("id")
        if rid in cx.roles:
            return cx.roles[rid]
        if cx.params.get(rid) == "wrapper":
            return "Other"
        if rid is not None and rid == cx.this_local:
            return "This"
    if k == "CallExpr" and callee_name(n) in ("move", "forward"):
        return obj_of(inner(n)[-1], cx)
    return None


def member_call(n, cx):
    """obj.name(args) -> (obj, name, args) for a member call on a wrapper, else None"""
    n = strip(n)
    if n.get("kind") != "CXXMemberCallExpr":
        return None
    c = inner(n)[0]
    if c.get("kind") != "MemberExpr" or not inner(c):
        return None
    o = obj_of(inner(c)[0], cx)
    if o is None:
        return None
    return o, c.get("name"), inner(n)[1:]


def cond_of(n, cx):
    """-> ('CHas'|'CNotHas', 'This'|'Other') or None"""
    n = strip(n)
    k = n.get("kind")
    if k == "UnaryOperator" and n.get("opcode") == "!":
        c = cond_of(inner(n)[0], cx)
        if c is None:
            return None
        return ("CNotHas" if c[0] == "CHas" else "CHas", c[1])
    if k == "BinaryOperator" and n.get("opcode") == "&&":
        a, b = inner(n)
        # `!std::is_trivially_destructible<T>::value && has_value()`: the first conjunct is a compile-time constant
        # that is true for the non-trivial payload of this instantiation
        sa = strip(a)
        if sa.get("kind") == "UnaryOperator" and sa.get("opcode") == "!":
            v = strip(inner(sa)[0])
            if v.get("kind") == "DeclRefExpr" and (v.get("referencedDecl") or {}).get("kind") == "VarDecl" \
                    and (v.get("referencedDecl") or {}).get("name") == "value" and "bool" in qt(v):
                return cond_of(b, cx)
        return None
    mc = member_call(n, cx)
    if mc and mc[1] in ("has_value", "operator bool") and not mc[2]:
        return ("CHas", mc[0])
    if k == "MemberExpr" and n.get("name") == "hasValue" and inner(n):
        o = obj_of(inner(n)[0], cx)
        if o:
            return ("CHas", o)
    return None


def value_ref(n, cx):
    """n is obj.value() / *obj / obj.operator*() -> obj, else None"""
    n = strip(n)
    mc = member_call(n, cx)
    if mc and mc[1] in ("value", "operator*") and not mc[2]:
        return mc[0]
    if n.get("kind") == "CXXOperatorCallExpr" and callee_name(n) == "operator*" and len(inner(n)) == 2:
        return obj_of(inner(n)[1], cx)
    return None


def src_of(n, cx, moved=False, fwd=False):
    """the payload source an argument expression denotes.  For the value parameter the wrapper matters:
    plain use = SVal (copied), std::forward<U>(p) = SValFwd, std::move(p) = SValMove (moves from the CALLER's lvalue too)"""
    n = strip(n)
    k = n.get("kind")
    if k == "CallExpr" and callee_name(n) in ("move", "forward"):
        return src_of(inner(n)[-1], cx, moved or callee_name(n) == "move", fwd or callee_name(n) == "forward")
    v = value_ref(n, cx)
    if v == "Other":
        return "SOther %s" % ("true" if moved else "false")
    if v == "This":
        return "SThis"
    if k == "DeclRefExpr":
        rid = (n.get("referencedDecl") or {}).get("id")
        if cx.params.get(rid) == "value":
            return "SValMove" if moved else "SValFwd" if fwd else "SVal"
        return None
    if k == "CXXMemberCallExpr":
        # a user-defined conversion of the argument: q.operator P()
        c0 = inner(n)[0]
        if c0.get("kind") == "MemberExpr" and c0.get("name", "").startswith("operator ") and inner(c0) and len(inner(n)) == 1:
            return src_of(inner(c0)[0], cx, moved, fwd)
        return None
    if k == "CXXConstructExpr" and len(inner(n)) == 1:
        return src_of(inner(n)[0], cx, moved, fwd)               # a copy / converting construction of the argument
    return None


def mentions_storage(n):
    return any(x.get("kind") == "MemberExpr" and x.get("name") == "storage" for x, _ in walk(n))


def paren(s):
    return "(%s)" % s if " " in s else s


def translate(sts, cx, top=True):
    ops = []
    for idx, st in enumerate(sts):
        s = strip(st)
        k = s.get("kind")
        if k in ("NullStmt",):
            continue
        if k == "DeclStmt" and all(d.get("kind") == "StaticAssertDecl" for d in inner(s)):
            continue
        if k == "ReturnStmt":
            if not (top and idx == len(sts) - 1):
                ops.append("OUnknown")                      # an early return changes the control flow: not modelled
                continue
            e = strip(inner(s)[0]) if inner(s) else None
            if e is None or obj_of(e, cx) == "This" or value_ref(e, cx) == "This":
                continue
            if e.get("kind") == "CXXConstructExpr" and inner(e) and obj_of(inner(e)[0], cx) == "This":
                continue                                    # return ret;  (make_optional)
            ops.append("OUnknown")
            continue
        if k == "IfStmt":
            parts = inner(s)
            c = cond_of(parts[0], cx)
            if c is None or len(parts) < 2:
                ops.append("OUnknown")
                continue
            t = translate(stmts(parts[1]), cx, False)
            e = translate(stmts(parts[2]), cx, False) if len(parts) > 2 else []
            ops.append("OIf (%s %s) [%s] [%s]" % (c[0], c[1], "; ".join(t), "; ".join(e)))
            continue
        mc = member_call(s, cx)
        if mc and mc[0] == "This":
            name, args = mc[1], mc[2]
            if name == "reset" and not args:
                ops.append("OReset"); continue
            if name == "default_construct_storage_if_needed" and not args:
                ops.append("ODcsin"); continue
            if name == "emplace" and len(args) == 1:
                a = src_of(args[0], cx)
                ops.append("OEmplace %s" % paren(a) if a else "OUnknown"); continue
            ops.append("OUnknown"); continue
        if k == "CXXMemberCallExpr":
            c0 = inner(s)[0]
            if c0.get("kind") == "MemberExpr" and c0.get("name", "").startswith("~") and inner(c0) and value_ref(inner(c0)[0], cx) == "This":
                ops.append("ODtor"); continue
            ops.append("OUnknown"); continue
        if k == "CXXPseudoDestructorExpr" or (k == "CallExpr" and strip(inner(s)[0]).get("kind") == "CXXPseudoDestructorExpr"):
            ops.append("ODtor"); continue
        if k == "CXXOperatorCallExpr" and callee_name(s) == "operator=" and len(inner(s)) == 3:
            lhs, rhs = inner(s)[1], inner(s)[2]
            if value_ref(lhs, cx) == "This":
                a = src_of(rhs, cx)
                ops.append("OAssign %s" % paren(a) if a else "OUnknown"); continue
            if obj_of(lhs, cx) == "This":
                # *this = x : which Optional::operator= ?  the value form takes a non-wrapper argument
                a = src_of(rhs, cx)
                ops.append("OAssignValue %s" % paren(a) if a else "OUnknown"); continue
            ops.append("OUnknown"); continue
        if k == "BinaryOperator" and s.get("opcode") == "=":
            lhs, rhs = inner(s)
            sl = strip(lhs)
            if sl.get("kind") == "MemberExpr" and sl.get("name") == "hasValue" and inner(sl) and obj_of(inner(sl)[0], cx) == "This":
                r = strip(rhs)
                if r.get("kind") == "CXXBoolLiteralExpr":
                    ops.append("OFlag %s" % ("true" if r.get("value") in (True, "true", "True") else "false")); continue
                ops.append("OUnknown"); continue
            if value_ref(lhs, cx) == "This":
                a = src_of(rhs, cx)
                ops.append("OAssign %s" % paren(a) if a else "OUnknown"); continue
            ops.append("OUnknown"); continue
        if k == "CXXNewExpr":
            parts = inner(s)
            ctor = [p for p in parts if strip(p).get("kind") == "CXXConstructExpr" and "Optional" not in qt(strip(p))]
            place = [p for p in parts if mentions_storage(p)]
            if not place or not s.get("isPlacement", True):
                ops.append("OUnknown"); continue
            if ctor:
                args = inner(strip(ctor[0]))
                if not args:
                    ops.append("ONewDefault"); continue
                if len(args) == 1:
                    a = src_of(args[0], cx)
                    ops.append("ONew %s" % paren(a) if a else "OUnknown"); continue
            ops.append("OUnknown"); continue
        ops.append("OUnknown")
    return ops


def params_of(m):
    ps = {}
    for c in inner(m):
        if c.get("kind") == "ParmVarDecl":
            ps[c["id"]] = "wrapper" if "Optional<" in qt(c) else "value"
    return ps


def ctor_fresh(m, default_ctor_defaulted, flag_default_false):
    """constructor starts from Optional(): delegating to the defaulted default constructor, or default member
    initialisation only (hasValue{false}, storage untouched)"""
    inits = [c for c in inner(m) if c.get("kind") == "CXXCtorInitializer"]
    if m.get("explicitlyDefaulted") == "default":
        return flag_default_false and not inits or all(
            strip(inner(i)[0]).get("kind") in ("CXXDefaultInitExpr", "CXXConstructExpr") for i in inits if inner(i)) and flag_default_false
    for i in inits:
        e = strip(inner(i)[0]) if inner(i) else {}
        any_init = i.get("anyInit", {}).get("name")
        if any_init is None:
            # delegating / base initialiser
            if not (e.get("kind") == "CXXConstructExpr" and "Optional" in qt(e) and not inner(e) and default_ctor_defaulted):
                return False
        elif any_init == "hasValue":
            if e.get("kind") != "CXXDefaultInitExpr":
                return False
        elif any_init == "storage":
            if e.get("kind") not in ("CXXDefaultInitExpr", "CXXConstructExpr", "ImplicitValueInitExpr") or (e.get("kind") == "CXXConstructExpr" and inner(e)):
                return False
        else:
            return False
    return flag_default_false


def optional_facts(docs, notes):
    spec = [d for d in docs if d.get("kind") == "ClassTemplateSpecializationDecl" and d.get("name") == "Optional"]
    table = {m: (False, ["OUnknown"]) for m in METHS}
    misc = {k: False for k in MISC}
    lay = dict(lf_alignas_payload=False, lf_align_value=0, lf_elem_bytes=0, lf_extent=0, lf_payload_align=P_ALIGN,
               lf_payload_size=P_SIZE, lf_flag_default_false=False)
    if not spec:
        notes.append("no instantiated Optional<P> in the AST dump")
        return table, misc, lay
    spec = spec[0]
    # ---- fields
    for c in inner(spec):
        if c.get("kind") == "FieldDecl" and c.get("name") == "hasValue":
            lits = [x for x, _ in walk(c) if x.get("kind") == "CXXBoolLiteralExpr"]
            lay["lf_flag_default_false"] = qt(c) == "bool" and len(lits) == 1 and lits[0].get("value") in (False, "false", "False")
        if c.get("kind") == "FieldDecl" and c.get("name") == "storage":
            for a in inner(c):
                if a.get("kind") == "AlignedAttr":
                    ce = [x for x, _ in walk(a) if x.get("kind") == "ConstantExpr" and "value" in x]
                    tr = [x for x, _ in walk(a) if x.get("kind") == "UnaryExprOrTypeTraitExpr" and x.get("name") == "alignof"]
                    if ce:
                        lay["lf_align_value"] = int(ce[0]["value"])
                    lay["lf_alignas_payload"] = bool(tr) and "c09inst::P" in json.dumps(tr[0].get("argType", {}))
                    if not tr and not ce and a.get("inner") is None:
                        pass
            t = c.get("type", {}).get("desugaredQualType") or qt(c)
            m = re.match(r"^std::array<(unsigned char|char|signed char|std::byte|uint8_t), (\d+)>$", t.strip())
            if m:
                lay["lf_elem_bytes"] = 1
                lay["lf_extent"] = int(m.group(2))
            else:
                notes.append("storage type not a byte array: " + t)
    flag_false = lay["lf_flag_default_false"]
    members = {}
    defctor_defaulted = False
    for c in inner(spec):
        k = c.get("kind")
        cands = [c] if k in ("CXXConstructorDecl", "CXXDestructorDecl", "CXXMethodDecl", "CXXConversionDecl") else \
            [d for d in inner(c) if d.get("kind") in ("CXXConstructorDecl", "CXXMethodDecl")] if k == "FunctionTemplateDecl" else []
        for d in cands:
            if d.get("isImplicit"):
                continue
            ps = [p for p in inner(d) if p.get("kind") == "ParmVarDecl"]
            pt = qt(ps[0]) if ps else ""
            has_b = body_of(d) is not None
            name = d.get("name")
            key = None
            if d.get("kind") == "CXXConstructorDecl":
                if not ps:
                    key = "MDefCtor"
                    defctor_defaulted = d.get("explicitlyDefaulted") == "default"
                elif "<dependent" in pt or re.search(r"Optional<U>|\bU\b|\bT\b", pt):
                    continue
                elif "Optional<c09inst::P>" in pt:
                    key = "MCtorMove" if pt.endswith("&&") else "MCtorCopy"
                elif "Optional<c09inst::Q>" in pt:
                    key = "MCtorConvMove" if pt.endswith("&&") else "MCtorConvCopy"
                elif "c09inst::P" in pt:
                    key = "MCtorValue"
            elif d.get("kind") == "CXXDestructorDecl":
                key = "MDtor"
            elif name == "operator=":
                if "Optional<c09inst::P>" in pt:
                    key = "MAssignMove" if pt.endswith("&&") else "MAssignCopy"
                elif "Optional<c09inst::Q>" in pt and c.get("kind") == "FunctionTemplateDecl" and \
                        any("Optional<U>" in qt(p) for x in inner(c) for p in inner(x) if p.get("kind") == "ParmVarDecl"):
                    key = "MAssignConvMove" if pt.endswith("&&") else "MAssignConvCopy"
                elif pt.replace("const ", "").strip() in ("c09inst::P &", "c09inst::P &&"):
                    key = "MAssignValue"
            elif name == "emplace" and pt.replace("const ", "").strip() == "c09inst::P &":
                key = "MEmplace"
            elif name == "reset":
                key = "MReset"
            elif name == "default_construct_storage_if_needed":
                key = "MDcsin"
            elif name in ("has_value", "operator bool", "value", "operator*", "operator->", "toString", "value_or"):
                if has_b and "<dependent" not in pt and not re.search(r"\bU\b", pt):
                    members.setdefault(name, []).append(d)
                continue
            if key and (has_b or key == "MDefCtor") and key not in members:
                members[key] = d
    for key in METHS:
        d = members.get(key)
        if key == "MMakeOptional":
            continue
        if d is None:
            notes.append("%s: member not found" % key)
            continue
        try:
            if key == "MDefCtor":
                fresh = ctor_fresh(d, True, flag_false) and d.get("explicitlyDefaulted") == "default"
                prog = translate(stmts(body_of(d)), Cx(params_of(d))) if d.get("explicitlyDefaulted") != "default" else []
            else:
                cx = Cx(params_of(d))
                fresh = ctor_fresh(d, defctor_defaulted, flag_false) if d.get("kind") == "CXXConstructorDecl" else False
                prog = translate(stmts(body_of(d)), cx)
            table[key] = (fresh, prog)
        except Exception as ex:                  # extractor confusion is a broken fact, not a crash
            notes.append("%s: %r" % (key, ex))
    # ---- accessors
    try:
        def single_return(d):
            ss = [s for s in stmts(body_of(d)) if strip(s).get("kind") != "NullStmt"]
            return strip(inner(strip(ss[0]))[0]) if len(ss) == 1 and strip(ss[0]).get("kind") == "ReturnStmt" and inner(strip(ss[0])) else None
        cx0 = Cx({})
        hv = members.get("has_value", [])
        misc["om_has_value_flag"] = len(hv) == 1 and (lambda e: e is not None and e.get("kind") == "MemberExpr" and e.get("name") == "hasValue"
                                                     and obj_of(inner(e)[0], cx0) == "This")(single_return(hv[0]))
        ob = members.get("operator bool", [])
        misc["om_bool_has_value"] = len(ob) == 1 and (lambda e: e is not None and cond_of(e, cx0) == ("CHas", "This"))(single_return(ob[0]))
        vs = members.get("value", [])

        def value_ok(d):
            e = single_return(d)
            if e is None or not (e.get("kind") == "UnaryOperator" and e.get("opcode") == "*"):
                return False
            c = strip(inner(e)[0])
            if c.get("kind") != "CXXReinterpretCastExpr" or "c09inst::P *" not in qt(c):
                return False
            mems = [x.get("name") for x, _ in walk(c) if x.get("kind") == "MemberExpr"]
            return "storage" in mems and all(m in ("storage", "data") for m in mems)
        misc["om_value_storage"] = len(vs) == 2 and all(value_ok(d) for d in vs)
        ds = members.get("operator*", []) + members.get("operator->", [])

        def deref_ok(d):
            e = single_return(d)
            if e is None:
                return False
            if e.get("kind") == "UnaryOperator" and e.get("opcode") == "&":
                e = strip(inner(e)[0])
            return value_ref(e, cx0) == "This"
        misc["om_deref_value"] = len(ds) == 4 and all(deref_ok(d) for d in ds)
        ts = members.get("toString", [])
        if len(ts) == 1:
            b = body_of(ts[0])
            lits = [x for x, _ in walk(b) if x.get("kind") == "StringLiteral"]
            touches = [x for x, _ in walk(b) if x.get("kind") in ("MemberExpr", "CXXThisExpr") and x.get("name") in ("storage", "hasValue", "value", None)
                       and x.get("kind") == "CXXThisExpr"]
            misc["om_tostring_const"] = len(lits) == 1 and not touches and len(stmts(b)) == 1
        vo = members.get("value_or", [])
        if len(vo) == 1:
            d = vo[0]
            cx = Cx(params_of(d))
            ss = [s for s in stmts(body_of(d)) if strip(s).get("kind") not in ("NullStmt",) and not
                  (strip(s).get("kind") == "DeclStmt" and all(x.get("kind") == "StaticAssertDecl" for x in inner(strip(s))))]

            def ret_src(s):
                s = strip(s)
                return src_of(inner(s)[0], cx) if s.get("kind") == "ReturnStmt" and inner(s) else None
            ok = False
            if len(ss) == 1 and strip(ss[0]).get("kind") == "ReturnStmt":
                e = strip(inner(strip(ss[0]))[0])
                while e.get("kind") == "CXXConstructExpr" and len(inner(e)) == 1:
                    e = strip(inner(e)[0])
                if e.get("kind") == "ConditionalOperator":
                    c, a, b2 = inner(e)
                    ok = cond_of(c, cx) == ("CHas", "This") and src_of(a, cx) == "SThis" and src_of(b2, cx) in ("SVal", "SValFwd")
            elif len(ss) == 2 and strip(ss[0]).get("kind") == "IfStmt":
                p = inner(strip(ss[0]))
                ok = cond_of(p[0], cx) == ("CHas", "This") and len(p) == 2 and len(stmts(p[1])) == 1 and \
                    ret_src(stmts(p[1])[0]) == "SThis" and ret_src(ss[1]) in ("SVal", "SValFwd")
            misc["om_value_or_guarded"] = ok
    except Exception as ex:
        notes.append("accessors: %r" % (ex,))
    return table, misc, lay


def free_functions(docs, table, notes):
    cmp = {v: "CmpUnknown" for v in CMPS.values()}
    for d in docs:
        for x, par in walk(d):
            if x.get("kind") != "FunctionDecl" or body_of(x) is None or "c09inst::P" not in qt(x):
                continue
            ps = [p for p in inner(x) if p.get("kind") == "ParmVarDecl"]
            if x.get("name") == "make_optional" and len(ps) == 1:
                try:
                    ss = stmts(body_of(x))
                    s0 = strip(ss[0])
                    vd = inner(s0)[0] if s0.get("kind") == "DeclStmt" and len(inner(s0)) == 1 else None
                    if vd is not None and vd.get("kind") == "VarDecl" and "Optional<c09inst::P>" in qt(vd):
                        init = strip(inner(vd)[0]) if inner(vd) else {}
                        fresh = init.get("kind") == "CXXConstructExpr" and not inner(init) and table["MDefCtor"][0]
                        cx = Cx({ps[0]["id"]: "value"}, this_local=vd["id"])
                        table["MMakeOptional"] = (fresh, translate(ss[1:], cx))
                except Exception as ex:
                    notes.append("make_optional: %r" % (ex,))
            if x.get("name") in CMPS and len(ps) == 2 and all("Optional<c09inst::P>" in qt(p) for p in ps):
                try:
                    cmp[CMPS[x["name"]]] = cmp_fact(x, ps)
                except Exception as ex:
                    notes.append("%s: %r" % (x.get("name"), ex))
    return cmp


def conjuncts(e):
    e = strip(e)
    if e.get("kind") == "BinaryOperator" and e.get("opcode") == "&&":
        a, b = inner(e)
        return conjuncts(a) + conjuncts(b)
    return [e]


def cmp_fact(fn, ps):
    cx = Cx({}, roles={ps[0]["id"]: "This", ps[1]["id"]: "Other"})
    ss = [s for s in stmts(body_of(fn)) if strip(s).get("kind") != "NullStmt"]
    guards_first = []
    # optional early return:  if (!lhs.has_value() || !rhs.has_value()) return false;
    if len(ss) == 2 and strip(ss[0]).get("kind") == "IfStmt":
        p = inner(strip(ss[0]))
        c = strip(p[0])
        if len(p) == 2 and c.get("kind") == "BinaryOperator" and c.get("opcode") == "||":
            gs = [cond_of(x, cx) for x in inner(c)]
            t = stmts(p[1])
            if len(t) == 1 and strip(t[0]).get("kind") == "ReturnStmt" and strip(inner(strip(t[0]))[0]).get("kind") == "CXXBoolLiteralExpr" \
                    and strip(inner(strip(t[0]))[0]).get("value") in (False, "false", "False") and all(g and g[0] == "CNotHas" for g in gs):
                guards_first = [g[1] for g in gs]
                ss = ss[1:]
    if len(ss) != 1 or strip(ss[0]).get("kind") != "ReturnStmt":
        return "CmpUnknown"
    e = strip(inner(strip(ss[0]))[0])
    if e.get("kind") == "UnaryOperator" and e.get("opcode") == "!" and not guards_first:
        c = strip(inner(e)[0])
        if c.get("kind") == "CXXOperatorCallExpr" and callee_name(c) == "operator==" and len(inner(c)) == 3 and \
                obj_of(inner(c)[1], cx) == "This" and obj_of(inner(c)[2], cx) == "Other" and "Optional" in qt(strip(inner(c)[0])):
            return "CmpNotEq"
        return "CmpUnknown"
    cs = conjuncts(e)
    guards = list(guards_first)
    for c in cs[:-1]:
        g = cond_of(c, cx)
        if not g or g[0] != "CHas":
            return "CmpUnknown"
        guards.append(g[1])
    core = cs[-1]
    if sorted(set(guards)) != ["Other", "This"]:
        return "CmpUnknown"
    op = None
    if core.get("kind") == "CXXOperatorCallExpr" and len(inner(core)) == 3:
        op, a, b = callee_name(core), inner(core)[1], inner(core)[2]
    elif core.get("kind") == "BinaryOperator":
        op, (a, b) = "operator" + core.get("opcode", ""), inner(core)
    if op in CMPS and op != "operator!=" and value_ref(a, cx) == "This" and value_ref(b, cx) == "Other":
        return "CmpGuarded %s" % CMPS[op]
    return "CmpUnknown"


# ------------------------------------------------------------------ Any
def any_facts(docs, notes):
    toks = {m: ["TUnknown"] for m in AMETHS}
    holder = "HOther"
    rec = None
    for d in docs:
        for x, _ in walk(d):
            if x.get("kind") == "CXXRecordDecl" and x.get("name") == "Any" and any(c.get("kind") == "FieldDecl" for c in inner(x)):
                rec = x
    if rec is None:
        notes.append("Any: record not found")
        return toks, holder
    for c in inner(rec):
        if c.get("kind") == "FieldDecl" and c.get("name") == "currentValue":
            t = (c.get("type", {}).get("desugaredQualType") or qt(c)).replace(" ", "")
            holder = "HUnique" if t.startswith("std::unique_ptr<") else "HShared" if t.startswith("std::shared_ptr<") else "HOther"
        if c.get("kind") == "CXXDestructorDecl":
            toks["AMDtor"] = ["TDefaulted"] if c.get("explicitlyDefaulted") == "default" else ["TUnknown"]
    if not any(c.get("kind") == "CXXDestructorDecl" and not c.get("isImplicit") for c in inner(rec)):
        toks["AMDtor"] = ["TDefaulted"]
    defs = {}
    for d in docs:
        for x, par in walk(d):
            if x.get("kind") in ("CXXMethodDecl", "CXXConstructorDecl") and body_of(x) is not None and \
                    (x.get("parentDeclContextId") == rec["id"] or any(p is rec or p.get("id") == rec["id"] for p in par)):
                t = qt(x)
                if re.search(r"\bT\b", t):
                    continue                      # the template pattern, not an instantiation
                defs.setdefault(x.get("name"), []).append(x)

    def is_cv(n, who):
        """n denotes who.currentValue (who: 'this' | param/var id)"""
        n = strip(n)
        if n.get("kind") != "MemberExpr" or n.get("name") != "currentValue" or not inner(n):
            return False
        b = strip(inner(n)[0])
        if who == "this":
            return b.get("kind") == "CXXThisExpr"
        return b.get("kind") == "DeclRefExpr" and (b.get("referencedDecl") or {}).get("id") == who

    def valid_call(n, who):
        n = strip(n)
        if n.get("kind") != "CXXMemberCallExpr" or len(inner(n)) != 1:
            return False
        c = inner(n)[0]
        if c.get("kind") != "MemberExpr" or c.get("name") != "valid":
            return False
        b = strip(inner(c)[0])
        if who == "this":
            return b.get("kind") == "CXXThisExpr"
        return b.get("kind") == "DeclRefExpr" and (b.get("referencedDecl") or {}).get("id") == who

    def not_valid(n, who):
        n = strip(n)
        return n.get("kind") == "UnaryOperator" and n.get("opcode") == "!" and valid_call(inner(n)[0], who)

    def deref_cv(n, who, meth):
        """who.currentValue->meth(...)"""
        n = strip(n)
        if n.get("kind") != "CXXMemberCallExpr":
            return False
        c = inner(n)[0]
        if c.get("kind") != "MemberExpr" or c.get("name") != meth or not inner(c):
            return False
        o = strip(inner(c)[0])
        return o.get("kind") == "CXXOperatorCallExpr" and callee_name(o) == "operator->" and is_cv(inner(o)[1], who)

    def has_new_handle(n):
        return any(x.get("kind") == "CXXNewExpr" and "handle<" in qt(x) for x, _ in walk(n))

    def cv_derefs(n):
        return [x for x, _ in walk(n) if x.get("kind") == "CXXOperatorCallExpr" and callee_name(x) in ("operator->", "operator*")
                and len(inner(x)) >= 2 and strip(inner(x)[1]).get("name") == "currentValue"]

    try:
        # copy constructor
        for d in defs.get("Any", []):
            ps = [p for p in inner(d) if p.get("kind") == "ParmVarDecl"]
            if len(ps) == 1 and qt(ps[0]).replace("rkcommon::utility::", "") == "const Any &":
                pid = ps[0]["id"]
                inits = [c for c in inner(d) if c.get("kind") == "CXXCtorInitializer" and c.get("anyInit", {}).get("name") == "currentValue"]
                tk = "TUnknown"
                if len(inits) == 1 and not stmts(body_of(d)):
                    e = strip(inner(inits[0])[0])
                    while e.get("kind") == "CXXConstructExpr" and len(inner(e)) == 1:
                        e = strip(inner(e)[0])
                    if e.get("kind") == "ConditionalOperator":
                        c, a, b = inner(e)
                        if valid_call(c, pid) and deref_cv(a, pid, "clone") and strip(b).get("kind") == "CXXNullPtrLiteralExpr":
                            tk = "TInitCloneIfValid"
                    elif is_cv(e, pid):
                        tk = "TInitShare"
                toks["AMCopyCtor"] = [tk]
            elif len(ps) == 1 and qt(ps[0]) == "int":
                inits = [c for c in inner(d) if c.get("kind") == "CXXCtorInitializer" and c.get("anyInit", {}).get("name") == "currentValue"]
                body = [s for s in stmts(body_of(d)) if not (strip(s).get("kind") == "DeclStmt" and all(
                    x.get("kind") == "StaticAssertDecl" for x in inner(strip(s))))]
                toks["AMValueCtor"] = ["TInitNewHandle"] if len(inits) == 1 and has_new_handle(inits[0]) and not body else ["TUnknown"]
        for d in defs.get("operator=", []):
            ps = [p for p in inner(d) if p.get("kind") == "ParmVarDecl"]
            ss = [s for s in stmts(body_of(d)) if not (strip(s).get("kind") == "DeclStmt" and all(
                x.get("kind") == "StaticAssertDecl" for x in inner(strip(s))))]
            ss = [s for s in ss if not (strip(s).get("kind") == "ReturnStmt")]
            if len(ps) == 1 and qt(ps[0]).replace("rkcommon::utility::", "") == "const Any &":
                pid = ps[0]["id"]
                out = []
                temp = None
                for s in ss:
                    s = strip(s)
                    if s.get("kind") == "DeclStmt" and len(inner(s)) == 1 and inner(s)[0].get("kind") == "VarDecl" and \
                            qt(inner(s)[0]).replace("rkcommon::utility::", "") == "Any":
                        vd = inner(s)[0]
                        init = strip(inner(vd)[0]) if inner(vd) else {}
                        a = strip(inner(init)[0]) if init.get("kind") == "CXXConstructExpr" and len(inner(init)) == 1 else {}
                        if a.get("kind") == "DeclRefExpr" and (a.get("referencedDecl") or {}).get("id") == pid:
                            temp = vd["id"]
                            out.append("TTempCopy"); continue
                    if s.get("kind") == "CXXOperatorCallExpr" and callee_name(s) == "operator=" and len(inner(s)) == 3 and is_cv(inner(s)[1], "this"):
                        r = strip(inner(s)[2])
                        if r.get("kind") == "CallExpr" and callee_name(r) == "move" and temp and is_cv(inner(r)[-1], temp):
                            out.append("TMoveFromTemp"); continue
                        if is_cv(r, pid):
                            out.append("TAssignShare"); continue
                    out.append("TUnknown")
                toks["AMCopyAssign"] = out or ["TUnknown"]
            elif len(ps) == 1 and qt(ps[0]) == "int":
                ok = len(ss) == 1 and strip(ss[0]).get("kind") == "CXXOperatorCallExpr" and callee_name(ss[0]) == "operator=" and \
                    is_cv(inner(strip(ss[0]))[1], "this") and has_new_handle(inner(strip(ss[0]))[2])
                toks["AMValueAssign"] = ["TAssignNewHandle"] if ok else ["TUnknown"]
        for d in defs.get("operator==", []):
            ps = [p for p in inner(d) if p.get("kind") == "ParmVarDecl"]
            pid = ps[0]["id"]
            out = []
            for s in stmts(body_of(d)):
                s = strip(s)
                if s.get("kind") == "IfStmt" and len(inner(s)) == 2:
                    c, t = inner(s)
                    c = strip(c)
                    ts = stmts(t)
                    if c.get("kind") == "BinaryOperator" and c.get("opcode") == "||" and len(ts) == 1 and strip(ts[0]).get("kind") == "ReturnStmt":
                        a, b = inner(c)
                        r = strip(inner(strip(ts[0]))[0])
                        if ((not_valid(a, "this") and not_valid(b, pid)) or (not_valid(a, pid) and not_valid(b, "this"))) and \
                                r.get("kind") == "BinaryOperator" and r.get("opcode") == "==" and \
                                sorted([valid_call(inner(r)[0], "this"), valid_call(inner(r)[1], pid)]) == [True, True]:
                            out.append("TGuardEitherInvalid"); continue
                if s.get("kind") == "ReturnStmt" and inner(s) and deref_cv(inner(s)[0], "this", "isSame"):
                    call = strip(inner(s)[0])
                    arg = strip(inner(call)[1]) if len(inner(call)) == 2 else {}
                    if arg.get("kind") == "CXXMemberCallExpr" and inner(arg)[0].get("name") == "get" and is_cv(inner(inner(arg)[0])[0], pid):
                        out.append("TRetIsSame"); continue
                out.append("TUnknown")
            toks["AMEq"] = out or ["TUnknown"]
        for d in defs.get("operator!=", []):
            ps = [p for p in inner(d) if p.get("kind") == "ParmVarDecl"]
            ss = stmts(body_of(d))
            ok = False
            if len(ss) == 1 and strip(ss[0]).get("kind") == "ReturnStmt":
                e = strip(inner(strip(ss[0]))[0])
                if e.get("kind") == "UnaryOperator" and e.get("opcode") == "!":
                    c = strip(inner(e)[0])
                    if c.get("kind") == "CXXOperatorCallExpr" and callee_name(c) == "operator==" and len(inner(c)) == 3:
                        a, b = strip(inner(c)[1]), strip(inner(c)[2])
                        ok = a.get("kind") == "UnaryOperator" and strip(inner(a)[0]).get("kind") == "CXXThisExpr" and \
                            b.get("kind") == "DeclRefExpr" and (b.get("referencedDecl") or {}).get("id") == ps[0]["id"]
                    if c.get("kind") == "CXXMemberCallExpr" and inner(c)[0].get("name") == "operator==" and len(inner(c)) == 2:
                        b = strip(inner(c)[1])
                        ok = strip(inner(inner(c)[0])[0]).get("kind") == "CXXThisExpr" and b.get("kind") == "DeclRefExpr" and \
                            (b.get("referencedDecl") or {}).get("id") == ps[0]["id"]
            toks["AMNe"] = ["TRetNotEq"] if ok else ["TUnknown"]
        for d in defs.get("get", []):
            key = "AMGetConst" if qt(d).rstrip().endswith("const") else "AMGet"
            out = []
            for s in stmts(body_of(d)):
                s = strip(s)
                if s.get("kind") == "IfStmt" and len(inner(s)) == 2 and not_valid(inner(s)[0], "this"):
                    ts = stmts(inner(s)[1])
                    if len(ts) == 1 and strip(ts[0]).get("kind") == "CXXThrowExpr":
                        out.append("TGuardInvalidThrow"); continue
                if s.get("kind") == "IfStmt" and len(inner(s)) == 3:
                    c, t, e = inner(s)
                    c = strip(c)
                    ts, es = stmts(t), stmts(e)
                    is_call = c.get("kind") == "CXXMemberCallExpr" and inner(c)[0].get("name") == "is" and \
                        strip(inner(inner(c)[0])[0]).get("kind") == "CXXThisExpr"
                    ret_ok = len(ts) == 1 and strip(ts[0]).get("kind") == "ReturnStmt" and \
                        any(deref_cv(x, "this", "data") for x, _ in walk(ts[0]) if x.get("kind") == "CXXMemberCallExpr")
                    throws = es and strip(es[-1]).get("kind") == "CXXThrowExpr"
                    if is_call and ret_ok and throws:
                        out.append("TTypedRetElseThrow"); continue
                out.append("TUnknown")
            toks[key] = out or ["TUnknown"]
        for d in defs.get("is", []):
            ss = stmts(body_of(d))
            ok = False
            if len(ss) == 1 and strip(ss[0]).get("kind") == "ReturnStmt":
                cs = conjuncts(inner(strip(ss[0]))[0])
                if len(cs) == 2 and valid_call(cs[0], "this"):
                    r = cs[1]
                    ok = r.get("kind") == "BinaryOperator" and r.get("opcode") == "==" and \
                        any(callee_name(x) == "strcmp" for x, _ in walk(r) if x.get("kind") == "CallExpr") and \
                        any(x.get("kind") == "CXXTypeidExpr" for x, _ in walk(r)) and \
                        any(deref_cv(x, "this", "valueTypeID") for x, _ in walk(r) if x.get("kind") == "CXXMemberCallExpr") and \
                        strip(inner(r)[1]).get("kind") == "IntegerLiteral" and strip(inner(r)[1]).get("value") == "0"
            toks["AMIs"] = ["TRetValidAndTypeEq"] if ok else ["TUnknown"]
        for d in defs.get("valid", []):
            ss = stmts(body_of(d))
            ok = False
            if len(ss) == 1 and strip(ss[0]).get("kind") == "ReturnStmt":
                e = strip(inner(strip(ss[0]))[0])
                if e.get("kind") == "BinaryOperator" and e.get("opcode") == "!=":
                    a, b = strip(inner(e)[0]), strip(inner(e)[1])
                    ok = a.get("kind") == "CXXMemberCallExpr" and inner(a)[0].get("name") == "get" and is_cv(inner(inner(a)[0])[0], "this") \
                        and b.get("kind") == "CXXNullPtrLiteralExpr"
                elif e.get("kind") == "CXXMemberCallExpr" and inner(e)[0].get("name") == "operator bool":
                    ok = is_cv(inner(inner(e)[0])[0], "this")
            toks["AMValid"] = ["TRetHolderNonNull"] if ok else ["TUnknown"]
        for d in defs.get("toString", []):
            b = body_of(d)
            all_d = cv_derefs(b)
            guarded = []
            for x, _ in walk(b):
                if x.get("kind") == "IfStmt" and valid_call(inner(x)[0], "this"):
                    guarded += cv_derefs(inner(x)[1])
            others = [x for x, _ in walk(b) if x.get("kind") == "MemberExpr" and x.get("name") == "currentValue"]
            if all_d and len(guarded) == len(all_d) and len(others) == len(all_d):
                toks["AMToString"] = ["TPrintNameIfValid"]
            elif all_d and not guarded:
                toks["AMToString"] = ["TPrintName"]
    except Exception as ex:
        notes.append("Any: %r" % (ex,))
    return toks, holder

# ------------------------------------------------------------------ getEnvVar.h and rktraits.h
KINDS = {"float": "KFloat", "int": "KInt", "std::string": "KStr"}


def env_facts(docs, notes):
    env = {k: ["EUnknown"] for k in ("KInt", "KFloat", "KStr")}
    generic = False
    for d in docs:
        for x, par in walk(d):
            if x.get("kind") != "FunctionDecl" or x.get("name") != "getEnvVar" or body_of(x) is None:
                continue
            t = qt(x)
            try:
                if par and par[-1].get("kind") == "FunctionTemplateDecl":
                    ss = [s for s in stmts(body_of(x)) if not (strip(s).get("kind") == "DeclStmt" and all(
                        c.get("kind") == "StaticAssertDecl" for c in inner(strip(s))))]
                    if len(ss) == 1 and strip(ss[0]).get("kind") == "ReturnStmt":
                        e = strip(inner(strip(ss[0]))[0]) if inner(strip(ss[0])) else {}
                        generic = (e.get("kind") == "InitListExpr" and not inner(e)) or (e.get("kind") == "CXXConstructExpr" and not inner(e))
                    continue
                m = re.match(r"^Optional<(.+)> \(const std::string &\)$", t)
                if not m or m.group(1) not in KINDS:
                    continue
                kind = KINDS[m.group(1)]
                pid = [c["id"] for c in inner(x) if c.get("kind") == "ParmVarDecl"][0]
                toks = []
                sid = fid = None
                for s0 in stmts(body_of(x)):
                    s1 = strip(s0)
                    if s1.get("kind") == "DeclStmt" and len(inner(s1)) == 1 and inner(s1)[0].get("kind") == "VarDecl" and inner(inner(s1)[0]):
                        vd = inner(s1)[0]
                        e = strip(inner(vd)[0])
                        if e.get("kind") == "CallExpr" and callee_name(e) == "getenv" and len(inner(e)) == 2:
                            a = strip(inner(e)[1])
                            if a.get("kind") == "CXXMemberCallExpr" and inner(a)[0].get("name") == "c_str" and \
                                    (strip(inner(inner(a)[0])[0]).get("referencedDecl") or {}).get("id") == pid:
                                sid = vd["id"]
                                toks.append("EGetenv"); continue
                        if e.get("kind") == "BinaryOperator" and e.get("opcode") == "!=" and qt(vd) == "bool" and sid:
                            a, b = strip(inner(e)[0]), strip(inner(e)[1])
                            refs = [(y.get("referencedDecl") or {}).get("id") for y in (a, b) if y.get("kind") == "DeclRefExpr"]
                            nulls = [y for y in (a, b) if y.get("kind") in ("CXXNullPtrLiteralExpr", "GNUNullExpr") or
                                     (y.get("kind") == "IntegerLiteral" and y.get("value") == "0")]
                            if refs == [sid] and len(nulls) == 1:
                                fid = vd["id"]
                                toks.append("EFoundNonNull"); continue
                        toks.append("EUnknown"); continue
                    if s1.get("kind") == "ReturnStmt" and inner(s1):
                        e = strip(inner(s1)[0])
                        while e.get("kind") == "CXXConstructExpr" and len(inner(e)) == 1:
                            e = strip(inner(e)[0])
                        if e.get("kind") == "ConditionalOperator" and fid:
                            c, a, b = inner(e)
                            c, a, b = strip(c), strip(a), strip(b)
                            while a.get("kind") == "CXXConstructExpr" and "Optional<" in qt(a) and len(inner(a)) == 1 and \
                                    strip(inner(a)[0]).get("kind") == "CXXConstructExpr" and "Optional<" in qt(strip(inner(a)[0])):
                                a = strip(inner(a)[0])          # copy/move construction of the temporary Optional<K>(...)
                            conv = "CvOther"
                            uses_str = [y for y, _ in walk(a) if y.get("kind") == "DeclRefExpr" and (y.get("referencedDecl") or {}).get("id") == sid]
                            calls = [callee_name(y) for y, _ in walk(a) if y.get("kind") == "CallExpr"]
                            if a.get("kind") == "CXXConstructExpr" and "Optional<" in qt(a) and len(inner(a)) == 1 and len(uses_str) == 1:
                                if kind == "KInt" and calls == ["atoi"]:
                                    conv = "CvAtoi"
                                elif kind == "KFloat" and calls == ["atof"] and any(
                                        y.get("kind") in ("CStyleCastExpr", "CXXStaticCastExpr", "ImplicitCastExpr") and qt(y) == "float" for y, _ in walk(a)):
                                    conv = "CvAtofFloat"
                                elif kind == "KStr" and not calls and any(y.get("kind") in ("CXXConstructExpr", "CXXFunctionalCastExpr", "CXXTemporaryObjectExpr")
                                                                         and "string" in qt(y) and "Optional" not in qt(y) for y, _ in walk(a)):
                                    conv = "CvString"
                            while b.get("kind") == "CXXConstructExpr" and "Optional<" in qt(b) and len(inner(b)) == 1 and \
                                    strip(inner(b)[0]).get("kind") in ("CXXConstructExpr", "CXXTemporaryObjectExpr") and "Optional<" in qt(strip(inner(b)[0])):
                                b = strip(inner(b)[0])
                            else_ok = b.get("kind") in ("CXXConstructExpr", "CXXTemporaryObjectExpr") and "Optional<" in qt(b) and not inner(b)
                            cond_ok = c.get("kind") == "DeclRefExpr" and (c.get("referencedDecl") or {}).get("id") == fid
                            toks.append("ERetFoundConvElseEmpty %s" % conv if cond_ok and else_ok else "EUnknown"); continue
                        toks.append("EUnknown"); continue
                    toks.append("EUnknown")
                env[kind] = toks or ["EUnknown"]
            except Exception as ex:
                notes.append("getEnvVar %s: %r" % (t, ex))
    return env, generic


def trait_facts(docs, notes):
    tf = dict(tf_eq_int=False, tf_eq_string=False, tf_eq_payload=False, tf_eq_noeq=True, tf_same_dispatch=False,
              tf_impl_eq_shape=False, tf_impl_noeq_false=False)
    probes = {"has_eq_int": "tf_eq_int", "has_eq_string": "tf_eq_string", "has_eq_payload": "tf_eq_payload", "has_eq_noeq": "tf_eq_noeq"}
    seen = set()
    same, impl_eq, impl_no = [], [], []
    try:
        for d in docs:
            for x, par in walk(d):
                if x.get("kind") == "VarDecl" and x.get("name") in probes:
                    t = (x.get("type", {}).get("desugaredQualType") or "").replace(" ", "")
                    if t in ("std::integral_constant<bool,true>", "std::integral_constant<bool,false>"):
                        tf[probes[x["name"]]] = t.endswith("true>")
                        seen.add(x["name"])
                if x.get("kind") == "CXXMethodDecl" and body_of(x) is not None and any(
                        p.get("kind") == "ClassTemplateSpecializationDecl" and p.get("name") == "handle" for p in par):
                    ss = stmts(body_of(x))
                    e = strip(inner(strip(ss[0]))[0]) if len(ss) == 1 and strip(ss[0]).get("kind") == "ReturnStmt" and inner(strip(ss[0])) else None
                    if x.get("name") == "isSame":
                        ok = e is not None and e.get("kind") == "CXXMemberCallExpr" and inner(e)[0].get("name") == "isSameImpl" and \
                            strip(inner(inner(e)[0])[0]).get("kind") == "CXXThisExpr" and len(inner(e)) == 2
                        same.append(ok)
                    if x.get("name") == "isSameImpl":
                        rt = qt(x)
                        if "NoOperatorEquals<" in rt:
                            impl_no.append(e is not None and e.get("kind") == "CXXBoolLiteralExpr" and e.get("value") in (False, "false", "False"))
                        elif "HasOperatorEquals<" in rt:
                            ss2 = stmts(body_of(x))
                            ok = False
                            if len(ss2) == 2 and strip(ss2[0]).get("kind") == "DeclStmt" and strip(ss2[1]).get("kind") == "ReturnStmt":
                                vd = inner(strip(ss2[0]))[0]
                                dc = [y for y, _ in walk(vd) if y.get("kind") == "CXXDynamicCastExpr"]
                                cs = conjuncts(inner(strip(ss2[1]))[0])
                                if dc and len(cs) == 2:
                                    n0, eq = cs
                                    nullt = n0.get("kind") == "BinaryOperator" and n0.get("opcode") == "!=" and \
                                        any((y.get("referencedDecl") or {}).get("id") == vd["id"] for y, _ in walk(n0) if y.get("kind") == "DeclRefExpr") and \
                                        any(y.get("kind") == "CXXNullPtrLiteralExpr" for y, _ in walk(n0))
                                    vals = [y for y, _ in walk(eq) if y.get("kind") == "MemberExpr" and y.get("name") == "value"]
                                    iseq = (eq.get("kind") == "BinaryOperator" and eq.get("opcode") == "==") or \
                                        (eq.get("kind") == "CXXOperatorCallExpr" and callee_name(eq) == "operator==")
                                    ok = nullt and iseq and len(vals) == 2
                            impl_eq.append(ok)
        tf["tf_same_dispatch"] = bool(same) and all(same)
        tf["tf_impl_eq_shape"] = bool(impl_eq) and all(impl_eq)
        tf["tf_impl_noeq_false"] = bool(impl_no) and all(impl_no)
        if len(seen) != 4:
            notes.append("trait probes found: %s" % sorted(seen))
            tf["tf_eq_noeq"] = True
    except Exception as ex:
        notes.append("traits: %r" % (ex,))
    return tf

# ------------------------------------------------------------------ inventory closure
ANCHORED = ("rkcommon/utility/Optional.h", "rkcommon/utility/Any.h", "rkcommon/utility/getEnvVar.h", "rkcommon/traits/rktraits.h")
MEMBER_KINDS = ("CXXConstructorDecl", "CXXDestructorDecl", "CXXMethodDecl", "CXXConversionDecl", "FieldDecl")


def _tparams(t):
    out = []
    for x in inner(t):
        k = x.get("kind")
        if k == "TemplateTypeParmDecl":
            out.append(("..." if x.get("isParameterPack") else "") + (x.get("name") or "_"))
        elif k == "NonTypeTemplateParmDecl":
            out.append(qt(x) + " " + (x.get("name") or "_"))
    return ",".join(out)


def _sig(c, cls=None):
    k = c.get("kind")
    nm = c.get("name") or ""
    pre = (cls + "::") if cls else ""
    if k == "FieldDecl":
        return "%s%s : %s%s" % (pre, nm, "alignas " if any(a.get("kind") == "AlignedAttr" for a in inner(c)) else "", qt(c))
    t = qt(c)
    suffix = " = delete" if c.get("explicitlyDeleted") else (" = default" if c.get("explicitlyDefaulted") == "default" else "")
    if c.get("pure"):
        suffix += " = 0"
    virt = "virtual " if c.get("virtual") else ""
    if k in ("CXXConstructorDecl", "CXXDestructorDecl", "CXXConversionDecl"):
        base = nm.split("<")[0] if k != "CXXConversionDecl" else nm
        return "%s%s%s%s%s" % (pre, virt, base, t[t.find("("):] if "(" in t else "()", suffix)
    ret = t[:t.find("(")].strip() if "(" in t else t
    return "%s%s%s %s%s%s" % (pre, virt, ret, nm, t[t.find("("):] if "(" in t else "", suffix)


def _record_members(rec, cls, inv):
    for c in inner(rec):
        k = c.get("kind")
        if c.get("isImplicit") or k in ("AccessSpecDecl", "StaticAssertDecl"):
            continue
        if k == "CXXRecordDecl":
            if inner(c):
                inv.append("%s::struct %s%s" % (cls, c.get("name"), "".join(" : " + b.get("type", {}).get("qualType", "") for b in c.get("bases", []))))
                _record_members(c, cls + "::" + c.get("name"), inv)
            continue
        if k == "ClassTemplateDecl":
            rs = [x for x in inner(c) if x.get("kind") == "CXXRecordDecl"]
            if rs:
                inv.append("%s::template<%s> struct %s%s" % (cls, _tparams(c), c.get("name"),
                           "".join(" : " + b.get("type", {}).get("qualType", "") for b in rs[0].get("bases", []))))
                _record_members(rs[0], "%s::%s<%s>" % (cls, c.get("name"), _tparams(c)), inv)
            continue
        if k == "FunctionTemplateDecl":
            ds = [x for x in inner(c) if x.get("kind") in MEMBER_KINDS]
            if ds:
                inv.append("%s::template<%s> %s" % (cls, _tparams(c), _sig(ds[0])))
            continue
        if k in MEMBER_KINDS:
            inv.append(_sig(c, cls))
            continue
        if k in ("TypeAliasDecl", "TypedefDecl", "EnumDecl", "EnumConstantDecl", "VarDecl", "FriendDecl", "UsingDecl"):
            if k == "EnumDecl":
                inv.append("%s::enum {%s}" % (cls, ",".join(x.get("name") or "" for x in inner(c))))
            else:
                inv.append("%s::%s %s" % (cls, k, c.get("name")))
            continue
        inv.append("%s::%s %s" % (cls, k, c.get("name")))


def inventory(docs_u, docs_t, notes):
    """every declaration the four anchored headers make at namespace level, and every member of the classes they define
    (in-class declarations; out-of-line definitions of members are the same declarations)"""
    inv = []
    special = {}
    cur = [None]

    def upd(loc):
        if not isinstance(loc, dict):
            return
        for k in ("spellingLoc", "expansionLoc"):
            if k in loc:
                upd(loc[k])
        if "file" in loc:
            cur[0] = os.path.normpath(loc["file"])

    def file_of(n):
        upd(n.get("loc"))
        upd((n.get("range") or {}).get("begin"))
        return cur[0] or ""

    def skim(n):             # keep the printer's "current file" state in step with the dump
        upd(n.get("loc"))
        r = n.get("range") or {}
        upd(r.get("begin"))
        for c in n.get("inner", []) or []:
            if isinstance(c, dict):
                skim(c)
        upd(r.get("end"))

    for docs, ns in ((docs_u, "utility"), (docs_t, "traits")):
        for d in docs:
            if d.get("kind") != "NamespaceDecl" or d.get("name") != ns:
                skim(d)
                continue
            file_of(d)
            for c in inner(d):
                f = file_of(c)
                anchored = any(f.endswith(a) for a in ANCHORED)
                k = c.get("kind")
                if anchored and not c.get("isImplicit"):
                    if k == "ClassTemplateDecl":
                        rs = [x for x in inner(c) if x.get("kind") == "CXXRecordDecl"]
                        if rs and inner(rs[0]):
                            inv.append("%s::template<%s> struct %s" % (ns, _tparams(c), c.get("name")))
                            _record_members(rs[0], "%s<%s>" % (c.get("name"), _tparams(c)), inv)
                    elif k == "CXXRecordDecl":
                        if inner(c):
                            inv.append("%s::struct %s" % (ns, c.get("name")))
                            _record_members(c, c.get("name"), inv)
                            dd = c.get("definitionData") or {}
                            special[c.get("name")] = {kk: dd.get(kk) for kk in ("copyCtor", "moveCtor", "copyAssign", "moveAssign", "dtor", "defaultCtor")}
                    elif k == "FunctionTemplateDecl":
                        ds = [x for x in inner(c) if x.get("kind") == "FunctionDecl"]
                        if ds:                           # (member templates defined out of line are CXXMethodDecl: skipped)
                            inv.append("%s::template<%s> %s" % (ns, _tparams(c), _sig(ds[0])))
                    elif k == "FunctionDecl":
                        inv.append("%s::%s%s" % (ns, "template<> " if any(x.get("kind") == "TemplateArgument" for x in inner(c)) else "", _sig(c)))
                    elif k in ("TypeAliasDecl", "TypedefDecl"):
                        inv.append("%s::using %s = %s" % (ns, c.get("name"), qt(c)))
                    elif k == "TypeAliasTemplateDecl":
                        inv.append("%s::template<%s> using %s" % (ns, _tparams(c), c.get("name")))
                    elif k in ("CXXConstructorDecl", "CXXDestructorDecl", "CXXMethodDecl", "CXXConversionDecl"):
                        pass                             # out-of-line definition of a member declared in its class
                    elif k == "NamespaceDecl":
                        pass
                    else:
                        inv.append("%s::%s %s" % (ns, k, c.get("name")))
                skim(c)
    return inv, special



def extract(repo, work):
    notes = []
    docs = dump(repo, work)
    table, misc, lay = optional_facts(docs, notes)
    cmp = free_functions(docs, table, notes)
    toks, holder = any_facts(docs, notes)
    env, generic = env_facts(docs, notes)
    tf = trait_facts(docs, notes)
    try:
        inv, special = inventory(docs, dump(repo, work, "rkcommon::traits", "ast_traits.json"), notes)
    except Exception as ex:
        notes.append("inventory: %r" % (ex,))
        inv, special = [], {}
    return dict(inventory=inv, special_members=special, env=env, env_generic=generic, traits=tf, table={m: {"fresh": table[m][0], "prog": table[m][1]} for m in METHS}, cmp=cmp, misc=misc, lay=lay,
                any=toks, holder=holder, notes=notes)


def unknown_facts(note):
    return dict(table={m: {"fresh": False, "prog": ["OUnknown"]} for m in METHS}, cmp={v: "CmpUnknown" for v in CMPS.values()},
                misc={k: False for k in MISC},
                lay=dict(lf_alignas_payload=False, lf_align_value=0, lf_elem_bytes=0, lf_extent=0, lf_payload_align=P_ALIGN,
                         lf_payload_size=P_SIZE, lf_flag_default_false=False),
                any={m: ["TUnknown"] for m in AMETHS}, holder="HOther", notes=[note],
                inventory=[], special_members={},
                env={k: ["EUnknown"] for k in ("KInt", "KFloat", "KStr")}, env_generic=False,
                traits=dict(tf_eq_int=False, tf_eq_string=False, tf_eq_payload=False, tf_eq_noeq=True, tf_same_dispatch=False,
                            tf_impl_eq_shape=False, tf_impl_noeq_false=False))


def coq_text(f):
    b = lambda x: "true" if x else "false"
    L = ["(* GENERATED by props/C09/factgen.py from the working tree - do not edit, not under version control. *)",
         "From Coq Require Import List NArith.", "From C09 Require Import Model Env Micro.", "Import ListNotations.",
         "Local Open Scope N_scope.", ""]
    for m in METHS:
        e = f["table"][m]
        L.append("Definition gen_%s : mfact := {| mf_fresh := %s; mf_prog := [%s] |}." % (m, b(e["fresh"]), "; ".join(e["prog"])))
    L += ["", "Definition gen_table (m : meth) : mfact :=", "  match m with"]
    L += ["  | %s => gen_%s" % (m, m) for m in METHS]
    L += ["  end.", "", "Definition gen_cmp (o : cmpop) : cmpfact :=", "  match o with"]
    L += ["  | %s => %s" % (k, f["cmp"][k]) for k in ("CEq", "CNe", "CLt", "CLe", "CGt", "CGe")]
    L += ["  end.", "", "Definition gen_misc : optmisc :=", "  {| " + "; ".join("%s := %s" % (k, b(f["misc"][k])) for k in MISC) + " |}.", ""]
    lay = f["lay"]
    L += ["Definition gen_lay : layfact :=",
          "  {| lf_alignas_payload := %s; lf_align_value := %d; lf_elem_bytes := %d; lf_extent := %d; lf_payload_align := %d; "
          "lf_payload_size := %d; lf_flag_default_false := %s |}." % (b(lay["lf_alignas_payload"]), lay["lf_align_value"], lay["lf_elem_bytes"],
                                                                   lay["lf_extent"], lay["lf_payload_align"], lay["lf_payload_size"],
                                                                   b(lay["lf_flag_default_false"])), ""]
    L += ["Definition gen_any (m : ameth) : list atok :=", "  match m with"]
    L += ["  | %s => [%s]" % (m, "; ".join(f["any"][m])) for m in AMETHS]
    L += ["  end.", "", "Definition gen_holder : holderkind := %s." % f["holder"], ""]
    L += ["Definition gen_env (k : kind) : list etok :=", "  match k with"]
    L += ["  | %s => [%s]" % (k, "; ".join(f["env"][k])) for k in ("KInt", "KFloat", "KStr")]
    L += ["  end.", "", "Definition gen_env_generic_empty : bool := %s." % b(f["env_generic"]), ""]
    sp = (f.get("special_members") or {}).get("Any") or {}
    ex = lambda k: bool((sp.get(k) or {}).get("exists") or (sp.get(k) or {}).get("userDeclared"))
    L += ["Definition gen_anyspecial : anyspecial :=",
          "  {| as_copy_ctor_user := %s; as_copy_assign_user := %s; as_move_ctor_exists := %s; as_move_assign_exists := %s |}."
          % (b((sp.get("copyCtor") or {}).get("userDeclared")), b((sp.get("copyAssign") or {}).get("userDeclared")),
             b(ex("moveCtor") if sp else True), b(ex("moveAssign") if sp else True)), ""]
    tfk = ["tf_eq_int", "tf_eq_string", "tf_eq_payload", "tf_eq_noeq", "tf_same_dispatch", "tf_impl_eq_shape", "tf_impl_noeq_false"]
    L += ["Definition gen_traits : traitfacts :=", "  {| " + "; ".join("%s := %s" % (k, b(f["traits"][k])) for k in tfk) + " |}.", ""]
    return "\n".join(L)


def main(argv):
    repo = os.environ.get("VERIF_REPO", "/repo")
    out = js = None
    work = "/tmp/c09-factgen-%d" % os.getpid()
    i = 0
    while i < len(argv):
        if argv[i] in ("--repo", "--out", "--json", "--work") and i + 1 < len(argv):
            v = argv[i + 1]
            if argv[i] == "--repo": repo = v
            elif argv[i] == "--out": out = v
            elif argv[i] == "--json": js = v
            else: work = v
            i += 2
        else:
            i += 1
    try:
        facts = extract(repo, work)
    except Exception as ex:
        facts = unknown_facts("extraction failed: %r" % (ex,))
    txt = coq_text(facts)
    if out:
        os.makedirs(os.path.dirname(os.path.abspath(out)), exist_ok=True)
        if not os.path.exists(out) or open(out).read() != txt:
            with open(out, "w") as f:
                f.write(txt)
    else:
        print(txt)
    if js:
        with open(js, "w") as f:
            json.dump(facts, f, indent=1)
    return 0


if __name__ == "__main__":
    sys.exit(main(sys.argv[1:]))
