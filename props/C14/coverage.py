"""C14 inventory: every declaration of rkcommon/memory/malloc.h, malloc.cpp, containers/aligned_allocator.h, AlignedVector.h
(keys as produced by declscan.py from the clang AST on every run, + the #define's of those files) mapped to the harness case
kinds that EXECUTE it and the theorems / regenerated obligations about it, or excluded with a reason tied to the property text.
props/C14/check.py fails closed when a file declares something that is in neither table (new function, overload, member,
parameter list), when a listed declaration disappeared or changed its signature, when a covered declaration has zero executed
cases in the run, or when a named theorem is not discharged.
Implicitly-declared special members: aligned_allocator declares its default/copy constructor and destructor (= default) and
deletes copy assignment, which suppresses the implicit moves; there is nothing implicit left to list.
Case kinds: M max_size, G allocate, I isAligned, P ALIGN_PTR, S the assert, H alignedMalloc/alignedFree histories,
T typed alignedMalloc<T>, V/W AlignedVector histories (trivial / non-trivially-copyable elements), A remaining members."""
AA = "aligned_allocator.h aligned_allocator::"


def C(kinds, thms="", note=""):
    return {"kinds": kinds.split(), "theorems": thms.split(), "note": note}


VEC = "vector_data_aligned_after_every_history vector_ownership_every_history vector_elements_survive_reallocation"
COVER = {
    "AlignedVector.h AlignedVector <alias>": C("V W", VEC, "every vector case is an AlignedVector<T>"),
    "aligned_allocator.h #define OSPRAY_DEFAULT_ALIGNMENT":
        C("V W G A", "gen_allocate_sizeof_1 gen_allocate_sizeof_8 vector_data_aligned_after_every_history", "data() % 64; request alignment 64"),
    AA + "pointer <alias>": C("V W", "", "std::allocator_traits of the vector (compile time)"),
    AA + "const_pointer <alias>": C("V W", "", "compile time"),
    AA + "reference <alias>": C("V W", "", "compile time"),
    AA + "const_reference <alias>": C("V W", "", "compile time"),
    AA + "value_type <alias>": C("V W", "", "compile time"),
    AA + "size_type <alias>": C("V W", "", "compile time"),
    AA + "difference_type <alias>": C("V W", "", "compile time"),
    "aligned_allocator.h rebind::other <alias>":
        C("A V W", "", "A: rebind<double>::other of the default-alignment allocator is aligned_allocator<double>; std::vector rebinds its allocator. "
          "NOTE rebind drops a non-default alignment parameter (reported as a possible finding outside the property text: AlignedVector uses the default)"),
    AA + "<constructor> void ()": C("A G V W"),
    AA + "<constructor> void (const aligned_allocator<T, alignment> &)": C("A V W", "", "the vector stores a copy"),
    AA + "<destructor> void ()": C("A G V W"),
    AA + "<constructor> void (const aligned_allocator<U, OA> &)":
        C("A", "", "aligned_allocator<int> from aligned_allocator<double> and from aligned_allocator<int,4096> (other T, other alignment)"),
    AA + "address T *(T &) const": C("A"),
    AA + "address const T *(const T &) const": C("A"),
    AA + "max_size size_t () const":
        C("M A G", "gen_max_size_sizeof_1 gen_max_size_sizeof_2 gen_max_size_sizeof_4 gen_max_size_sizeof_8 allocate_no_overflow allocate_guard_tight"),
    AA + "operator!= bool (const aligned_allocator<T, alignment> &) const":
        C("A", "", "also between allocators of another T / alignment after conversion: never unequal"),
    AA + "operator== bool (const aligned_allocator<T, alignment> &) const":
        C("A", "free_exactly_once", "always true, also for another T / alignment after conversion; sound because deallocate only forwards the pointer to "
          "alignedFree, which does not depend on T or the alignment: A allocates with alignment 4096 and releases through an int/64 allocator"),
    AA + "construct void (T *const, const T &) const":
        C("W V", "gen_construct_is_placement_copy element_constructed_once reallocation_constructs_then_destroys"),
    AA + "destroy void (T *const) const":
        C("W V", "gen_destroy_is_destructor_call element_destroyed_once constructed_equals_destroyed"),
    AA + "allocate T *(const size_t) const":
        C("G V W A", "gen_allocate_sizeof_1 gen_allocate_sizeof_2 gen_allocate_sizeof_4 gen_allocate_sizeof_8 allocate_outcomes allocate_length_error_first"),
    AA + "deallocate void (T *const, const size_t) const":
        C("G V W A", "free_exactly_once vector_ownership_every_history", "spy: every block freed exactly once, no leak"),
    AA + "allocate T *(const size_t, const U *) const": C("A", "", "with a hint: aligned pointer, length_error above max_size"),
    "malloc.cpp alignedMalloc void *(size_t, size_t)": C("H S G T V W", "alignedMalloc_spec heap_integrity_history", "both back ends + spy"),
    "malloc.cpp alignedFree void (void *)": C("H G T V W", "free_exactly_once other_blocks_intact free_of_dead_pointer_rejected"),
    "malloc.h #define ALIGN_PTR(ptr, alignment)": C("P", "gen_ALIGN_PTR_size_t gen_ALIGN_PTR_int align_ptr_spec align_ptr_wrap"),
    "malloc.h alignedMalloc void *(size_t, size_t)": C("H S"),
    "malloc.h alignedFree void (void *)": C("H"),
    "malloc.h alignedMalloc T *(size_t, size_t)":
        C("T", "gen_typed_alignedMalloc_sizeof_4 gen_typed_alignedMalloc_sizeof_8 gen_typed_request_forwards_alignment"),
    "malloc.h isAligned bool (void *, int)": C("I H V W", "gen_isAligned_expr gen_isAligned_default_alignment isAligned_spec isAligned_negative_int"),
    "malloc.h #define STACK_BUFFER(TYPE, nElements)": C("A", "", "alloca buffer is writable"),
}
EXCLUDE = {
    AA + "operator= aligned_allocator<T, alignment> &(const aligned_allocator<T, alignment> &)":
        "= delete: cannot be called",
    AA + "operator= aligned_allocator<T, alignment> &(const aligned_allocator<U, OA> &)":
        "never instantiated by the library or std::vector; its body is empty WITHOUT a return statement, so a call is undefined "
        "behaviour in itself (latent, outside the property: the allocator has no state to assign)",
}
