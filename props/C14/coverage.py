"""C14: every declaration of rkcommon/memory/malloc.h, malloc.cpp, containers/aligned_allocator.h, AlignedVector.h (keys as
produced by declscan.py from the clang AST + the #define's) with the harness case kind(s) / theorem(s) that cover it, or the
reason why it is excluded.  props/C14/check.py fails when one of the files declares something that is in neither table (a new
function, overload, member, parameter list) or when a listed declaration disappeared.
Case kinds: M max_size, G allocate, I isAligned, P ALIGN_PTR, S the assert, H alignedMalloc/alignedFree histories,
T typed alignedMalloc<T>, V/W AlignedVector histories (trivial / non-trivially-copyable elements), A remaining members."""
AA = "aligned_allocator.h aligned_allocator::"
COVER = {
    "AlignedVector.h AlignedVector <alias>": "V, W (every vector case is an AlignedVector<T>); theorems vector_*",
    "aligned_allocator.h #define OSPRAY_DEFAULT_ALIGNMENT": "V, W (data() % 64), G with A=64; gen_allocate_sizeof_* (request alignment 64)",
    AA + "pointer <alias>": "V, W (std::allocator_traits of the vector), compile time",
    AA + "const_pointer <alias>": "V, W, compile time",
    AA + "reference <alias>": "V, W, compile time",
    AA + "const_reference <alias>": "V, W, compile time",
    AA + "value_type <alias>": "V, W, compile time",
    AA + "size_type <alias>": "V, W, compile time",
    AA + "difference_type <alias>": "V, W, compile time",
    "aligned_allocator.h rebind::other <alias>": "A (rebind<double>::other is aligned_allocator<double>); V, W (std::vector rebinds its allocator)",
    AA + "<constructor> void ()": "A, G, V, W",
    AA + "<constructor> void (const aligned_allocator<T, alignment> &)": "A (copy), V, W (the vector stores a copy)",
    AA + "<destructor> void ()": "A, G, V, W",
    AA + "<constructor> void (const aligned_allocator<U, OA> &)": "A (aligned_allocator<int> from aligned_allocator<double>)",
    AA + "address T *(T &) const": "A",
    AA + "address const T *(const T &) const": "A",
    AA + "max_size size_t () const": "M, A; gen_max_size_sizeof_*; allocate_no_overflow, allocate_guard_tight",
    AA + "operator!= bool (const aligned_allocator<T, alignment> &) const": "A; V, W (swap)",
    AA + "operator== bool (const aligned_allocator<T, alignment> &) const": "A; V, W (swap)",
    AA + "construct void (T *const, const T &) const": "W (std::string, std::vector<int>, instrumented element), V; gen_construct_is_placement_copy; lifetime theorems",
    AA + "destroy void (T *const) const": "W, V; gen_destroy_is_destructor_call; lifetime theorems",
    AA + "allocate T *(const size_t) const": "G, V, W; gen_allocate_sizeof_*; allocate_outcomes, allocate_length_error_first",
    AA + "deallocate void (T *const, const size_t) const": "G, V, W, A (spy: every block freed exactly once, no leak); free_exactly_once, vector_ownership_every_history",
    AA + "allocate T *(const size_t, const U *) const": "A (with a hint: aligned pointer, length_error above max_size)",
    "malloc.cpp alignedMalloc void *(size_t, size_t)": "H, S (both back ends + spy), under G/V/W/T; alignedMalloc_spec, heap_integrity_history",
    "malloc.cpp alignedFree void (void *)": "H; free_exactly_once, other_blocks_intact",
    "malloc.h #define ALIGN_PTR(ptr, alignment)": "P; gen_ALIGN_PTR_size_t, gen_ALIGN_PTR_int; align_ptr_spec",
    "malloc.h alignedMalloc void *(size_t, size_t)": "H, S",
    "malloc.h alignedFree void (void *)": "H",
    "malloc.h alignedMalloc T *(size_t, size_t)": "T (sizeof(T) 1,4,8,12,72 x alignments 1..4096); gen_typed_alignedMalloc_sizeof_*, gen_typed_request_forwards_alignment",
    "malloc.h isAligned bool (void *, int)": "I, H, V, W; gen_isAligned_expr; isAligned_spec",
    "malloc.h #define STACK_BUFFER(TYPE, nElements)": "A (alloca buffer is writable)",
}
EXCLUDE = {
    AA + "operator= aligned_allocator<T, alignment> &(const aligned_allocator<T, alignment> &)":
        "= delete: cannot be called",
    AA + "operator= aligned_allocator<T, alignment> &(const aligned_allocator<U, OA> &)":
        "never instantiated by the library or std::vector; its body is empty WITHOUT a return statement, so a call is undefined "
        "behaviour in itself (latent, outside the property: the allocator has no state to assign)",
}
