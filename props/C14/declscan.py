"""C14: enumerate EVERY declaration of rkcommon/memory/malloc.h, malloc.cpp, containers/aligned_allocator.h and
AlignedVector.h from the clang JSON AST (functions, overloads, function templates, members of aligned_allocator incl. its
constructors/operators, nested types, aliases) plus the #define's of those files.  Template instantiations and implicit
members are skipped (a pattern is listed once; an out-of-line definition has the key of its declaration).
Key: '<file> [Class::]<name> <declared type>' -- stable under edits of function bodies, changes when a function, an
overload or a parameter is added.  props/C14/coverage.py must mention every key (covered or excluded with a reason)."""
import os, re, subprocess, sys
FILES = ("malloc.h", "malloc.cpp", "aligned_allocator.h", "AlignedVector.h")
PATHS = ("rkcommon/memory/malloc.h", "rkcommon/memory/malloc.cpp", "rkcommon/containers/aligned_allocator.h",
         "rkcommon/containers/AlignedVector.h")
FUNCS = ("FunctionDecl", "CXXMethodDecl", "CXXConstructorDecl", "CXXDestructorDecl", "CXXConversionDecl")
OTHER = ("TypeAliasDecl", "TypedefDecl", "CXXRecordDecl", "VarDecl", "FieldDecl", "EnumDecl")


def scan(docs):
    st = {"file": "", "line": 0}
    keys = {}

    def loc(o):
        if isinstance(o, dict):
            if "file" in o: st["file"] = o["file"]
            if "line" in o: st["line"] = o["line"]
            for k in ("spellingLoc", "expansionLoc", "begin", "end"):
                if k in o: loc(o[k])

    def walk(n, cls, inst):
        k = n.get("kind")
        here = None
        for key, val in n.items():
            if key == "loc":
                loc(val.get("expansionLoc", val) if isinstance(val, dict) else val)
                here = (os.path.basename(st["file"]), st["line"])
            elif key == "range":
                loc(val)
            elif key == "inner":
                if here is not None and not inst and here[0] in FILES and not n.get("isImplicit"):
                    name = n.get("name", "")
                    if k in FUNCS:
                        if not (n.get("explicitlyDefaulted") == "deleted" and False):
                            nm = {"CXXConstructorDecl": "<constructor>", "CXXDestructorDecl": "<destructor>"}.get(k, name)
                            keys.setdefault("%s %s%s %s" % (here[0], (cls + "::") if cls else "", nm, n.get("type", {}).get("qualType", "")), here[1])
                    elif k in OTHER and name and not (k == "CXXRecordDecl" and name == cls):
                        keys.setdefault("%s %s%s <%s>" % (here[0], (cls + "::") if cls else "", name,
                                                          {"TypeAliasDecl": "alias", "TypedefDecl": "alias", "CXXRecordDecl": "class",
                                                           "VarDecl": "variable", "FieldDecl": "field", "EnumDecl": "enum"}[k]), here[1])
                first_fn, first_rec = True, True
                for c in val:
                    if not isinstance(c, dict): continue
                    ck = c.get("kind")
                    if k in FUNCS:
                        walk(c, cls, True)                      # nothing inside a function body is a declaration of interest
                    elif k == "FunctionTemplateDecl" and ck in FUNCS:
                        walk(c, cls, inst or not first_fn); first_fn = False
                    elif k == "ClassTemplateDecl" and ck == "CXXRecordDecl":
                        walk(c, c.get("name", "") if first_rec else cls, inst or not first_rec); first_rec = False
                    elif ck == "ClassTemplateSpecializationDecl":
                        walk(c, cls, True)
                    elif ck == "CXXRecordDecl" and k not in ("ClassTemplateDecl",) and not c.get("isImplicit"):
                        walk(c, c.get("name", "") or cls, inst)
                    elif k == "TypeAliasTemplateDecl" and ck == "TypeAliasDecl":
                        walk(c, cls, inst)
                    else:
                        walk(c, cls, inst)
        # a node without 'inner' (e.g. a declaration without body / an alias)
        if "inner" not in n and here is not None and not inst and here[0] in FILES and not n.get("isImplicit"):
            name = n.get("name", "")
            if k in FUNCS:
                nm = {"CXXConstructorDecl": "<constructor>", "CXXDestructorDecl": "<destructor>"}.get(k, name)
                keys.setdefault("%s %s%s %s" % (here[0], (cls + "::") if cls else "", nm, n.get("type", {}).get("qualType", "")), here[1])
            elif k in OTHER and name:
                keys.setdefault("%s %s%s <%s>" % (here[0], (cls + "::") if cls else "", name,
                                                  {"TypeAliasDecl": "alias", "TypedefDecl": "alias", "CXXRecordDecl": "class",
                                                   "VarDecl": "variable", "FieldDecl": "field", "EnumDecl": "enum"}[k]), here[1])

    for d in docs:
        walk(d, None, False)
    norm = {}
    for k, line in keys.items():
        f, rest = k.split(" ", 1)
        rest = rest.replace("aligned_allocator<T, A>", "aligned_allocator<T, alignment>")
        if f == "aligned_allocator.h" and "::" not in rest.split(" ")[0] and not rest.startswith("#") and rest.endswith(")") or \
                (f == "aligned_allocator.h" and "::" not in rest.split(" ")[0] and rest.endswith(") const")):
            rest = "aligned_allocator::" + rest          # out-of-line definition of a member
        nk = f + " " + rest
        norm[nk] = min(line, norm.get(nk, line))
    return norm


def macros(repo):
    out = {}
    for p in PATHS:
        try:
            txt = open(os.path.join(repo, p)).read()
        except OSError:
            continue
        for m in re.finditer(r"^[ \t]*#[ \t]*define[ \t]+(\w+)(\([^)]*\))?", txt, re.M):
            if m.group(1).startswith("__TBB"):
                continue
            out["%s #define %s%s" % (os.path.basename(p), m.group(1), m.group(2) or "")] = txt[:m.start()].count("\n") + 1
    return out


def declarations(repo, inc, tu, tmpjson, extra=()):
    sys.path.insert(0, os.path.join(os.path.dirname(os.path.abspath(__file__)), "..", "..", "tools", "cxx2coq"))
    from astutil import load_docs
    from cxx2coq import dump_ast
    sys.setrecursionlimit(20000)
    rc, err = dump_ast(tu, tmpjson, repo, inc, "rkcommon", list(extra))
    if rc != 0:
        raise RuntimeError("clang failed on %s: %s" % (tu, err[-800:]))
    keys = scan(load_docs(tmpjson))
    os.remove(tmpjson)
    keys.update(macros(repo))
    return keys


if __name__ == "__main__":
    repo = os.environ.get("VERIF_REPO", "/repo")
    ks = declarations(repo, "/verif/build/include", "/verif/tools/c14gen/scan.cpp", "/tmp/c14scan.json")
    for k in sorted(ks, key=lambda k: (k.split()[0], ks[k])):
        print("line %-4s %s" % (ks[k], k))
