"""C14 - aligned allocation: alignedMalloc/alignedFree, aligned_allocator, AlignedVector.
Tie A (arithmetic): coq/C14/gen/GenAlloc.v is REGENERATED on every run from the working tree (tools/cxx2coq + tools/c14gen:
max_size(), the statements of allocate(), isAligned, ALIGN_PTR) and PropertiesGen.v proves it equal, in the machine reading, to Model.v.
Tie B: hand-written Gallina model of the size_t arithmetic and of the allocator clients
(coq/C14/Model.v; the external allocator is a Section variable with a contract), theorems
in coq/C14/Properties.v.  Correspondence: the extracted model against three builds of
harness/C14/harness.cpp compiled from the working tree:
  spy  : the back end (scalable_aligned_malloc/free) is the model's oracle re-implemented in the
         harness -> exact comparison of (bytes, align) requests, pointers, frees, contents
  mm   : real _mm_malloc back end, ASan+UBSan
  tbb  : real TBB scalable allocator
On the real back ends addresses are abstracted (aligned / null) before comparing."""
import os, re, time, traceback
from concurrent.futures import ThreadPoolExecutor
import vlib

M64 = 1 << 64
SIZES_G = [1, 2, 3, 4, 8, 12, 16, 24, 64, 72, 4096, 65536, 2147483647]
SIZES_V = [1, 4, 12, 64, 72]
ALIGNS_A = [64, 16, 1, 4096]
POW2 = [1 << k for k in range(13)]          # 1..4096
REPO_SRC = ["rkcommon/memory/malloc.cpp", "rkcommon/utility/demangle.cpp"]


# ASan: requests above 256 MB are refused (null -> bad_alloc) instead of being mapped and shadow-poisoned
# (a request of 2^39 bytes costs seconds of kernel time); the property oracle accepts bad_alloc for them.
ASAN_ENV = {"ASAN_OPTIONS": vlib.Ctx.SAN_ENV["ASAN_OPTIONS"] + ":max_allocation_size_mb=256"}


# ------------------------------------------------------------------ running
FALLBACK_LINE = "unsupported-in-fallback-build"


def remaining(ctx):
    """seconds left of the wall-clock budget of the whole check (quick: no tree may push it beyond ~4 min)"""
    return max(0.0, getattr(ctx, "deadline", ctx.t0 + 3600) - time.time())


def stage(ctx, name, fn, default=None):
    """run one stage of the check; an exception is recorded (stage + last traceback line) and the check goes on"""
    try:
        return fn()
    except Exception as ex:
        tb = traceback.format_exc().strip().splitlines()
        where = next((l.strip() for l in reversed(tb) if l.strip().startswith("File ")), "")
        ctx.broken.append("stage '%s' raised %s: %s (%s)" % (name, type(ex).__name__, str(ex)[:200], where[:160]))
        ctx.log("stage '%s' failed: %s" % (name, tb[-1][:300]))
        return default


def run_guarded(ctx, exe, stdin, tmo, env=None):
    """run under coreutils timeout (SIGKILL) so that the output printed before a hang is kept"""
    tmo = max(2, int(min(tmo, remaining(ctx) + 2)))
    rc, out, err = ctx.run_exe("timeout", ["-s", "KILL", str(tmo), exe], stdin=stdin, timeout=tmo + 30, env=env)
    return rc, out, err, rc in (137, -9, 124)


def run_cases(ctx, exe, cases, nchunks=4, timeout=None, env=None):
    """Run case lines through an executable in parallel chunks.  Returns (lines, crashes);
    a case on which the executable died or hung gets the line '<crash rc=..>' and is listed in crashes."""
    n = len(cases)
    if n == 0:
        return [], []
    timeout = min(timeout or ctx.pick(90, 900), max(10, int(remaining(ctx) / 2)))
    size = max(1, (n + nchunks - 1) // nchunks)
    chunks = [(s, cases[s:s + size]) for s in range(0, n, size)]

    def work(ch):
        start, cs = ch
        lines, crashes = [], []
        pos = 0
        while pos < len(cs):
            rc, out, err, hung = run_guarded(ctx, exe, "\n".join(cs[pos:]) + "\n", timeout, env)
            got = out.split("\n")
            got = got[:-1] if out.endswith("\n") else got[:-1]      # an unterminated last line is incomplete
            got = got[:len(cs) - pos]
            lines += got
            pos += len(got)
            if pos < len(cs):          # died / hung on case pos
                crashes.append((start + pos, "timeout (hang)" if hung else rc, err[-2500:]))
                lines.append("<crash rc=%s>" % rc)
                pos += 1
                if hung or len(crashes) > 5:
                    lines += ["<not run>"] * (len(cs) - pos)
                    break
        return lines, crashes

    with ThreadPoolExecutor(max_workers=min(len(chunks), vlib.NPROC)) as ex:
        res = list(ex.map(work, chunks))
    lines, crashes = [], []
    for l, c in res:
        lines += l
        crashes += c
    return lines, crashes


# ------------------------------------------------- independent property oracles
def pat(j, o):
    return (j * 131 + o * 7 + 1) % 251


MULTI_ARG = ("S", "I", "i")       # element types whose emplace uses a two-argument constructor


def l_op(l, f, tag=None):
    """plain list model of a vector operation (token already split)"""
    if f[0] == "pb": return l + [int(f[2])]
    if f[0] == "eb": return l + [1000 + int(f[2]) * 26 + int(f[3]) if tag in MULTI_ARG else int(f[3])]
    if f[0] == "em":
        pos = int(f[2]) % (len(l) + 1)
        return l[:pos] + [1000 + int(f[3]) * 26 + int(f[4]) if tag in MULTI_ARG else int(f[4])] + l[pos:]
    if f[0] == "rs":
        n = int(f[2]); return l[:n] if n <= len(l) else l + [int(f[3])] * (n - len(l))
    if f[0] == "as": return [int(f[3])] * int(f[2])
    if f[0] == "cl": return []
    return l


FLAG_MEANING = {
    "MISALIGNED": "a returned pointer / data() must be a multiple of the requested alignment (64 for AlignedVector)",
    "ISALIGNED": "isAligned() must agree with pointer % alignment == 0",
    "NONNULL-EMPTY": "a vector without capacity must have null data()",
    "TWIN": "AlignedVector contents must equal the std::vector twin after every operation",
    "PATTERN": "the bytes of a live block changed while other blocks were allocated/freed",
    "BACKEND-CALLED": "length_error must be thrown before the allocator is called",
    "CALLS": "allocate() must call the allocator exactly once",
    "BADFREE": "deallocate must free exactly the pointers allocate returned, once",
    "LEAK": "every block must be released when the vectors are destroyed",
    "LIFETIME": "every element must be copy-constructed exactly once per slot (allocator construct = placement copy construction) and destroyed exactly once",
    "SIZEOF": "element size assumed by the model differs from the harness build",
    "OPERAND-TYPE": "ALIGN_PTR must not depend on the operand types (int / size_t / pointer)",
}


def oracle(case, line, exact):
    """Does the implementation's own output satisfy property C14 on this case?
    exact: spy build (model addresses, requests visible).  Returns None if fine, else a string."""
    t = case.split()
    if "!" in line:
        flag = re.match(r"!([A-Z-]+)", line[line.index("!"):]).group(1)
        return "%s (harness flag !%s)" % (FLAG_MEANING.get(flag, "property check inside the harness failed"), flag)
    if line.startswith("<crash"): return "crash " + line
    k = t[0]
    if k == "M":
        return None if line == "max=%d" % ((M64 - 1) // int(t[1])) else "max_size() wrong"
    if k == "G":
        s, a, n, ans = int(t[1]), int(t[2]), int(t[3]), t[4]
        mx = (M64 - 1) // s
        if n == 0: return None if line == "null" else "allocate(0) must return nullptr"
        if n > mx: return None if line == "length_error" else "n > max_size() must throw length_error"
        if exact:
            res = "bad_alloc" if ans == "none" else "ptr=" + ans
            if line == res + " req=%d,%d" % (n * s, a): return None
            if line == res + " req=%d,0" % (n * s) and a <= 8: return None    # plain scalable_malloc: guarantees 8
            return ("n <= max_size(): the back end must be asked for n*sizeof(T)=%d bytes aligned to %d (request printed as bytes,align; "
                    "align 0 = an entry point that guarantees no more than 8)" % (n * s, a))
        if line == "ptr=ok" or (line == "bad_alloc" and n * s > (1 << 24)): return None
        return "n <= max_size(): expected an aligned pointer (or bad_alloc for a huge request)"
    if k == "A":
        want = "addr=1 eq=1 ne=0 rebind=1 max=1 hint=ok hint_len=length_error xeq=1 xfree=ok stack=1"
        return None if line == want else "aligned_allocator members (address, ==, !=, converting constructor, rebind, allocate with hint) / STACK_BUFFER: expected " + want
    if k == "T":
        s, n, a, ans = int(t[1]), int(t[2]), int(t[3]), t[4]
        b = (n * s) % M64
        if exact:
            want = ("null" if ans == "none" else "ptr=" + ans) + " req=%d,%d" % (b, a)
            return None if line == want else ("alignedMalloc<T>(%d, %d) with sizeof(T)=%d must forward nElements*sizeof(T)=%d bytes AND the alignment %d "
                                             "to alignedMalloc (request printed as bytes,align)" % (n, a, s, b, a))
        if line == "ptr=ok" or (line == "null" and (b == 0 or b > (1 << 24))): return None
        return "alignedMalloc<T>(%d, %d): expected a pointer that is a multiple of %d" % (n, a, a)
    if k == "I":
        p, a = int(t[1]), int(t[2])
        if a == 0: return None
        return None if line == ("true" if p % (a % M64) == 0 else "false") else "isAligned wrong"
    if k == "P":
        p, a = int(t[1]), int(t[2])
        if a > 0 and a & (a - 1) == 0 and p + a - 1 < M64:
            return None if line == str((p + a - 1) // a * a) else "ALIGN_PTR is not the least multiple of a >= p"
        return None      # wrap / not a power of two: no requirement in the property
    if k == "S":
        a = int(t[1])
        if a > 0 and a & (a - 1) == 0: return None if line == "ok" else "power-of-two alignment rejected"
        return None
    if k == "H":
        ops = t[2:]
        outs = line.split(" ; ")
        if len(outs) != len(ops) + 1: return "malformed"
        blocks = {}     # j -> (addr, size, align)
        live = {}
        j = 0
        for tok, o in zip(ops, outs):
            f = tok.split(":")
            if f[0] == "m":
                size, al = int(f[1]), int(f[2])
                if o == "null":
                    if exact and int(t[1]) < 0: return "back end answered but alignedMalloc returned null"
                elif o.startswith("p="):
                    p = int(o[2:])
                    if p % al: return "pointer %d not a multiple of %d" % (p, al)
                    for (q, qs) in live.values():
                        if p < q + max(qs, 1) and q < p + max(size, 1): return "block overlaps a live block"
                    live[j] = (p, size)
                else: return "unexpected " + o
                j += 1
            else:
                if o != "ok": return "free: " + o
                live.pop(int(f[1]), None)
        m = re.match(r"live=\[(.*)\]$", outs[-1])
        if not m: return "malformed live"
        got = sorted(m.group(1).split())
        want = sorted("%d:%d:%s" % (p, s, "-:-" if s == 0 else "%d:%d" % (pat(jj, 0), pat(jj, s - 1))) for jj, (p, s) in live.items())
        return None if got == want else "live blocks / their first and last bytes differ from what was allocated and written"
    if k in ("V", "W"):
        ops = t[3:]
        if not ops: return None if line == "" else "malformed"
        outs = line.split(" ; ")
        if len(outs) != len(ops): return "malformed"
        la, lb = [], []
        for tok, o in zip(ops, outs):
            f = tok.split(":")
            parts = o.split("|")
            if parts[0] not in ("ok", "length_error", "bad_alloc"): return "outcome " + parts[0]
            if parts[0] == "ok":
                tag = t[1] if k == "W" else None
                if f[0] == "sw": la, lb = lb, la
                elif f[1] == "a": la = l_op(la, f, tag)
                else: lb = l_op(lb, f, tag)
            for nm, l, part in (("a", la, parts[1]), ("b", lb, parts[2])):
                m = re.match(r"%s=(\d+),(\d+),(\d+),\[(.*)\]$" % nm, part)
                if not m: return "malformed " + part[:40]
                data, size, cap = int(m.group(1)), int(m.group(2)), int(m.group(3))
                if data % 64: return "data() = %d is not 64-byte aligned" % data
                if cap == 0 and data != 0: return "empty vector with dangling data()"
                if cap != 0 and data == 0: return "null data() with capacity"
                if [int(x) for x in m.group(4).split()] != l or size != len(l):
                    return "contents differ from the list model after %s" % tok
        return None
    return None


ADDR = re.compile(r"\b([ab])=(\d+),")


def abstract(case, line):
    """forget what a real back end decides: addresses, the live list, request sizes"""
    k = case[0]
    if k == "G":
        w = line.split()[0]
        return "alloc" if (w.startswith("ptr=") and w != "ptr=MIS") or w == "bad_alloc" else w
    if k == "T":
        w = line.split()[0]
        return "alloc" if (w.startswith("ptr=") and w != "ptr=MIS") or w == "null" else line
    if k in ("V", "W"):
        line = re.sub(r"\|live=\[[^\]]*\]", "", line)
        return ADDR.sub(lambda m: "%s=%s," % (m.group(1), "null" if m.group(2) == "0" else ("al" if int(m.group(2)) % 64 == 0 else "MIS")), line)
    if k == "H":
        ops = case.split()[2:]
        outs = line.split(" ; ")
        res = []
        for tok, o in zip(ops, outs):
            f = tok.split(":")
            if f[0] == "m" and int(f[1]) == 0: res.append("p?")       # size 0: null or a pointer
            elif o.startswith("p="):
                mm_ = re.match(r"p=(\d+)(.*)$", o)
                res.append(("p=al" if mm_ and int(f[2]) and int(mm_.group(1)) % int(f[2]) == 0 else "p=MIS") + (mm_.group(2) if mm_ else ""))
            else: res.append(o)
        m = re.match(r"live=\[(.*)\]$", outs[-1]) if outs else None
        if m:
            ents = sorted(e.split(":", 1)[1] for e in m.group(1).split() if not e.endswith(":0:-:-"))
            res.append("live=[" + " ".join(ents) + "]")
        else:
            res.append(outs[-1] if outs else "")
        return " ; ".join(res)
    return line


# ------------------------------------------------------------------ generators
def clip(x):
    return min(max(x, 0), M64 - 1)


def gen_arith(r, ctx):
    cases = []
    for s in SIZES_G:
        cases.append("M %d" % s)
    nb = set()
    for s in SIZES_G:
        mx = (M64 - 1) // s
        q = -(-M64 // s)          # least n with n*s >= 2^64
        ns = {0, 1, 2, 3, 5, 64, mx - 2, mx - 1, mx, mx + 1, mx + 2, q - 1, q, q + 1, q + 2, 2 * q, 2 * q + 1, 3 * q + 1,
              M64 - 1, M64 - 2, 1 << 63, (1 << 63) - 1, (1 << 63) + 1, 1 << 62, 1 << 32, (1 << 32) + 1, (1 << 32) - 1,
              M64 // s, M64 // s + 1, (M64 + 64) // s, (M64 + 4096) // s + 1}
        for _ in range(ctx.pick(6, 40)):
            ns.add(r.randrange(M64)); ns.add(r.randrange(1, 1 << r.randint(1, 63))); ns.add(clip(mx + r.randint(-1000, 1000)))
            ns.add(clip(q * r.randint(1, 8) + r.randint(0, 9)))
        for n in sorted(clip(x) for x in ns):
            aset = ALIGNS_A if n in (0, 1, mx, clip(mx + 1)) else [64]
            for a in aset:
                for ans in ("none", str(r.choice([64, 4096, 1 << 20, (1 << 47) - 64, 64 * r.randint(1, 1 << 40)]) // a * a or a)):
                    cases.append("G %d %d %d %s" % (s, a, n, ans))
    ps = {0, 1, 2, 63, 64, 65, 127, 128, 129, 4095, 4096, 4097, 1 << 32, (1 << 32) - 1, 1 << 63, (1 << 63) - 1, (1 << 63) + 64,
          M64 - 4096, M64 - 4095, M64 - 65, M64 - 64, M64 - 63, M64 - 2, M64 - 1}
    for _ in range(ctx.pick(20, 200)):
        ps.add(r.randrange(M64)); ps.add(r.randrange(1 << 20)); ps.add(clip(M64 - r.randrange(1, 1 << 14))); ps.add(64 * r.randrange(1 << 40))
    ints = {1, 2, 3, 4, 7, 8, 16, 32, 48, 63, 64, 65, 128, 4096, 1 << 20, 1 << 30, (1 << 31) - 1, -1, -2, -3, -64, -4096, -(1 << 31), 0}
    for _ in range(ctx.pick(6, 30)):
        ints.add(r.randint(-(1 << 31), (1 << 31) - 1)); ints.add(1 << r.randint(0, 30))
    als = {0, 1, 2, 3, 4, 5, 6, 8, 12, 16, 32, 64, 96, 128, 4096, 1 << 20, 1 << 32, 1 << 62, (1 << 62) + 1, (1 << 63) - 1, (1 << 63) + 1,
           M64 - 64, M64 - 1, -1, -2, -64, -4096, -(1 << 31)}          # 2^63 itself: -(ssize_t) overflows (UB in the macro), left out
    for k in range(13):
        als.add(1 << k)
    for p in sorted(ps):
        for a in sorted(ints): cases.append("I %d %d" % (p, a))
        for a in sorted(als): cases.append("P %d %d" % (p, a))
    for a in [0, 1, 2, 3, 4, 5, 6, 7, 8, 12, 16, 24, 48, 64, 96, 100, 4096, 4097, 1 << 20, 1 << 32, (1 << 32) + (1 << 31), 1 << 63, M64 - 1, M64 - 2]:
        cases.append("S %d" % a)
    return cases


def gen_heap(r, npasses):
    """the grid {0,1,a-1,a,a+1,4095,4096,4097,2^20+3} x alignments 1..4096, interleaved with frees"""
    cases = []
    for _ in range(npasses):
        grid = [(s, a) for a in POW2 for s in sorted({0, 1, a - 1, a, a + 1, 4095, 4096, 4097, (1 << 20) + 3})]
        r.shuffle(grid)
        while grid:
            k = r.randint(8, 24)
            take, grid = grid[:k], grid[k:]
            ops, livej, j = [], [], 0
            for (s, a) in take:
                ops.append("m:%d:%d" % (s, a)); livej.append(j); j += 1
                while livej and r.random() < 0.45:
                    ops.append("f:%d" % livej.pop(r.randrange(len(livej))))
            while livej and r.random() < 0.7:
                ops.append("f:%d" % livej.pop(r.randrange(len(livej))))
            cases.append("H -1 " + " ".join(ops))
    return cases


def gen_small_live(r, nlive, aligns=(1, 2, 4, 8, 16, 32, 64), sizes=range(0, 17)):
    """allocators serve small requests from size-class bins whose slots are only as aligned as the slot size:
    a pointer is aligned 'by luck' unless many blocks of the cell are alive at once.  One history per
    (size, align) cell with nlive blocks alive simultaneously, then freed in seeded order (every block's
    pointer % align and full-extent pattern are checked by the harness); plus, per alignment, one history
    mixing all the small sizes."""
    cases = []
    for a in aligns:
        for s in sizes:
            ops = ["m:%d:%d" % (s, a)] * nlive
            order = list(range(nlive)); r.shuffle(order)
            ops += ["f:%d" % j for j in order[:r.randint(nlive // 2, nlive)]]
            cases.append("H -1 " + " ".join(ops))
        mix = [(s, a) for s in sizes for _ in range(max(2, nlive // 8))]
        r.shuffle(mix)
        ops, livej = [], []
        for j, (s, a2) in enumerate(mix):
            ops.append("m:%d:%d" % (s, a2)); livej.append(j)
            if len(livej) > nlive and r.random() < 0.5:
                ops.append("f:%d" % livej.pop(r.randrange(len(livej))))
        cases.append("H -1 " + " ".join(ops))
    return cases


HUGE = [1 << 62, 1 << 63, M64 - 1, (1 << 63) - 1]


def gen_vec(r, s, maxlen, maxn, fail, emplace=0):
    """emplace: 0 none, 1 emplace_back (modelled), 2 also emplace(pos, ...) (real back ends only)"""
    ops = []
    small = [0, 1, 2, 3, 4, 5, 7, 8, 9, 15, 16, 17, 31, 32, 33]
    vm = min(((1 << 63) - 1) // s, (M64 - 1) // s)
    for _ in range(r.randint(1, maxlen)):
        t = r.choice("ab")
        n = r.choice(small) if r.random() < 0.7 else r.randint(0, maxn)
        n = min(n, maxn)
        x = r.randint(1, 250)
        c = r.random()
        if emplace and c < 0.12: ops.append("eb:%s:%d:%d" % (t, r.randint(2, 9), r.randint(1, 25)))
        elif emplace == 2 and c < 0.20: ops.append("em:%s:%d:%d:%d" % (t, r.randint(0, 40), r.randint(2, 9), r.randint(1, 25)))
        elif c < 0.30: ops.append("pb:%s:%d" % (t, x))
        elif c < 0.45: ops.append("rs:%s:%d:%d" % (t, n, x))
        elif c < 0.57: ops.append("rv:%s:%d" % (t, n))
        elif c < 0.69: ops.append("sh:%s" % t)
        elif c < 0.80: ops.append("as:%s:%d:%d" % (t, n, x))
        elif c < 0.90: ops.append("sw")
        elif c < 0.95: ops.append("cl:%s" % t)
        else:
            big = r.choice(HUGE + [vm, vm + 1, vm - 1, (M64 - 1) // s, (M64 - 1) // s + 1])
            big = clip(big)
            ops.append(r.choice(["rv:%s:%d" % (t, big), "rs:%s:%d:%d" % (t, big, x), "as:%s:%d:%d" % (t, big, x)]))
    return "V %d %d %s" % (s, fail, " ".join(ops))


W_SIZEOF = {"s": 32, "v": 24, "i": 16, "n": 32, "S": 32, "I": 24, "y": 24}
W_TAGS = "svinSIy"   # wrapped std::string / wrapped std::vector<int> / instrumented / Node (initializer_list of itself) /
                     # std::string itself / std::vector<int> itself / std::vector<rkcommon::utility::Any>   (x86-64 libstdc++ sizes)


def gen_w(r, tag, maxlen, maxn, fail, emplace=1):
    """a vector history on a NON-trivially-copyable element type (the model runs it with sizeof(T) only)"""
    c = gen_vec(r, W_SIZEOF[tag], maxlen, maxn, fail, emplace).split()
    return "W %s %s" % (tag, " ".join(c[2:]))


def gen_typed(r, ctx):
    """the typed overload alignedMalloc<T>(n, align): element sizes 1,4,8,12,72 x alignments 1..4096 x n incl. a wrapping product"""
    cases = []
    for s in (1, 4, 8, 12, 72):
        wrapn = M64 // s + 1
        for a in POW2:
            ns = [0, 1, 2, 3, 17, r.randint(4, 5000), r.randint(5000, 200000), wrapn, wrapn + r.randint(1, 1000), 1 << 63]
            for n in sorted(set(min(x, M64 - 1) for x in ns)):
                for ans in ("none", str(a * r.randint(1, 1 << 30))):
                    cases.append("T %d %d %d %s" % (s, n, a, ans))
    return cases


# ------------------------------------------------------------------ Tie A: regenerate gen/GenAlloc.v
GEN_NEEDED = ["aligned_allocator64_max_size__", "aligned_allocator64_max_size___2", "aligned_allocator64_max_size___3",
              "aligned_allocator64_max_size___4", "aligned_allocator64_allocate__ul_body", "aligned_allocator64_allocate__ul_2_body",
              "aligned_allocator64_allocate__ul_3_body", "aligned_allocator64_allocate__ul_4_body", "c14inst_align_ptr_ul__ul_ul",
              "c14inst_align_ptr_i__ul_i", "memory_isAligned__p_i_expr", "memory_isAligned__p_i_default_alignment",
              "memory_alignedMalloc__ul_ul_request", "memory_alignedMalloc__ul_ul_2_request",
              "aligned_allocator64_construct__p_uc_shape", "aligned_allocator64_construct__p_s_shape", "aligned_allocator64_construct__p_f_shape",
              "aligned_allocator64_construct__p_d_shape", "containers_aligned_allocator64_construct__p_Obj_shape",
              "aligned_allocator64_destroy__p_shape", "aligned_allocator64_destroy__p_2_shape", "aligned_allocator64_destroy__p_3_shape",
              "aligned_allocator64_destroy__p_4_shape", "containers_aligned_allocator64_destroy__p_shape"]
GEN_DEPENDENTS = ["gen/GenAlloc", "ProofsGen", "PropertiesGen"]


def regenerate(ctx):
    """max_size(), the statements of allocate(), isAligned and ALIGN_PTR are re-translated from the working tree
    (tools/cxx2coq + tools/c14gen); PropertiesGen.v proves them equal to the hand-written model."""
    gen = os.path.join(ctx.coqdir, "gen")
    os.makedirs(gen, exist_ok=True)
    tgt, tmp = os.path.join(gen, "GenAlloc.v"), os.path.join(ctx.build, "GenAlloc.v.new")
    inc = ctx.include_dir()
    rc, out = vlib.sh(["python3", os.path.join(ctx.verif, "tools", "c14gen", "c14gen.py"), tmp, "--repo", ctx.repo, "--inc", inc], timeout=300)
    ctx.log((out.strip().splitlines() or ["c14gen: (no output)"])[-1])
    if rc != 0 or not os.path.exists(tmp):
        ctx.broken.append("translator c14gen/cxx2coq failed on tools/cxx2coq/inst/alloc.cpp (rc=%s): %s" % (rc, out[-400:]))
        new = "(* generation failed *)\n"
    else:
        new = open(tmp).read()
        os.remove(tmp)
    old = open(tgt).read() if os.path.exists(tgt) else None
    if new != old:
        open(tgt, "w").write(new)
        for f in GEN_DEPENDENTS:          # a failed rebuild must not leave stale .vo files that look discharged
            for ext in (".vo", ".vos", ".vok", ".glob"):
                try: os.remove(os.path.join(ctx.coqdir, f + ext))
                except OSError: pass
    ctx.cov["generated_model_changed_since_last_run"] = bool(new != old and old is not None)
    defs = set(re.findall(r"^Definition (\w+)", new, re.M))
    unsup = re.findall(r"\(\* UNSUPPORTED (\w+)[^:]*: ([^*]*)\*\)", new)
    ctx.cov["generated_definitions"] = sorted(defs)
    ctx.cov["translator_unsupported"] = ["%s: %s" % (a, b.strip()) for a, b in unsup]
    for n in GEN_NEEDED:
        if n not in defs:
            ctx.broken.append("generated definition %s is missing (the source left the translator's subset)" % n)


COVER, EXCLUDE = {}, {}      # filled from props/C14/coverage.py (the inventory table) by closed_list()


# ------------------------------------------------------------------ closed declaration list
def closed_list(ctx):
    """every function / overload / member / alias / macro declared in the four anchored files (clang AST, with and without
    the TBB define) must be covered by a case kind or theorem (coverage.COVER) or excluded with a reason (coverage.EXCLUDE)"""
    import importlib, sys as _sys
    here = os.path.dirname(os.path.abspath(__file__))
    if here not in _sys.path:
        _sys.path.insert(0, here)
    import declscan, coverage
    importlib.reload(coverage)
    global COVER, EXCLUDE
    COVER, EXCLUDE = coverage.COVER, coverage.EXCLUDE        # the inventory table (props/C14/coverage.py)
    tu = os.path.join(ctx.verif, "tools", "c14gen", "scan.cpp")
    inc = ctx.include_dir()
    decls = {}
    for i, extra in enumerate(([], ["-DRKCOMMON_TASKING_TBB"])):
        try:
            decls.update(declscan.declarations(ctx.repo, inc, tu, os.path.join(ctx.build, "scan%d.json" % i), extra))
        except Exception as ex:
            ctx.broken.append("declaration scan failed (%s): %s" % (" ".join(extra) or "default", str(ex)[-300:]))
            return
    known = set(coverage.COVER) | set(coverage.EXCLUDE)
    unknown = sorted(set(decls) - known)
    stale = sorted(known - set(decls))
    ctx.cov["declared"] = len(decls)
    ctx.cov["declared_covered"] = len(set(decls) & set(coverage.COVER))
    ctx.cov["declared_excluded"] = {k: coverage.EXCLUDE[k] for k in sorted(set(decls) & set(coverage.EXCLUDE))}
    ctx.cov["declared_uncovered"] = unknown
    ctx.log("closed list: %d declarations, %d covered, %d excluded, %d unknown, %d disappeared"
            % (len(decls), ctx.cov["declared_covered"], len(ctx.cov["declared_excluded"]), len(unknown), len(stale)))
    for k in unknown:
        ctx.broken.append("declaration not covered by any case kind or theorem (line %s): %s" % (decls[k], k))
    for k in stale:
        ctx.broken.append("a covered declaration disappeared or changed its signature: %s" % k)
    return decls


def inventory(ctx, decls, runs, thm):
    """per declaration: executed cases of its case kinds in this run (over all builds that ran) and its theorems;
    fails closed on a covered declaration with zero executed cases or with a theorem that is not discharged"""
    per_kind = {}
    for label, exe, exact, cases, lines, expect, crashes in runs:
        for c, l in zip(cases, lines):
            if not (l.startswith("<crash") or l == "<not run>" or l == FALLBACK_LINE):
                per_kind[c[0]] = per_kind.get(c[0], 0) + 1
    inv = {}
    for k in sorted(decls or {}):
        if k in COVER:
            e = COVER[k]
            n = sum(per_kind.get(kind, 0) for kind in e["kinds"])
            bad = [t for t in e["theorems"] if not thm.get(t)]
            inv[k] = {"line": decls[k], "case_kinds": e["kinds"], "executed": n, "theorems": e["theorems"], "note": e["note"]}
            if n == 0:
                ctx.broken.append("inventory: covered declaration with zero executed cases in this run: %s" % k)
            for t in bad:
                ctx.broken.append("inventory: theorem %s named for %s is missing or not discharged" % (t, k))
        elif k in EXCLUDE:
            inv[k] = {"line": decls[k], "excluded": EXCLUDE[k]}
        else:
            inv[k] = {"line": decls[k], "uncovered": True}
    ctx.cov["inventory"] = inv
    ctx.cov["inventory_cases_per_kind"] = per_kind


# ------------------------------------------------------------------ harness builds (robust)
REPO_SRC_WIDE = REPO_SRC + ["rkcommon/os/library.cpp", "rkcommon/common.cpp", "rkcommon/os/FileName.cpp"]


def first_error(ctx, nlog):
    txt = "\n".join(ctx.log_lines[nlog:])
    m = re.search(r"^.*(?:error|undefined reference)[^\n]*", txt, re.M)
    return (m.group(0).strip() if m else txt.strip().splitlines()[-1] if txt.strip() else "?")[:240]


def build_harness(ctx, kw):
    """one harness build: the full harness; if it does not build against the tree, once more with a wider list of repo
    sources (a changed header may need more of the library); then the reduced build -DC14_FALLBACK (no case A / T / vector<Any>)
    so that the core cases still run on the real code.  Returns (exe or None, is_fallback)."""
    nlog, nbroken = len(ctx.log_lines), len(ctx.broken)
    exe = ctx.cxx(**kw)
    if exe:
        return exe, False
    err1 = first_error(ctx, nlog)
    del ctx.broken[nbroken:]
    attempts = [("wider repo source list", dict(kw, repo_sources=[x for x in REPO_SRC_WIDE if os.path.exists(os.path.join(ctx.repo, x))],
                                                libs=list(kw.get("libs", [])) + ["-ldl"]), False),
                ("reduced build -DC14_FALLBACK", dict(kw, flags=list(kw.get("flags", [])) + ["-DC14_FALLBACK"],
                                                      repo_sources=["rkcommon/memory/malloc.cpp"]), True)]
    for what, kw2, fb in attempts:
        n2, b2 = len(ctx.log_lines), len(ctx.broken)
        exe = ctx.cxx(**kw2)
        del ctx.broken[b2:]
        if exe:
            ctx.broken.append("harness build %s does not build against this tree (%s); continued with the %s" % (kw["out"], err1, what))
            return exe, fb
    ctx.broken.append("harness build %s does not build against this tree, also not as reduced build (%s)" % (kw["out"], err1))
    return None, False


# ------------------------------------------------------------------ the check
def run(ctx):
    """never raises: every stage is isolated, bin/vcheck always reaches ctx.finish() and writes the evidence"""
    ctx.deadline = ctx.t0 + ctx.pick(225, 3300)
    try:
        _run(ctx)
    except Exception as ex:
        tb = traceback.format_exc().strip().splitlines()
        ctx.broken.append("props/C14/check.py internal error %s: %s (%s)" % (type(ex).__name__, str(ex)[:200], tb[-3].strip()[:160] if len(tb) > 2 else ""))
        ctx.log("internal error:\n" + "\n".join(tb[-6:]))


def _run(ctx):
    decls = stage(ctx, "declaration scan / inventory table", lambda: closed_list(ctx), {}) or {}
    stage(ctx, "regenerate gen/GenAlloc.v (c14gen + cxx2coq)", lambda: regenerate(ctx))
    thm = stage(ctx, "Coq build", lambda: ctx.coq_check(("Properties.v", "PropertiesGen.v")), {}) or {}
    gen_broken = sorted(n for n, ok in thm.items() if n.startswith("gen_") and not ok)
    ctx.cov["regenerated_obligations_broken"] = gen_broken
    if gen_broken:
        # PropertiesGen.v stands or falls as one file; name the first lemma of ProofsGen.v that stopped checking
        first = None
        m = re.search(r'File "\./ProofsGen\.v", line (\d+)', getattr(ctx, "coq_log", ""))
        if m:
            try:
                src = open(os.path.join(ctx.coqdir, "ProofsGen.v")).read().split("\n")[:int(m.group(1))]
                names = re.findall(r"^\s*Lemma\s+(\w+)", "\n".join(src), re.M)
                first = names[-1] if names else None
            except OSError:
                pass
        ctx.cov["regenerated_first_failing_lemma"] = first
        ctx.log("regenerated (Tie A) obligations no longer check; first failing lemma: %s" % first)
    model_vo = os.path.join(ctx.coqdir, "Model.vo")
    model = None
    if os.path.exists(model_vo) and os.path.getmtime(model_vo) >= os.path.getmtime(os.path.join(ctx.coqdir, "Model.v")):
        model = stage(ctx, "extraction + OCaml model build", lambda: ctx.extract(snippets=["conv_N.ml", "conv_Z.ml"]))
    else:
        ctx.broken.append("Model.v does not build: no extracted model (the harness cases are judged by the property oracle alone)")
    tbbflags = ["-DRKCOMMON_TASKING_TBB"]
    jobs = [dict(sources=["harness.cpp"], out="h_spy", repo_sources=REPO_SRC, sanitize="ubsan", flags=tbbflags + ["-DC14_SPY"]),
            dict(sources=["harness.cpp"], out="h_mm", repo_sources=REPO_SRC, sanitize="asan"),
            dict(sources=["harness.cpp"], out="h_tbb", repo_sources=REPO_SRC, sanitize="ubsan", flags=tbbflags, libs=["-ltbbmalloc"])]
    from concurrent.futures import ThreadPoolExecutor as _TPE
    with _TPE(max_workers=3) as ex:
        built = list(ex.map(lambda kw: stage(ctx, "harness build " + kw["out"], lambda: build_harness(ctx, kw), (None, False)), jobs))
    exes = [b[0] for b in built]
    spy, mm, tbb = exes
    ctx.cov["harness_builds"] = {j["out"]: ("missing" if not b[0] else "reduced (C14_FALLBACK)" if b[1] else "full") for j, b in zip(jobs, built)}
    if not all(exes):
        ctx.log("builds missing: %s - continuing with the others" % ", ".join(n for n, e in zip(("spy", "mm", "tbb"), exes) if not e))
    if not any(exes):
        return
    if not model:
        ctx.log("no model: model-vs-code comparison skipped, every harness case is judged by the independent property oracle")
    r = ctx.rng("cases")
    corpus = []
    cp = os.path.join(ctx.verif, "corpus", "C14", "cases.txt")
    if os.path.exists(cp):
        corpus = [l.strip() for l in open(cp) if l.strip() and not l.startswith("#")]
    arith = gen_arith(r, ctx)
    heap = gen_heap(r, ctx.pick(6, 40))
    small_live = gen_small_live(ctx.rng("small-live"), ctx.pick(64, 256))
    heap += small_live
    # vector histories that the model follows (small, so that the association-list memory stays cheap)
    vec_small, vec_fail, vec_big = [], [], []
    for i in range(ctx.pick(600, 4000)):
        vec_small.append(gen_vec(r, SIZES_V[i % 5], 30, 40, -1))
    for i in range(ctx.pick(300, 2000)):
        vec_fail.append(gen_vec(r, SIZES_V[i % 5], 24, 40, r.randint(0, 8)))
    # long histories with larger sizes: real back ends only, judged by the twin and the list oracle
    for i in range(ctx.pick(400, 4000)):
        vec_big.append(gen_vec(r, SIZES_V[i % 5], 120, 3000, -1))
    typed = gen_typed(ctx.rng("typed"), ctx)
    rw = ctx.rng("nontrivial-elements")
    wvec, wbig = [], []
    for i in range(ctx.pick(490, 2800)):
        wvec.append(gen_w(rw, W_TAGS[i % 7], 30, 40, -1 if i % 4 else rw.randint(0, 8), 1))
    for i in range(ctx.pick(280, 2800)):
        wbig.append(gen_w(rw, W_TAGS[i % 7], 100, 400, -1, 2))
    for i in range(ctx.pick(100, 600)):       # trivially copyable elements with emplace_back / emplace as well
        (vec_small if i % 2 else vec_big).append(gen_vec(rw, SIZES_V[i % 5], 30, 40, -1, 1 if i % 2 else 2))
    vec_big += wbig
    modelled = corpus + ["A"] + arith + typed + heap + vec_small + vec_fail + wvec
    real_ok = lambda c: not (c[0] in "HVW" and c.split()[2 if c[0] in "VW" else 1] != "-1")
    ctx.log("cases: corpus %d arith %d heap %d vec %d+%d (+%d real only)" % (len(corpus), len(arith), len(heap), len(vec_small), len(vec_fail), len(vec_big)))

    mlines = None
    if model:
        def run_model():
            ml, mcr = run_cases(ctx, model, modelled)
            if mcr or len(ml) != len(modelled):
                ctx.broken.append("model driver failed on case %r" % (modelled[mcr[0][0]] if mcr else "?"))
                return None
            return ml
        mlines = stage(ctx, "model run", run_model)
        ctx.log("model done")
    have_model = mlines is not None
    if not have_model:
        mlines = [None] * len(modelled)
    runs = []     # (label, exe, exact, cases, lines, expected-or-None)
    if spy:
        def run_spy():
            lines, cr = run_cases(ctx, spy, modelled)
            runs.append(("spy back end", spy, True, modelled, lines, mlines, cr))
        stage(ctx, "spy run", run_spy)
        ctx.log("spy done")
    realcases = [c for c in modelled if real_ok(c) and c[0] != "S"]

    def safe_abstract(c, ml):
        if ml is None:
            return None
        try:
            return abstract(c, ml)
        except Exception:
            return None
    rexp = [safe_abstract(c, mlines[i]) for i, c in enumerate(modelled) if real_ok(c) and c[0] != "S"]
    for label, exe in (("_mm_malloc back end (ASan)", mm), ("TBB scalable allocator back end", tbb)):
        if not exe:
            continue
        def run_real(label=label, exe=exe):
            lines, cr = run_cases(ctx, exe, realcases + vec_big, env=ASAN_ENV)
            runs.append((label, exe, False, realcases + vec_big, lines, rexp + [None] * len(vec_big), cr))
        stage(ctx, "run on the " + label, run_real)
        ctx.log(label + " done")
    ctx.count(sum(len(x[3]) for x in runs))

    # coverage bookkeeping
    hist, kinds = {}, {}
    for c, ml in zip(modelled, mlines):
        ml = ml or ""
        kinds[c[0]] = kinds.get(c[0], 0) + 1
        if c[0] in "HVW":
            for tok in c.split()[2:]:
                key = c[0] + ":" + tok.split(":")[0]
                hist[key] = hist.get(key, 0) + 1
        if c[0] == "G":
            w = (ml.split() or ["?"])[0].split("=")[0]
            hist["G:" + w] = hist.get("G:" + w, 0) + 1
            if int(c.split()[3]) > 1: ctx.nontriv(c)
        elif c[0] in "VW":
            for w in ("length_error", "bad_alloc"):
                if w in ml: hist["V:outcome:" + w] = hist.get("V:outcome:" + w, 0) + 1
            if len(set(re.findall(r"\b[ab]=(\d+),", ml))) >= 3: ctx.nontriv(c)     # at least two reallocations
        elif c[0] == "H":
            if "f:" in c: ctx.nontriv(c)
        elif c[0] in "IP":
            if int(c.split()[1]) > 1: ctx.nontriv(c)
        elif c[0] == "T":
            if int(c.split()[2]) > 1 and int(c.split()[3]) > 1: ctx.nontriv(c)
    for c in vec_big:
        ctx.nontriv(c)
    ctx.cov["op_histogram"] = hist
    ctx.cov["case_kinds"] = kinds
    ctx.cov["case_mix"] = {"corpus": len(corpus), "arith_grid": len(arith), "malloc_free_histories": len(heap), "of_which_many_small_live_blocks_per_size_align_cell": len(small_live),
                           "vector_histories_modelled": len(vec_small), "vector_histories_with_injected_bad_alloc": len(vec_fail),
                           "vector_histories_real_back_ends_only": len(vec_big),
                           "typed_alignedMalloc_cases": len(typed), "vector_histories_nontrivial_elements_modelled": len(wvec),
                           "vector_histories_nontrivial_elements_real_only": len(wbig)}
    ctx.rule = ("M/G/I/P/S: boundary grid for max_size, the length_error guard (n around max_size, around 2^64/sizeof(T) and its multiples, "
                "2^63, 2^64-1; 13 element sizes x 4 alignments; back-end answer scripted), isAligned, ALIGN_PTR and the assert; "
                "H: the grid sizes {0,1,a-1,a,a+1,4095,4096,4097,2^20+3} x alignments 1..4096 in seeded order interleaved with frees, full-extent "
                "patterns verified before every free, plus for every size 0..16 x alignment 1..64 a history with 64 (thorough: 256) blocks of that cell "
                "alive at once, pointer % align checked for each; V: random push_back/resize/reserve/shrink_to_fit/assign/clear/swap histories on two "
                "AlignedVectors of element size 1,4,12,64,72 with a std::vector twin, some with one injected back-end failure, some with "
                "requests around vector::max_size(); W: the same histories on AlignedVector<std::string> (short and long), <std::vector<int>> and a "
                "lifetime-instrumented element (live-address registry, self pointer, constructed == destroyed at the end), on a Node type whose "
                "initializer_list constructor accepts Nodes (a copy must preserve the depth), on std::string / std::vector<int> themselves and on "
                "std::vector<rkcommon::utility::Any>, with emplace_back(args...) / emplace(pos, args...) through multi-argument constructors "
                "(std::string(n, ch), std::vector<int>(n, v), a two-argument instrumented element) compared element-wise with a std::vector twin; T: the typed overload "
                "alignedMalloc<T>(n, align) for sizeof(T) 1,4,8,12,72 x alignments 1..4096 (request bytes,align on the spy; pointer % align and full-extent "
                "pattern on the real back ends); every case on 3 builds (spy / _mm_malloc+ASan / TBB).  non-trivial = G,I,P: operand > 1; "
                "H: contains a free; V: the data pointer took >= 3 distinct values (or the long real-only histories)")
    for c in (arith[40], heap[0], vec_small[0], vec_fail[0]):
        ctx.sample({"case": c[:400], "model": (mlines[modelled.index(c)] or "(no model in this run)")[:400]})

    # ---------------------------------------------------------------- judge
    nmis = [0]

    def judge(label, exe, exact, cases, lines, expect, crashes):
        reported = 0
        for (idx, rc, err) in crashes:
            if reported >= 2: break
            reported += 1
            case = cases[idx]
            small = case
            if case[0] in "HVW":
                head = case.split()[:3 if case[0] in "VW" else 2]
                hang = isinstance(rc, str)
                def dies(ops, head=head, exe=exe, hang=hang):
                    if remaining(ctx) < 20:        # out of budget: stop shrinking, report what we have
                        return False
                    rc2, out, err2, h2 = run_guarded(ctx, exe, " ".join(head + ops) + "\n", 5 if hang else 30)
                    return rc2 != 0
                small = " ".join(head + vlib.shrink_list(case.split()[len(head):], dies, max_rounds=20 if hang else 120))
            ctx.violation("harness on the %s died or hung (rc=%s): sanitizer report / abort / allocator corruption in the real code" % (label, rc),
                          {"build": label, "case": small, "original_case": case, "stderr_tail": err,
                           "required": "no crash, no sanitizer report; aligned usable memory, intact neighbours"})
        seen_kind = set()
        for i, c in enumerate(cases):
            il = lines[i] if i < len(lines) else "<no output>"
            if il.startswith("<crash") or il == "<not run>" or il == FALLBACK_LINE:
                continue
            verdict = oracle(c, il, exact)
            exp = expect[i]
            try:
                got = il if exact else abstract(c, il)
            except Exception as ex:          # a line the abstraction cannot parse never equals the model's
                got = "<unparsable: %s> %s" % (ex, il)
            if verdict is None and (exp is None or got == exp):
                continue
            nmis[0] += 1
            if (c[0], verdict is None) in seen_kind:
                continue
            seen_kind.add((c[0], verdict is None))
            if verdict is not None:
                small, sl, sv = c, il, verdict
                if c[0] in "HVW":
                    head = c.split()[:3 if c[0] in "VW" else 2]
                    def fails(ops, head=head, exe=exe, exact=exact):
                        cc = " ".join(head + ops)
                        if remaining(ctx) < 20:
                            return False
                        rc2, out, err2, h2 = run_guarded(ctx, exe, cc + "\n", 30)
                        return rc2 != 0 or oracle(cc, out.strip("\n"), exact) is not None
                    ops = vlib.shrink_list(c.split()[len(head):], fails, max_rounds=150)
                    small = " ".join(head + ops)
                    rc2, out, err2, h2 = run_guarded(ctx, exe, small + "\n", 30)
                    sl = out.strip("\n")
                    sv = oracle(small, sl, exact) or verdict
                ctx.violation("%s: %s" % (label, sv),
                              {"build": label, "case": small, "observed": sl[:1500], "required": sv,
                               "model": (exp or "")[:1500] if small == c else None, "original_case": c[:1500]})
            else:
                ctx.broken.append("correspondence C14 model vs %s on case %r: impl=%r model=%r (the implementation's output satisfies the property oracle)"
                                  % (label, c[:300], got[:300], (exp or "")[:300]))
    for r_ in runs:
        stage(ctx, "judging the " + r_[0], lambda r_=r_: judge(*r_))
    ctx.cov["mismatches"] = nmis[0]
    ctx.cov["model_available"] = have_model
    stage(ctx, "inventory counts", lambda: inventory(ctx, decls, runs, thm))
    ctx.trusted += ["translator tools/cxx2coq/cxx2coq.py + statement walker tools/c14gen/c14gen.py (clang++ -std=c++11 JSON AST of tools/cxx2coq/inst/alloc.cpp -> "
                    "Gallina over Common.CxxSem.interp; the machine reading MZ wraps every operation to its C type); allocate() is generated as a statement "
                    "list (C14.GenSem.astmt) whose reading [run] is hand-written; a pointer is read as its address",
                    "correspondence harness harness/C14/harness.cpp (3 builds: spy back end / _mm_malloc + ASan+UBSan / tbbmalloc + UBSan; g++ -O1) "
                    "+ generators, address abstraction and property oracle in props/C14/check.py",
                    "external, not verified: scalable_aligned_malloc/_mm_malloc/free (contract = Section hypothesis be_contract: returned block aligned, "
                    "inside the address space, disjoint from live blocks; measured on the real back ends by the H cases), libstdc++ std::vector "
                    "(growth policy = Section variables vmax/grow; instance gnu_vmax/gnu_grow mirrored from GCC 12 and compared on every V case)"]
    ctx.assumptions += ["Tie A instantiates aligned_allocator<T,64> at T = unsigned char, short, float, double (sizeof 1,2,4,8: the sizes the translator knows); "
                        "other element sizes are covered by the template being one text and by the differential run (sizes 1..2^31-1)",
                        "sizeof(size_t) = 8; pointers are compared as integers", "assert() active (no NDEBUG) in the harness builds",
                        "ALIGN_PTR with alignment exactly 2^63 is left out (the macro negates (ssize_t)alignment: signed overflow)",
                        "element values are stored whole at the address of their first byte in the model's memory"]
    if ctx.thorough():
        stage(ctx, "coqchk", lambda: ctx.coq_thorough_chk(["C14.Properties"]))
