"""C02 — scheduled and async tasks run exactly once and deliver their result safely.

Coq (coq/C02): AsyncTask<T> lifetime system as a finite two-thread interleaving model, checked by a
reflective reachable-set exploration + soundness lemma (inductive invariant); async()/schedule() from
stated backend contracts; internal-backend task-object memory events.
Tie C: member order / lambda statement order / get()+destructor shape / async closure / ExecuteRange
statements / TryRunTask decrement order are re-derived from the clang AST of the working tree on every
run (tools/c02facts/gen_facts.py -> coq/C02/gen/Facts.v) and the theorems of PropertiesSrc.v are
re-checked by the kernel against them.
Tie B: harness per tasking backend (TBB, OpenMP, Internal, Debug; ASan+UBSan) with exactly-once,
value, lifetime-trace (validated by the extracted model), destructor-waits and one-thread oracles."""
import os, re, subprocess, sys
import vlib

BACKENDS = ["debug", "internal", "tbb", "omp"]
TYPES = ["int", "string", "vector", "slowlog", "tracked"]
NGETS = {"get": 1, "finget": 1, "waitget": 1, "getget": 2, "drop": 0, "finfinget": 1}
ONETHREAD_SIG = "C02-internal-backend-1-thread-schedule-not-run-without-caller-wait"
REINIT_SIG = "C02-internal-reinit-followup-goes-to-uninitialised-scheduler"


# ------------------------------------------------------------------------------------------ inventory closure
# Every declaration of the anchored files (enumerated from the clang AST under each backend define on every run, tools/declinv)
# -> the theorems and harness operations that cover it, or an explicit out-of-scope reason.  b = backends under whose define the
# declaration exists.  ops: "<mode>" (any backend), "<backend>:<mode>", "script:<AsyncTask client script>", "fact:<probe>".
_AT_T = ["asynctask_lifetime_safe", "asynctask_safe_src"]
_SCHED_OPS = ["burst", "parkburst", "nested", "arena", "steal", "wakeup", "chain"]
_ALLB = "dbg,int,omp,tbb"
_TS = "detail/enkiTS/TaskScheduler.cpp"
_C01 = "covered by C01 (parallel_for / the enkiTS scheduler model): not used by schedule(), async() or AsyncTask"
COVER = {
    ("AsyncTask.h", "class-template", "AsyncTask", "struct"): dict(b=_ALLB, thms=_AT_T + ["asynctask_member_order_old_refuted"], ops=["asynctask", "fact:not_copyable_not_movable"]),
    ("AsyncTask.h", "ctor", "AsyncTask::<ctor>", "void (std::function<T ()>)"): dict(b=_ALLB, thms=_AT_T + ["asynctask_fcn_once", "glue_code_shape_src"], ops=["asynctask", "destroy", "int:ownerthief"]),
    ("AsyncTask.h", "dtor", "AsyncTask::<dtor>", "void () noexcept virtual"): dict(b=_ALLB, thms=["asynctask_dtor_joins", "asynctask_safe_src"], ops=["asynctask", "destroy", "script:drop"]),
    ("AsyncTask.h", "field", "AsyncTask::jobFinished", "std::atomic<bool>"): dict(b=_ALLB, thms=["asynctask_flag_publishes_src", "asynctask_finished_nonblocking"], ops=["script:finget", "omp:asynctask"]),
    ("AsyncTask.h", "field", "AsyncTask::retValue", "T"): dict(b=_ALLB, thms=["asynctask_get_value", "asynctask_trace_accepted", "asynctask_trace_accepted_src"], ops=["asynctask"]),
    ("AsyncTask.h", "field", "AsyncTask::taskImpl", "detail::AsyncTaskImpl<std::function<void ()>>"): dict(b=_ALLB, thms=_AT_T, ops=["asynctask", "destroy"]),
    ("AsyncTask.h", "method", "AsyncTask::finished", "bool () const"): dict(b=_ALLB, thms=["asynctask_finished_nonblocking", "asynctask_flag_publishes_src"], ops=["script:finget", "script:finfinget", "script:waitget"]),
    ("AsyncTask.h", "method", "AsyncTask::get", "T ()"): dict(b=_ALLB, thms=["asynctask_get_value", "asynctask_finished_nonblocking"], ops=["script:get", "script:getget", "script:finget"]),
    ("AsyncTask.h", "method", "AsyncTask::valid", "bool () const"): dict(b=_ALLB, thms=["asynctask_flag_publishes_src"], ops=["script:finfinget"],
                                                                             note="same body as finished(): its load of the flag is in flag_load_orders_src"),
    ("AsyncTask.h", "method", "AsyncTask::wait", "void ()"): dict(b=_ALLB, thms=["asynctask_no_deadlock", "asynctask_safe_src"], ops=["script:waitget"]),
    ("async.h", "alias-template", "operator_return_t", "typename std::result_of<TASK_T ()>::type"): dict(b=_ALLB, thms=["async_future_value_src"], ops=["async"]),
    ("async.h", "function-template", "async", "auto (TASK_T &&) -> std::future<operator_return_t<TASK_T>>"): dict(
        b=_ALLB, thms=["async_heap_task_deleted_once_src", "async_future_value_src", "glue_code_shape_src"], ops=["async"]),
    ("detail/TaskSys.cpp", "function", "detail::initTaskSystemInternal", "void (int)"): dict(b="int", thms=["teardown_runs_everything_exactly_once_src", "shutdown_order_src"], ops=["int:teardown"]),
    ("detail/TaskSys.cpp", "function", "detail::numThreadsTaskSystemInternal", "int ()"): dict(b="int", skip="thread-count query: covered by C13 (facts_denote_report_src)"),
    ("detail/TaskSys.cpp", "function", "detail::scheduleTaskInternal", "void (detail::Task *)"): dict(b="int", thms=["schedule_once_internal", "schedule_internal_burst_exactly_once"], ops=["int:burst", "int:parkburst"]),
    ("detail/TaskSys.cpp", "function", "detail::waitInternal", "void (detail::Task *)"): dict(b="int", thms=["asynctask_dtor_joins", "glue_code_shape_src"], ops=["int:asynctask", "int:ownerthief"]),
    ("detail/TaskSys.cpp", "variable", "detail::g_ts", "std::unique_ptr<enki::TaskScheduler> static"): dict(b="int", thms=["shutdown_order_src"], ops=["int:teardown"]),
    ("detail/TaskSys.h", "alias", "detail::Task", "enki::ITaskSet"): dict(b="int", thms=["schedule_internal_no_uaf_src"], ops=["int:burst"]),
    ("detail/TaskSys.h", "class", "detail::parallel_for_internal()::LocalTask", "struct : detail::Task"): dict(b="int", skip=_C01),
    ("detail/TaskSys.h", "ctor", "detail::parallel_for_internal()::LocalTask::<ctor>", "void (int, TASK_T &&)"): dict(b="int", skip=_C01),
    ("detail/TaskSys.h", "dtor", "detail::parallel_for_internal()::LocalTask::<dtor>", "void () =default"): dict(b="int", skip=_C01),
    ("detail/TaskSys.h", "field", "detail::parallel_for_internal()::LocalTask::t", "const TASK_T &"): dict(b="int", skip=_C01),
    ("detail/TaskSys.h", "method", "detail::parallel_for_internal()::LocalTask::ExecuteRange", "void (enki::TaskSetPartition, uint32_t)"): dict(b="int", skip=_C01),
    ("detail/TaskSys.h", "function-template", "detail::parallel_for_internal", "void (int, TASK_T &&)"): dict(b="int", skip=_C01),
    ("detail/TaskSys.h", "class", "detail::schedule_internal()::LocalTask", "struct : detail::Task"): dict(
        b="int", thms=["schedule_internal_no_uaf", "schedule_internal_no_uaf_src", "schedule_internal_freed_once"], ops=["int:burst", "int:nested"]),
    ("detail/TaskSys.h", "ctor", "detail::schedule_internal()::LocalTask::<ctor>", "void (TASK_T &&)"): dict(b="int", thms=["schedule_internal_task_life_src"], ops=["int:burst"]),
    ("detail/TaskSys.h", "dtor", "detail::schedule_internal()::LocalTask::<dtor>", "void () =default"): dict(
        b="int", thms=["schedule_internal_freed_once", "schedule_internal_nested_not_freed_on_stack_src"], ops=["int:parkburst", "int:nested"],
        note="closure heap state released: parkburst's live_closure_state oracle; never while on the stack: nested"),
    ("detail/TaskSys.h", "field", "detail::schedule_internal()::LocalTask::t", "TASK_T"): dict(b="int", thms=["schedule_internal_no_uaf_src"], ops=["int:burst", "int:nested"]),
    ("detail/TaskSys.h", "method", "detail::schedule_internal()::LocalTask::ExecuteRange", "void (enki::TaskSetPartition, uint32_t)"): dict(
        b="int", thms=["schedule_internal_no_uaf_src", "schedule_internal_nested_not_freed_on_stack_src", "schedule_once_internal"], ops=["int:burst", "int:nested"]),
    ("detail/TaskSys.h", "class", "detail::schedule_internal()::LocalTask::ExecuteRange()::AtThreadExit", "struct"): dict(
        b="int", thms=["schedule_internal_exit_drain_src", "schedule_internal_exit_drain_instances"], ops=["int:teardown"],
        note="thread-exit guard of the per-thread reclaim slot (the slot itself is a plain pointer that stays usable after TLS destruction)"),
    ("detail/TaskSys.h", "dtor", "detail::schedule_internal()::LocalTask::ExecuteRange()::AtThreadExit::<dtor>", "void ()"): dict(
        b="int", thms=["schedule_internal_exit_drain_src", "schedule_internal_freed_once"], ops=["int:teardown", "int:parkburst"],
        note="reclaims the last finished task at thread exit: teardown (re-init joins the workers; LeakSanitizer-clean) and parkburst's live-state oracle"),
    ("detail/TaskSys.h", "function-template", "detail::schedule_internal", "void (TASK_T &&)"): dict(
        b="int", thms=["schedule_internal_one_piece", "schedule_once_internal", "schedule_internal_task_life_src"], ops=["int:burst", "int:parkburst"]),
    ("detail/TaskSys.h", "function", "detail::initTaskSystemInternal", "void (int)"): dict(b="int", thms=["teardown_runs_everything_exactly_once_src"], ops=["int:teardown"]),
    ("detail/TaskSys.h", "function", "detail::numThreadsTaskSystemInternal", "int ()"): dict(b="int", skip="thread-count query: covered by C13"),
    ("detail/TaskSys.h", "function", "detail::scheduleTaskInternal", "void (detail::Task *)"): dict(b="int", thms=["schedule_once_internal"], ops=["int:burst"]),
    ("detail/TaskSys.h", "function", "detail::waitInternal", "void (detail::Task *)"): dict(b="int", thms=["glue_code_shape_src"], ops=["int:asynctask"]),
    ("detail/async_task.inl", "class-template", "detail::AsyncTaskImpl", "struct"): dict(b=_ALLB, thms=["glue_code_shape_src"] + _AT_T, ops=["asynctask"]),
    ("detail/async_task.inl", "ctor", "detail::AsyncTaskImpl::<ctor>", "void (TASK_T &&)"): dict(b=_ALLB, thms=["glue_code_shape_src", "asynctask_fcn_once"], ops=["asynctask", "destroy"]),
    ("detail/async_task.inl", "method", "detail::AsyncTaskImpl::wait", "void ()"): dict(b=_ALLB, thms=["glue_code_shape_src", "asynctask_dtor_joins"], ops=["script:waitget", "destroy"]),
    ("detail/async_task.inl", "class", "detail::AsyncTaskImpl::LocalTask", "struct : enki::ITaskSet"): dict(b="int", thms=["glue_code_shape_src", "pipe_claims_atomic_src"], ops=["int:asynctask", "int:ownerthief"]),
    ("detail/async_task.inl", "ctor", "detail::AsyncTaskImpl::LocalTask::<ctor>", "void (TASK_T &&)"): dict(b="int", thms=["glue_code_shape_src"], ops=["int:asynctask"]),
    ("detail/async_task.inl", "field", "detail::AsyncTaskImpl::LocalTask::t", "TASK_T"): dict(b="int", thms=["glue_code_shape_src"], ops=["int:asynctask"]),
    ("detail/async_task.inl", "method", "detail::AsyncTaskImpl::LocalTask::ExecuteRange", "void (enki::TaskSetPartition, uint32_t)"): dict(
        b="int", thms=["asynctask_fcn_once", "pipe_claims_atomic_src"], ops=["int:asynctask", "int:ownerthief"]),
    ("detail/async_task.inl", "field", "detail::AsyncTaskImpl::task", "detail::AsyncTaskImpl::LocalTask"): dict(b="int", thms=["glue_code_shape_src"], ops=["int:asynctask", "int:destroy"]),
    ("detail/async_task.inl", "field", "detail::AsyncTaskImpl::taskGroup", "tbb::task_group"): dict(b="tbb", thms=["glue_code_shape_src"], ops=["tbb:asynctask", "tbb:destroy"]),
    ("detail/async_task.inl", "field", "detail::AsyncTaskImpl::thread", "std::thread"): dict(b="omp", thms=["glue_code_shape_src"], ops=["omp:asynctask", "omp:destroy"]),
    ("detail/schedule.inl", "function-template", "detail::schedule_impl", "void (TASK_T)"): dict(b=_ALLB, thms=["glue_code_shape_src", "schedule_exactly_once", "schedule_debug_contract"], ops=_SCHED_OPS),
    ("schedule.h", "function-template", "schedule", "void (TASK_T)"): dict(b=_ALLB, thms=["schedule_exactly_once", "glue_code_shape_src"], ops=_SCHED_OPS + ["async"]),
    # enki::TaskScheduler (shared with C01): the members C02's theorems and scenarios rely on; the rest belongs to C01
    (_TS, "member-definition", "enki::TaskScheduler::AddTaskSetToPipe", "void (enki::ITaskSet *)"): dict(b="int", thms=["schedule_internal_one_piece", "schedule_internal_burst_exactly_once"], ops=["int:burst", "int:parkburst"]),
    (_TS, "member-definition", "enki::TaskScheduler::SplitAndAddTask", "void (uint32_t, enki::SubTaskSet, uint32_t)"): dict(b="int", thms=["schedule_internal_one_piece", "schedule_internal_burst_bounded", "schedule_internal_wake_every_push_src"], ops=["int:parkburst", "int:chain"]),
    (_TS, "member-definition", "enki::TaskScheduler::TryRunTask", "bool (uint32_t, uint32_t &)"): dict(b="int", thms=["schedule_internal_no_uaf_src", "schedule_once_internal"], ops=["int:burst", "int:steal"]),
    (_TS, "member-definition", "enki::TaskScheduler::WakeThreads", "void (int32_t)"): dict(b="int", thms=["schedule_internal_no_lost_wakeup_src", "schedule_internal_wakeup_needs_both_fences"], ops=["int:wakeup"]),
    (_TS, "member-definition", "enki::TaskScheduler::WaitForTasks", "void (uint32_t)"): dict(b="int", thms=["schedule_internal_no_lost_wakeup_src"], ops=["int:wakeup"]),
    (_TS, "member-definition", "enki::TaskScheduler::WaitforAll", "void ()"): dict(b="int", thms=["teardown_runs_everything_exactly_once_src", "teardown_runs_everything_exactly_once"], ops=["int:teardown"]),
    (_TS, "member-definition", "enki::TaskScheduler::WaitforAllAndShutdown", "void ()"): dict(b="int", thms=["shutdown_order_src"], ops=["int:teardown"]),
    (_TS, "member-definition", "enki::TaskScheduler::StopThreads", "void (bool)"): dict(b="int", thms=["shutdown_order_src"], ops=["int:teardown"]),
    (_TS, "member-definition", "enki::TaskScheduler::~TaskScheduler", "void () noexcept"): dict(b="int", thms=["shutdown_order_src"], ops=["int:teardown"]),
    (_TS, "member-definition", "enki::TaskScheduler::WaitforTask", "void (const enki::ICompletable *)"): dict(b="int", thms=["asynctask_dtor_joins", "schedule_internal_nested_not_freed_on_stack_src"], ops=["int:asynctask", "int:nested"]),
    (_TS, "member-definition", "enki::TaskScheduler::AddPinnedTask", "void (enki::IPinnedTask *)"): dict(b="int", skip=_C01 + " (pinned tasks are not reachable through rkcommon's API)"),
    (_TS, "member-definition", "enki::TaskScheduler::RunPinnedTasks", "void ()"): dict(b="int", skip=_C01),
    (_TS, "member-definition", "enki::TaskScheduler::RunPinnedTasks", "void (uint32_t)"): dict(b="int", skip=_C01),
    (_TS, "member-definition", "enki::TaskScheduler::GetNumTaskThreads", "uint32_t () const"): dict(b="int", skip="thread count: covered by C13"),
    (_TS, "member-definition", "enki::TaskScheduler::GetProfilerCallbacks", "enki::ProfilerCallbacks *()"): dict(b="int", skip="profiler hooks, not in the property"),
    (_TS, "member-definition", "enki::TaskScheduler::Initialize", "void ()"): dict(b="int", skip="not called by rkcommon (Initialize(uint32_t) is): covered by C01/C13"),
    (_TS, "member-definition", "enki::TaskScheduler::Initialize", "void (uint32_t)"): dict(b="int", skip="thread start-up: covered by C13 (facts_denote_construct_src) and C01"),
    (_TS, "member-definition", "enki::TaskScheduler::StartThreads", "void ()"): dict(b="int", skip="thread start-up: covered by C13 (worker_loop_src) and C01"),
    (_TS, "member-definition", "enki::TaskScheduler::TaskScheduler", "void ()"): dict(b="int", skip="member initialisation: covered by C01"),
    (_TS, "member-definition", "enki::TaskScheduler::TaskingThreadFunction", "void *(void *)"): dict(b="int", skip="worker main loop: covered by C01 (C02 relies on it through TryRunTask / WaitForTasks above)"),
}
# facts about the implicitly-declared special members (harness `traits`, per backend): AsyncTask is neither copyable nor movable
# (std::atomic member + user-declared destructor): the model's single owner / single destructor assumption
TRAITS_EXPECTED = {"copy_constructible": "0", "copy_assignable": "0", "move_constructible": "0", "move_assignable": "0",
                   "polymorphic": "1"}   # (AsyncTaskImpl's own copyability differs per backend and is unreachable: taskImpl is private in a non-copyable class; recorded)
INV_ANCHORS = ["rkcommon/tasking/schedule.h", "rkcommon/tasking/async.h", "rkcommon/tasking/AsyncTask.h", "rkcommon/tasking/detail/schedule.inl",
               "rkcommon/tasking/detail/async_task.inl", "rkcommon/tasking/detail/TaskSys.h", "rkcommon/tasking/detail/TaskSys.cpp",
               "rkcommon/tasking/detail/enkiTS/TaskScheduler.cpp"]


def inventory(ctx, hist_b, script_hist, traits, theorems):
    sys.path.insert(0, os.path.join(ctx.verif, "tools", "declinv"))
    import declinv
    defs = {"tbb": ["-DRKCOMMON_TASKING_TBB"], "omp": ["-DRKCOMMON_TASKING_OMP", "-fopenmp"], "int": ["-DRKCOMMON_TASKING_INTERNAL"], "dbg": []}
    inst = os.path.join(ctx.verif, "tools", "c02facts", "inst.cpp")
    units = [(b, inst, "rkcommon::tasking", d) for b, d in defs.items()]
    units += [("int:ts", os.path.join(ctx.repo, "rkcommon/tasking/detail/TaskSys.cpp"), "rkcommon::tasking", defs["int"]),
              ("int:sch", os.path.join(ctx.repo, "rkcommon/tasking/detail/enkiTS/TaskScheduler.cpp"), "enki::TaskScheduler", [])]
    try:
        inv = declinv.inventory_union(ctx.repo, ctx.include_dir(), os.path.join(ctx.build, "ast"), units, INV_ANCHORS)
    except Exception as e:
        ctx.broken.append("inventory: enumeration of the declarations failed: %s" % str(e)[-300:])
        return {}
    label = lambda k: "%s %s `%s` : %s" % (k[0], k[1], k[2], k[3])
    bname = {"dbg": "debug", "int": "internal", "omp": "omp", "tbb": "tbb"}
    out = {}
    for k, backs in sorted(inv.items()):
        e = COVER.get(k)
        if e is None:
            ctx.broken.append("inventory: declaration not in the COVER table (new overload / member / changed signature): " + label(k))
            continue
        if ",".join(backs) != e["b"]:
            ctx.broken.append("inventory: %s is declared under backends %s, COVER says %s" % (label(k), ",".join(backs), e["b"]))
        if "skip" in e:
            out[label(k)] = {"out_of_scope": e["skip"]}
            continue
        missing = [x for x in e["thms"] if x not in theorems]
        if missing:
            ctx.broken.append("inventory: %s names theorems that do not exist: %s" % (label(k), missing))
        counts = {}
        for op in e["ops"]:
            if op.startswith("script:"):
                counts[op] = script_hist.get(op[7:], 0)
            elif op.startswith("fact:"):
                counts[op] = sum(1 for b in traits if all(traits[b].get(x) == v for x, v in TRAITS_EXPECTED.items()))
            elif ":" in op:
                b, m = op.split(":")
                counts[op] = hist_b.get(bname.get(b, b) + ":" + m, 0)
            else:
                counts[op] = sum(v for kk, v in hist_b.items() if kk.split(":")[1] == op and kk.split(":")[0] in [bname[x] for x in backs])
        zero = [o for o, c in counts.items() if c == 0]
        if zero:
            ctx.broken.append("inventory: covered declaration %s was not executed in this run: %s" % (label(k), ", ".join(zero)))
        out[label(k)] = {"theorems": e["thms"], "executed": counts}
    for k in COVER:
        if k not in inv:
            ctx.broken.append("inventory: COVER entry whose declaration vanished or changed signature: " + label(k))
    for b, tr in traits.items():
        bad_t = {x: tr.get(x) for x, v in TRAITS_EXPECTED.items() if tr.get(x) != v}
        if bad_t:
            ctx.broken.append("inventory: implicit special members of AsyncTask changed on the %s backend (%s): the model assumes a single owner "
                              "(not copyable, not movable)" % (b, bad_t))
    return out


def kv(line):
    return dict(t.split("=", 1) for t in line.split()[1:] if "=" in t)


def san_summary(err):
    m = re.findall(r"SUMMARY: [^\n]*|runtime error: [^\n]*", err)
    return (m[0] if m else err.strip()[-300:])[:400]


def gen_facts(ctx):
    out = os.path.join(ctx.coqdir, "gen", "Facts.v")
    cmd = [sys.executable, os.path.join(ctx.verif, "tools", "c02facts", "gen_facts.py"), ctx.repo, ctx.include_dir(), out,
           os.path.join(ctx.build, "ast")]
    rc, o = vlib.sh(cmd, timeout=300)
    ctx.log("fact table: " + o.strip()[-600:])
    if rc != 0:
        # never let a stale table stand in for the current tree
        # never let a stale table stand in for the current tree — but keep the project buildable: an EMPTY table makes only the
        # source-derived files (ProofsSrc / PropertiesSrc) fail, the model-level theorems are still checked
        os.makedirs(os.path.dirname(out), exist_ok=True)
        with open(out, "w") as fh:
            fh.write("(* fact extraction FAILED on this run: no table *)\nDefinition fact_extraction_failed : unit := tt.\n")
        ctx.broken.append("fact extraction from the clang AST failed: " + o.strip()[-300:])
        return None
    ctx.cov["source_facts"] = o.strip()
    return o


C01_PIPE_VO = ("Pipe.vo", "PipeProofs.vo", "PipeStrand.vo")


def ensure_c01_pipe(ctx):
    """coq/C02/PipeBridge.v and PropertiesPipeBridge.v import the pipe model and its theorems from coq/C01 (-Q ../C01 C01).
    Normally those .vo exist (bin/setup, bin/vcheck C01); only when one is MISSING are exactly these three targets built,
    from their hand-written sources (they depend on coq/Common only — C01's generated gen/*.v are never touched from here)."""
    d = os.path.join(ctx.verif, "coq", "C01")
    missing = [f for f in C01_PIPE_VO if not os.path.exists(os.path.join(d, f))]
    if not missing:
        return True
    ctx.log("coq/C01: %s missing, building the pipe model files needed by the bridge" % ", ".join(missing))
    ctx.coq_common()
    if not os.path.exists(os.path.join(d, "Makefile.coq")):
        vlib.sh(["coq_makefile", "-f", "_CoqProject", "-o", "Makefile.coq"], cwd=d, timeout=120)
    rc, out = vlib.sh(["make", "-f", "Makefile.coq", "-j2"] + list(C01_PIPE_VO), cwd=d, timeout=900)
    if rc != 0:
        ctx.log("building coq/C01 pipe files failed:\n" + out[-1500:])
        ctx.broken.append("coq/C01 pipe model (Pipe.v, PipeProofs.v, PipeStrand.v) did not build: the bridge theorems of PropertiesPipeBridge.v cannot be checked")
    return rc == 0


class SkipStage(Exception):
    """raised by run_mode when a scenario cannot run (its harness build is missing / the wall-clock budget is used up)"""


def run(ctx):
    """Every stage is isolated: a failure is recorded in ctx.broken (stage + first error line) and the run continues with
    everything that does not strictly need the failed artefact; the harness + its own oracles run whenever a build exists."""
    try:
        _run(ctx)
    except Exception as ex:      # last resort: bin/vcheck must still reach ctx.finish() and write the evidence
        import traceback
        ctx.broken.append("check aborted by an exception outside any stage: %s: %s | %s" % (type(ex).__name__, str(ex)[:200],
                                                                                          traceback.format_exc().strip().split("\n")[-3][:160]))


def _run(ctx):
    import time, traceback
    deadline = ctx.t0 + int(os.environ.get("VERIF_BUDGET_S", ctx.pick(240, 2400)))      # wall-clock budget of the whole run
    skipped = []

    def stage_fail(stage, ex):
        tb = traceback.format_exc().strip().split("\n")
        where = [x.strip() for x in tb if x.strip().startswith("File")][-1:] or [""]
        ctx.broken.append("stage failed: %s: %s: %s (%s)" % (stage, type(ex).__name__, str(ex)[:200], where[0][:120]))
        ctx.log("stage failed: %s: %s" % (stage, tb[-1][:200]))

    facts, res, bridge_thms, src_broken, model, model_says = None, {}, [], [], None, {}
    try:
        facts = gen_facts(ctx)
    except Exception as ex:
        stage_fail("fact extraction (tools/c02facts)", ex)
    try:
        ensure_c01_pipe(ctx)
        res = ctx.coq_check(("Properties.v", "PropertiesSrc.v", "PropertiesPipeBridge.v"))
        bridge_thms = vlib.theorem_names(open(os.path.join(ctx.coqdir, "PropertiesPipeBridge.v")).read())
        ctx.cov["pipe_bridge_theorems"] = {n: bool(res.get(n)) for n in bridge_thms}
        src_broken = [n for n, v in res.items() if not v and n not in bridge_thms]
        first_err = re.findall(r'File "[^"]+", line \d+[^\n]*\n(?:[^\n]*\n){0,3}?Error:[^\n]*', getattr(ctx, "coq_log", ""))
        if first_err:
            ctx.cov["coq_first_error"] = first_err[0][-300:]
    except Exception as ex:
        stage_fail("Coq build", ex)
    try:
        model = ctx.extract() if facts else None
    except Exception as ex:
        stage_fail("extraction / OCaml model build", ex)
    if model:
        rc, out, err = ctx.run_exe(model, [], stdin="CHECK\nASYNC\nUAF\n")
        ls = out.strip().split("\n")
        if rc == 0 and len(ls) == 3:
            model_says = {"asynctask": ls[0], "async": ls[1], "uaf": ls[2]}
            ctx.cov["model_on_source_facts"] = model_says
            ctx.log("extracted model on the source-derived facts: " + " | ".join(ls))
        else:
            ctx.broken.append("model driver failed on CHECK/ASYNC/UAF rc=%s %s" % (rc, err[-200:]))

    jobs = [dict(sources=["harness.cpp"], out="h_" + b, backend=b, sanitize="asan") for b in BACKENDS]
    # the wake-up scenario is timing-sensitive: an un-instrumented -O2 build of the internal backend for it
    jobs.append(dict(sources=["harness.cpp"], out="hw_internal", backend="internal", sanitize=None, opt="-O2"))
    # TSan: the OpenMP build only (every AsyncTask / schedule() is a std::thread, fully visible to TSan); the TBB runtime is
    # not instrumented and yields false reports (std::function handed through tbb::task_group)
    tsan = ["omp"]
    jobs += [dict(sources=["harness.cpp"], out="ht_" + b, backend=b, sanitize="tsan") for b in tsan]
    exes = ctx.cxx_many(jobs)
    hx = dict(zip([j["out"] for j in jobs], exes))
    # a failed build: retry once with a wider source list (a changed header may newly need other repo sources); then go on
    # with whatever exists — the harness and its own oracles do not need the model, and one backend does not need the others
    for j in jobs:
        if hx.get(j["out"]) is None:
            ctx.log("build of %s failed: retrying with rkcommon/common.cpp, os/library.cpp, -ldl" % j["out"])
            try:
                hx[j["out"]] = ctx.cxx(**dict(j, repo_sources=["rkcommon/common.cpp", "rkcommon/os/library.cpp"], libs=["-ldl"]))
            except Exception as ex:
                stage_fail("harness build " + j["out"], ex)
    if hx.get("hw_internal") is None:
        hx["hw_internal"] = hx.get("h_internal")       # timing-sensitive scenarios fall back to the ASan build
    if not any(hx.get("h_" + b) for b in BACKENDS):
        ctx.broken.append("no harness build succeeded: nothing can be run against the tree")
        return

    bursts = ctx.pick([1, 10, 1000], [1, 10, 1000, 100000])
    areps = ctx.pick(8, 40)
    treps = ctx.pick(3, 9)
    dreps = ctx.pick(6, 24)
    found = {}      # kind -> list of dict(backend, args, observed, required, stderr)
    hist = {}
    hist_b, script_hist, traits = {}, {}, {}

    def bad(kind, backend, args, observed, required, stderr=""):
        found.setdefault(kind, []).append(dict(backend=backend, harness_args=" ".join(args), observed=observed,
                                               required=required, stderr_tail=stderr[-1500:]))

    def run_mode(b, args, timeout=300, prefix="h_"):
        exe = hx.get(prefix + b.split("(")[0])
        left = deadline - time.time()
        if exe is None or left < 5:
            skipped.append("%s %s%s" % (b, " ".join(args), " (no build)" if exe is None else " (budget)"))
            raise SkipStage()
        rc, out, err = ctx.run_exe(exe, args, timeout=max(5, min(timeout, left)))
        lines = [l for l in out.split("\n") if l.strip()]
        hist[args[0]] = hist.get(args[0], 0) + 1
        hist_b[b.split("(")[0] + ":" + args[0]] = hist_b.get(b.split("(")[0] + ":" + args[0], 0) + 1
        return rc, lines, err

    trace_cases = []   # (backend, args, line, fields)
    parked_short, pipe_full_inline, wake_calls, owner_iters, teardown_cases, reinit_fail = [], {}, {}, {}, [0], []
    for b in BACKENDS:
        if hx.get("h_" + b) is None:
            ctx.broken.append("harness build for the %s backend is missing: its scenarios are skipped" % b)
            continue
        try:
            # ---- schedule(): bursts, exactly once after quiescence, no caller action
            for n in bursts:
                if b == "omp" and n > 20000:
                    n = 20000          # one detached std::thread per closure: keep the thread count sane
                args = ["burst", str(n)]
                rc, lines, err = run_mode(b, args, timeout=600)
                ctx.count(n)
                if rc != 0:
                    bad("schedule-crash", b, args, "harness rc=%d: %s" % (rc, san_summary(err)), "no crash, no sanitizer report", err)
                    continue
                f = kv(lines[-1]) if lines else {}
                if f.get("once") != str(n) or f.get("zero") != "0" or f.get("multi") != "0":
                    bad("schedule-count", b, args, lines[-1] if lines else "<no output>",
                        "every one of the %d closures executed exactly once without further caller action" % n)
                elif n > 1:
                    ctx.nontriv(("burst", b, n))
        except SkipStage:
            pass
        except Exception as ex:
            stage_fail("scenario group [schedule(): bursts, exactly once after quiescence, no] on the %s backend" % b, ex)
        try:
            # ---- more pending schedule() calls than the internal pipe has slots (256), all workers parked
            for T in (2, 4):
                for n in (300, 1000):
                    args = ["parkburst", str(T), str(n)]
                    rc, lines, err = run_mode(b, args, timeout=120)
                    ctx.count(n)
                    if rc != 0:
                        bad("schedule-crash", b, args, "harness rc=%d: %s" % (rc, san_summary(err)), "no crash, no sanitizer report, no hang", err)
                        continue
                    f = kv(lines[-1]) if lines else {}
                    want = f.get("parked", "0/0").split("/")
                    req = []
                    if f.get("once") != str(n) or f.get("zero") != "0" or f.get("multi") != "0":
                        req.append("every one of the %d closures executed exactly once (none lost when the pipe is full, none duplicated)" % n)
                    if int(f.get("live_closure_state", "99999")) > T:
                        req.append("heap state of executed closures released (at most one deferred task per tasking thread may remain)")
                    if f.get("parkers_done") != want[-1]:
                        req.append("the parked closures themselves complete")
                    if req:
                        bad("schedule-count", b, args, lines[-1] if lines else "<no output>", "; ".join(req))
                    else:
                        if want[0] != want[-1]:
                            parked_short.append((b, args, f.get("parked")))
                        if b == "internal":
                            pipe_full_inline[" ".join(args)] = int(f.get("ran_on_caller", "0"))
                        if b != "debug":
                            ctx.nontriv(("parkburst", b, T, n))
        except SkipStage:
            pass
        except Exception as ex:
            stage_fail("scenario group [more pending schedule() calls than the internal pipe ] on the %s backend" % b, ex)
        try:
            # ---- schedule() uses the CALLER's arena / a per-call object on every call: first call of a functor type from inside a
            # small tbb::task_arena(2,1) with a long-running closure, later calls of the same type from the main thread
            if b != "debug":
                args = ["arena", "5"]
                rc, lines, err = run_mode(b, args, timeout=120)
                f = kv(lines[-1]) if lines else {}
                ctx.count(5)
                if rc != 0 or not f:
                    bad("schedule-crash", b, args, "harness rc=%d: %s" % (rc, san_summary(err)), "no crash, no hang", err)
                elif f.get("ran_within_2s") != f.get("later_calls") or f.get("long_running_started") != "1":
                    bad("schedule-starved", b, args, lines[-1],
                        "a closure scheduled from the main thread runs within 2 s although an earlier closure of the same functor type "
                        "(scheduled first%s) is still running" % (" from inside tbb::task_arena(2,1)" if b == "tbb" else ""))
                else:
                    ctx.nontriv(("arena", b))
        except SkipStage:
            pass
        except Exception as ex:
            stage_fail("scenario group [schedule() uses the CALLER's arena / a per-call objec] on the %s backend" % b, ex)
        try:
            # ---- dependency chains: k closures scheduled back to back, closure i waits (deadline 2 s) for closure i+1; caller only polls
            if b != "debug":
                for T, k in ((3, 2), (4, 3), (8, 5)):
                    args = ["chain", str(T), str(k), str(ctx.pick(12, 60))]
                    rc, lines, err = run_mode(b, args, timeout=120)
                    f = kv(lines[-1]) if lines else {}
                    ctx.count(int(f.get("completed", "0")) * k)
                    if rc != 0 or not f:
                        bad("schedule-crash", b, args, "harness rc=%d: %s" % (rc, san_summary(err)), "no crash, no hang", err)
                    elif f.get("links_not_satisfied_within_2s") != "0":
                        rc2, lines2, err2 = run_mode(b, args, timeout=120)        # confirm on a second run
                        f2 = kv(lines2[-1]) if lines2 else {}
                        if f2.get("links_not_satisfied_within_2s", "0") != "0":
                            bad("schedule-dependency-chain", b, args, lines[-1] + "   [second run: %s]" % (lines2[-1] if lines2 else "-"),
                                "%d closures scheduled back to back on %d tasking threads, closure i waiting for closure i+1: all complete although the "
                                "caller only polls (observed: a waiting closure timed out after 2 s while %s threads of the process were asleep)"
                                % (k, T, f.get("threads_asleep_meanwhile")))
                        else:
                            ctx.cov.setdefault("unconfirmed", []).append(lines[-1])
                    else:
                        ctx.nontriv(("chain", b, T, k))
        except SkipStage:
            pass
        except Exception as ex:
            stage_fail("scenario group [dependency chains] on the %s backend" % b, ex)
        try:
            # ---- a task queued by a busy worker (in that worker's own pipe) must be stolen by another worker
            if b != "debug":
                for T in (3, 4):
                    args = ["steal", str(T), str(ctx.pick(40, 200))]
                    rc, lines, err = run_mode(b, args, timeout=120)
                    f = kv(lines[-1]) if lines else {}
                    ctx.count(int(f.get("completed", "0")))
                    if rc != 0 or not f:
                        bad("schedule-crash", b, args, "harness rc=%d: %s" % (rc, san_summary(err)), "no crash, no hang", err)
                    elif f.get("inner_not_run_within_2s") != "0" or f.get("completed") != f.get("iters"):
                        bad("schedule-starved", b, args, lines[-1] + "   [closure A (on a worker) schedules closure B and spins; another worker must steal B]",
                            "a closure scheduled from inside a running closure is executed within 2 s by another tasking thread (%d threads)" % T)
                    else:
                        ctx.nontriv(("steal", b, T))
        except SkipStage:
            pass
        except Exception as ex:
            stage_fail("scenario group [a task queued by a busy worker (in that worker's own ] on the %s backend" % b, ex)
        try:
            # ---- wake-up: one schedule() at a time, timed (sweep 0..100 us) to the idle worker's spin-to-sleep transition
            for T, ms in ((2, ctx.pick(5000, 30000)), (3, ctx.pick(1500, 10000))) if b == "internal" else ((2, ctx.pick(400, 2000)),):
                args = ["wakeup", str(T), str(ms)]
                rc, lines, err = run_mode(b, args, timeout=120 + ms // 1000, prefix="hw_" if b == "internal" else "h_")
                f = kv(lines[-1]) if lines else {}
                ctx.count(int(f.get("calls", "0")))
                wake_calls[b + ":T=%d" % T] = int(f.get("calls", "0"))
                if rc != 0 or not f:
                    bad("schedule-crash", b, args, "harness rc=%d: %s" % (rc, san_summary(err)), "no crash, no hang", err)
                elif f.get("lost") != "0":
                    bad("schedule-lost-wakeup", b, args, lines[-1] + "   [%s build, g++ %s]" % (("un-instrumented", "-O2") if b == "internal" else ("ASan", "-O1")),
                        "every schedule()d closure is executed within 2 s while the caller stays idle (no lost wake-up): call number %s, issued "
                        "%s us after the previous closure finished, was not run" % (f.get("calls"), f.get("delay_us_of_lost_call")))
                else:
                    ctx.nontriv(("wakeup", b, T))
        except SkipStage:
            pass
        except Exception as ex:
            stage_fail("scenario group [wake-up: one schedule() at a time, timed (sweep 0..10] on the %s backend" % b, ex)
        try:
            # ---- scheduler teardown: bursts (with follow-up chains of depth 0..3) IMMEDIATELY followed by re-initialisation of the
            # tasking system, or by process exit (verdict written by an ELF destructor after all static destructors)
            if b == "internal":
                nt = ctx.pick(60, 400)
                for T in (1, 2, 3, 8):
                    cases = [["teardown", "reinit", str(T), str(T2), str(nt), str(d)] for d in (0, 1, 3) for T2 in ((2,) if d else (2, 1))]
                    cases += [["teardown", "exit", str(T), str(nt), str(d)] for d in (0, 2)]
                    if T in (1, 2):      # more than the pipe holds (256): part of the burst runs inline on the caller BEFORE exit, the rest is
                        cases += [["teardown", "exit", str(T), "300", str(d)] for d in (0, 1)]   # drained after the main thread's TLS destructors
                    for args in cases:
                        rc, lines, err = run_mode(b, args, timeout=60)
                        tl = [l for l in lines if l.startswith("TEARDOWN")]
                        f = kv(tl[-1]) if tl else {}
                        depth = int(args[-1])
                        ctx.count(nt * (depth + 1))
                        teardown_cases[0] += 1
                        what = ("initTaskingSystem(%s); %s schedule() calls, each closure scheduling a follow-up chain of depth %d; then at once %s"
                                % (args[2], nt, depth, "initTaskingSystem(%s)" % args[3] if args[1] == "reinit" else "return from main()"))
                        good = bool(f) and rc == 0 and "HANG" not in tl[-1] and f.get("zero") == "0" and f.get("multi") == "0" and f.get("once") == f.get("tasks")
                        if good:
                            ctx.nontriv(("teardown", tuple(args)))
                            continue
                        observed = (tl[-1] if tl else "harness rc=%d: %s" % (rc, san_summary(err)))
                        required = "when the teardown has returned every closure scheduled before or during it has run exactly once"
                        if args[1] == "reinit" and depth >= 1 and not tl:
                            reinit_fail.append(" ".join(args))
                            if len(reinit_fail) > 1:
                                continue          # one report; all failing configurations are listed in the coverage
                            # follow-up handed to the new, not yet initialised scheduler (g_ts replaced before the old scheduler is drained)
                            ctx.violation("internal backend: " + what + ": " + observed,
                                          {"backend": b, "harness_args": " ".join(args), "scenario": what, "observed": observed, "required": required,
                                           "stderr_tail": err[-1500:]}, signature=REINIT_SIG)
                        else:
                            bad("schedule-teardown", b, args, observed + "   [" + what + "]", required, err)
        except SkipStage:
            pass
        except Exception as ex:
            stage_fail("scenario group [scheduler teardown: bursts (with follow-up chains of ] on the %s backend" % b, ex)
        try:
            # ---- pipe owner and thief race for the ONLY queued item (internal backend; un-instrumented -O2 build and ASan build)
            if b == "internal":
                for pre, label in (("hw_", "un-instrumented -O2"), ("h_", "ASan -O1")):
                    for T in (2, 4):
                        for variant in ("get", "drop", "pf"):
                            ms = ctx.pick(350, 2500) if pre == "hw_" else ctx.pick(200, 1500)
                            args = ["ownerthief", str(T), variant, str(ms)]
                            rc, lines, err = run_mode(b, args, timeout=60 + ms // 1000, prefix=pre)
                            ol = [l for l in lines if l.startswith("OWNERTHIEF")]
                            f = kv(ol[-1]) if ol else {}
                            ctx.count(int(f.get("iters", "0")))
                            owner_iters[variant] = owner_iters.get(variant, 0) + int(f.get("iters", "0"))
                            desc = {"get": "AsyncTask<int> construct + immediate get()", "drop": "AsyncTask<int> construct + immediate destruction",
                                    "pf": "schedule() of one closure + parallel_for(1) on the caller"}[variant]
                            if rc != 0 or not f:
                                bad("schedule-owner-thief", b, args, "harness rc=%d (%s build): %s  [tight loop of %s, %d tasking threads]"
                                    % (rc, label, san_summary(err), desc, T), "no crash, no sanitizer report", err)
                            elif not (f.get("twice") == "0" and f.get("zero") == "0" and f.get("wrong_value") == "0" and f.get("hang") == "0"):
                                bad("schedule-owner-thief", b, args, ol[-1] + "   [%s build; tight loop of %s]" % (label, desc),
                                    "every task body runs exactly once and the loop does not hang (the queuing thread and a stealing worker "
                                    "must not both claim the only queued item)")
                            else:
                                ctx.nontriv(("ownerthief", pre, T, variant))
        except SkipStage:
            pass
        except Exception as ex:
            stage_fail("scenario group [pipe owner and thief race for the ONLY queued item (i] on the %s backend" % b, ex)
        try:
            # ---- a scheduled closure that schedules a same-type closure and then waits inside the tasking system
            for T in (2, 3):
                args = ["nested", str(T), str(ctx.pick(8, 30))]
                rc, lines, err = run_mode(b, args, timeout=120)
                ctx.count(2 * int(args[2]))
                nl = [l for l in lines if l.startswith("NESTED")]
                if rc != 0:
                    bad("schedule-nested", b, args, "harness rc=%d: %s  [scenario: OUTER scheduled closure (functor Job, heap state + canary) "
                        "schedules an INNER Job and blocks in %s; last line: %s]"
                        % (rc, san_summary(err), "AsyncTask<int>::get()" if len(nl) == 0 else "a nested parallel_for", nl[-1] if nl else "-"),
                        "no sanitizer report: neither closure is released while it runs", err)
                    continue
                for l in nl:
                    f = kv(l)
                    it = f.get("iters")
                    if not (f.get("completed") == it and f.get("outer") == it and f.get("inner") == it and f.get("outer_done") == it
                            and f.get("corrupt") == "0"):
                        bad("schedule-nested", b, args, l, "every OUTER and INNER closure runs exactly once and finds its own heap state / canary intact")
                    elif b != "debug":
                        ctx.nontriv(("nested", b, T, f.get("wait")))
                if len(nl) != 2:
                    bad("schedule-nested", b, args, "only %d of 2 result lines" % len(nl), "both wait kinds complete")
        except SkipStage:
            pass
        except Exception as ex:
            stage_fail("scenario group [a scheduled closure that schedules a same-type closur] on the %s backend" % b, ex)
        try:
            # ---- facts about AsyncTask's implicitly-declared special members (inventory)
            rc, lines, err = run_mode(b, ["traits"], timeout=60)
            if rc == 0 and lines:
                traits[b] = kv(lines[-1])
        except SkipStage:
            pass
        except Exception as ex:
            stage_fail("scenario group [facts about AsyncTask's implicitly-declared special m] on the %s backend" % b, ex)
        try:
            # ---- async()
            args = ["async", str(areps)]
            rc, lines, err = run_mode(b, args)
            if rc != 0:
                bad("schedule-crash", b, args, "harness rc=%d: %s" % (rc, san_summary(err)), "no crash, no sanitizer report", err)
            for l in lines:
                f = kv(l)
                ctx.count(int(f.get("reps", "0")))
                if f.get("bad") != "0" or f.get("fcn_calls") != f.get("reps"):
                    bad("async-value", b, args, l, "future.get() == the value the function returned; function called once per async()")
                elif f.get("type") != "int":
                    ctx.nontriv(("async", b, f.get("type")))
            if b == "debug":
                # the heap packaged_task must be deleted: LeakSanitizer on the deterministic single-threaded backend
                rc, out, err = ctx.run_exe(hx["h_debug"], ["async", "3"], timeout=300,
                                           env={"ASAN_OPTIONS": "detect_leaks=1:exitcode=99:abort_on_error=0"})
                hist["async-leakcheck"] = hist.get("async-leakcheck", 0) + 1
                if rc != 0 and "LeakSanitizer" in err:
                    m = re.findall(r"#\d+ 0x[0-9a-f]+ in ([^\n]*async\.h:\d+)", err)
                    bad("async-leak", b, ["async", "3"], "LeakSanitizer: %s; allocated at %s" % (san_summary(err), m[0][:200] if m else "?"),
                        "the heap packaged_task is deleted exactly once after use", err)
        except SkipStage:
            pass
        except Exception as ex:
            stage_fail("scenario group [async()] on the %s backend" % b, ex)
        try:
            # ---- AsyncTask<T>
            for ty in TYPES:
                args = ["asynctask", str(treps), ty]
                rc, lines, err = run_mode(b, args)
                if rc != 0:
                    bad("asynctask-crash", b, args, "harness rc=%d: %s" % (rc, san_summary(err)), "no crash, no sanitizer report", err)
                for l in lines:
                    if not l.startswith("AT "):
                        continue
                    f = kv(l)
                    ctx.count()
                    sc = f["script"]
                    script_hist[sc] = script_hist.get(sc, 0) + 1
                    vals = [] if f["vals"] == "-" else f["vals"].split(",")
                    req = []
                    if vals != ["result"] * NGETS[sc]:
                        req.append("get() returns exactly the value fcn returned")
                    if f["calls"] != "1":
                        req.append("fcn executed exactly once")
                    if f["ended_at_dtor_return"] != "1":
                        req.append("~AsyncTask returns only after the task has ended")
                    if sc in ("finget", "finfinget", "waitget") and f["fin"] != "1":
                        req.append("finished() is true after wait()/polling")
                    if sc in ("finget", "finfinget") and float(f["get_ms"]) > 100.0:
                        req.append("finished()==true implies get() does not block (took %s ms)" % f["get_ms"])
                    if req:
                        bad("asynctask-value", b, args, l, "; ".join(req))
                    else:
                        if ty != "int" or f["work_ms"] != "0":
                            ctx.nontriv(("at", b, ty, sc, f["work_ms"]))
                    if ty == "tracked":
                        trace_cases.append((b, args, l, f))
        except SkipStage:
            pass
        except Exception as ex:
            stage_fail("scenario group [AsyncTask<T>] on the %s backend" % b, ex)
        try:
            # ---- destroy while running
            args = ["destroy", str(dreps)]
            rc, lines, err = run_mode(b, args)
            ctx.count(dreps)
            if rc != 0:
                bad("asynctask-crash", b, args, "harness rc=%d: %s" % (rc, san_summary(err)), "no crash, no sanitizer report", err)
            elif not lines or kv(lines[-1]).get("not") != "0":
                bad("asynctask-dtor", b, args, lines[-1] if lines else "<no output>", "destroying an AsyncTask first waits for its task")
            else:
                ctx.nontriv(("destroy", b))
        except SkipStage:
            pass
        except Exception as ex:
            stage_fail("scenario group [destroy while running] on the %s backend" % b, ex)
        try:
            # ---- one tasking thread, the caller never waits
            args = ["onethread"]
            rc, lines, err = run_mode(b, args)
            ctx.count()
            f = kv(lines[-1]) if lines else {}
            if f.get("ran_without_caller_action") == "0":
                what = ("%s backend initialised with 1 thread: a schedule()d closure had not run after 1.5 s without caller action "
                        "(after a following parallel_for: ran=%s)" % (b, f.get("ran_after_caller_waited")))
                if b == "internal":
                    ctx.violation(what, {"backend": b, "harness_args": "onethread", "observed": lines[-1],
                                         "required": "executed exactly once, eventually, with no further action required from the caller"},
                                  signature=ONETHREAD_SIG)
                else:
                    bad("onethread", b, args, lines[-1], "executed eventually without caller action")
            if rc != 0:
                bad("schedule-crash", b, args, "harness rc=%d: %s" % (rc, san_summary(err)), "no crash, no sanitizer report", err)

        except SkipStage:
            pass
        except Exception as ex:
            stage_fail("scenario group [one tasking thread, the caller never waits] on the %s backend" % b, ex)
    try:
        # ---- trace validation of the instrumented payload against the extracted model
        if model and trace_cases:
            cases = ["T 0 " + f["trace"] for (_, _, _, f) in trace_cases]
            rc, mlines, merr = vlib.run_lines(ctx, model, [], cases)
            if rc != 0 or len(mlines) != len(cases):
                ctx.broken.append("model driver failed on traces rc=%s" % rc)
            else:
                thist = {}
                for (b, args, l, f), ml in zip(trace_cases, mlines):
                    tr = f["trace"]
                    thist[tr] = thist.get(tr, 0) + 1
                    harness_clean = tr == tr.upper()                  # live-set of the harness saw no out-of-lifetime operation
                    model_accepts = ml.startswith("accept")
                    want_reads = ",".join(["result"] * NGETS[f["script"]]) or "-"
                    ok = (model_accepts and harness_clean and ("final=Dead:result" in ml) and ml.endswith("reads=" + want_reads)
                          and tr.upper().count("A") == 1)
                    if not ok:
                        if model_accepts == harness_clean or not harness_clean:
                            bad("asynctask-trace", b, args, l + "   [model: %s]" % ml,
                                "slot trace = construct; one assign; one read per get(); destroy — each inside the lifetime "
                                "(a trace the extracted model produces)")
                        else:
                            ctx.broken.append("trace correspondence: harness live-set and extracted lifetime machine disagree on %r (%s)" % (tr, ml))
                ctx.cov["slot_trace_histogram"] = thist

    except SkipStage:
        pass
    except Exception as ex:
        stage_fail("stage [trace validation of the instrumented payload against ]", ex)
    try:
        # ---- TSan (quick too): poll finished() until true, then get() WITHOUT waiting — the flag is the only thing ordering
        # "retValue = fcn()" before "return retValue"; heap-owning result types
        for b in tsan:
            for ty in ("string", "vector"):
                args = ["asynctask", str(ctx.pick(4, 12)), ty, "finget"]
                rc, lines, err = run_mode(b, args, prefix="ht_")
                ctx.count(len(lines))
                if rc != 0:
                    in_at = "AsyncTask.h" in err
                    bad("asynctask-data-race" if in_at else "data-race", b + "(tsan)", args,
                        "ThreadSanitizer (rc=%d): %s%s" % (rc, san_summary(err), "; frames in rkcommon/tasking/AsyncTask.h: " +
                                                            " | ".join(re.findall(r"AsyncTask<[^\n]*?>::(\w+\([^)]*\))[^\n]*AsyncTask\.h:(\d+)", err)[i][0] + ":" +
                                                                       re.findall(r"AsyncTask<[^\n]*?>::(\w+\([^)]*\))[^\n]*AsyncTask\.h:(\d+)", err)[i][1]
                                                                       for i in range(min(3, len(re.findall(r"AsyncTask<[^\n]*?>::(\w+\([^)]*\))[^\n]*AsyncTask\.h:(\d+)", err))))) if in_at else ""),
                        "script: construct AsyncTask<%s>; poll finished() until true; get() — no data race on the result" % ty, err)
                else:
                    ctx.nontriv(("tsan-finget", b, ty))
    except SkipStage:
        pass
    except Exception as ex:
        stage_fail("stage [TSan (quick too): poll finished() until true, then ge]", ex)
    try:
        # ---- thorough: more TSan on the std::thread-based backend
        for b in (tsan if ctx.thorough() else []):
            for args in (["burst", "1000"], ["async", str(areps)], ["asynctask", str(treps), "string"], ["destroy", str(dreps)]):
                rc, lines, err = run_mode(b, args, prefix="ht_")
                if rc != 0:
                    bad("data-race", b + "(tsan)", args, "harness rc=%d: %s" % (rc, san_summary(err)), "no data race", err)

    except SkipStage:
        pass
    except Exception as ex:
        stage_fail("stage [thorough: more TSan on the std::thread-based backend]", ex)
    try:
        # ---- inventory closure
        ctx.cov["inventory"] = inventory(ctx, hist_b, script_hist, traits, set(ctx.cov.get("theorems", [])))
        ctx.cov["inventory_declarations"] = len(ctx.cov["inventory"])
        ctx.cov["asynctask_special_member_traits"] = traits
    except SkipStage:
        pass
    except Exception as ex:
        stage_fail("stage [inventory closure]", ex)
    try:
        # ---- report: one violation per kind, the first concrete case as the failing input
        for kind, items in sorted(found.items()):
            first = items[0]
            backs = sorted({i["backend"] for i in items})
            ctx.violation("%s on backend(s) %s: %s  (required: %s)" % (kind, ",".join(backs), first["observed"][:300], first["required"]),
                          {"kind": kind, "backends": backs, "case": first, "more": items[1:6],
                           "how_to_run": "build harness/C02/harness.cpp for the backend (see lib/vlib.py Ctx.cxx) and run it with harness_args",
                           "model_on_source_facts": model_says})
    except SkipStage:
        pass
    except Exception as ex:
        stage_fail("stage [report: one violation per kind, the first concrete ca]", ex)
    if src_broken and not found:
        ctx.log("source-derived theorems broken but the harness found no failing input; model says: %s" % model_says)

    if skipped:
        ctx.broken.append("scenarios skipped (missing build / wall-clock budget of the run used up): " + "; ".join(skipped[:12]))
    ctx.cov["skipped_scenarios"] = skipped
    ctx.cov["parkburst_workers_not_all_parked"] = parked_short
    ctx.cov["internal_pipe_full_closures_run_inline_by_writer"] = pipe_full_inline
    ctx.cov["wakeup_calls_swept"] = wake_calls
    ctx.cov["ownerthief_iterations"] = owner_iters
    ctx.cov["teardown_cases"] = teardown_cases[0]
    ctx.cov["reinit_with_followups_failing_configurations"] = reinit_fail
    ctx.cov["mode_histogram"] = hist
    ctx.cov["backends"] = BACKENDS
    ctx.cov["burst_sizes"] = bursts
    ctx.cov["result_types"] = TYPES
    ctx.cov["client_scripts"] = sorted(NGETS)
    ctx.rule = ("per backend (TBB, OpenMP, Internal, Debug; ASan+UBSan): schedule() bursts of %s closures owning heap state (exactly-once "
                "after quiescence, caller idle); async() x %d over int/long string/vector/slow-logging type (+ outstanding futures); "
                "chain (k closures scheduled back to back, closure i waits for closure i+1, caller only polls); teardown (internal, T in {1,2,3,8}: bursts with follow-up chains of depth 0..3 immediately followed by re-initialisation or process exit, per-task counters exactly 1; also bursts of 300 > 256 pipe slots before exit); ownerthief (internal: tight loops of AsyncTask construct+get / construct+destroy / schedule+parallel_for(1): owner and thief race for the only queued item); arena (first schedule() of a functor type from inside a small tbb::task_arena, later ones from main must run within 2 s); TSan(OpenMP build): poll finished() then get() on string/vector; wakeup (one schedule() at a time, delay swept 0..100 us around the worker's spin-to-sleep transition, each closure must run within 2 s); parkburst (workers parked, 300/1000 pending closures > pipe size); nested (a scheduled closure schedules a same-type closure and waits in AsyncTask::get / parallel_for); AsyncTask<T> x %d repetitions x 6 client scripts x task durations {0,2,12} ms over 5 result types incl. a "
                "lifetime-instrumented payload whose slot trace is validated by the extracted model; destroy-while-running x %d; "
                "one-thread schedule. non-trivial = a case with a non-trivially-constructible result type or a task outliving "
                "the constructor, or a burst > 1" % (bursts, areps, treps, dreps))
    ctx.sample({"trace_cases": [c[2] for c in trace_cases[:2]]})
    ctx.trusted += [
        "tools/c02facts/gen_facts.py + clang 14 -ast-dump=json: the fact table (member roles by type, statement order) — "
        "validated by the harness observing the behaviour the facts predict",
        "interleaving semantics: std::atomic<bool> operations are single sequentially consistent steps; wait() returns only "
        "when the task's program has ended (task_group::wait / thread::join / WaitforTask)",
        "harness/C02/harness.cpp (g++ -O1, ASan+UBSan), its live-set instrumentation and the oracles in props/C02/check.py",
        "the enkiTS LockLessMultiReadPipe: in C02's scheduler model (Sched.v) it is a bounded bag (a write fails when full -> piece run inline "
        "by the writer; a stored piece is handed to exactly one reader; theorem schedule_internal_burst_exactly_once, contract as a Section "
        "hypothesis in functional form).  That contract is PROVED of the pipe's own micro-step model (coq/C01/Pipe.v, all interleavings) in "
        "relational form by PropertiesPipeBridge.v: pipe_contract_proved / burst_exactly_once_on_pipe / one_piece_delivered_once / "
        "pipe_no_overwrite / pipe_progress (via coq/C02/PipeBridge.v from C01's pipe_handoff_multiset, pipe_writer_never_overwrites and the "
        "no-wrap progress theorem).  The pipe model itself is tied to the source and the real template by the C01 check (instruction tables from "
        "the clang AST, sequential differential, stress); here the 'parkburst' scenario (T in {2,4} threads, all T-1 workers parked, bursts of "
        "300 and 1000 > 256 pending schedule() calls from one thread) exercises the contract on the real pipe through the scheduler, and that "
        "each reader-side claim is ONE AtomicCompareAndSwap is read off the AST (pipe_claims_atomic_src) and exercised by 'ownerthief'",
    ]
    ctx.assumptions += [
        "ORACLES (contract stated as Section hypotheses, measured by the harness): tbb::task_arena::enqueue, tbb::task_group, "
        "detached std::thread, std::packaged_task/std::future",
        "pipe contract: the Section hypothesis `forall w, Permutation (popped w) w` of ProofsSched.v stays for the FUNCTIONAL statements "
        "(schedule_once_internal, schedule_internal_burst_exactly_once); its proved instance is RELATIONAL (PropertiesPipeBridge.v: every reachable, "
        "quiescent, drained state of the pipe model has delivered ~ written).  Two gaps are stated, not closed: (1) the functional form needs, for "
        "every written list, a constructed drained run — pipe_progress gives one solo read at a time (no index wrap), the iteration to an empty "
        "pipe is not proved; (2) Sched.pipe_write refuses iff the bag is full, the real writer refuses whenever the slot at m_WriteIndex is not "
        "FLAG_CAN_WRITE, which can happen below capacity while a reader still copies that slot (add_task_set takes the refusal pattern as a free "
        "parameter and a refused piece runs inline, so exactly-once does not depend on it; the exact 'iff full' holds only for a burst with no "
        "concurrent reader and is measured by 'parkburst', not proved).  The pipe theorems assume sequentially consistent memory (see C01)",
        "the wake-up handshake is modelled as a 2-thread store-buffer litmus (x86-TSO, one buffer slot per thread); that AtomicAdd is a full "
        "barrier and that the fences found in WakeThreads / WaitForTasks are the ones on the publish-then-check paths is read off the AST",
        "'eventually' needs a fair OS scheduler and, on the internal backend, at least one worker thread (1-thread case: known finding)",
        "nested execution of scheduled closures is modelled to depth 1 and checked on 7 shapes only (theorem ..._nested_not_freed_on_stack_instances); "
        "the harness 'nested' scenario exercises it on the real code",
    ]
    if ctx.thorough():
        ctx.coq_thorough_chk(["C02.Properties", "C02.PropertiesSrc", "C02.PropertiesPipeBridge"])
