"""C01/C02 — enkiTS LockLessMultiReadPipe: the tie of coq/C01/Pipe.v to the code of the working tree.

run_pipe(ctx, wrap_cases=True, private_coq=True) does, in its own sub-build dir <ctx.build>/pipe:

 0. Coq: Pipe.v + PipeProofs.v/PropertiesPipe.v + the source-derived instruction tables (pipe_factgen.py ->
    gen/PipeFacts.v, PipeFactsDefs.v, PipeFactsProgs.v, PropertiesPipeFacts.v) built in a PRIVATE project dir
    <pipe build>/coq (symlinks to coq/C01; those files are not in coq/C01/_CoqProject), obligations counted by
    ctx.coq_check(d=...).
 1. sequential differential (Tie B): the extracted machine (ocaml/C01/pipe_driver.ml, mode seq) against the REAL
    template (harness/C01/pipe_harness.cpp, g++ -O1 ASan+UBSan and g++ -O2) on exhaustive short and random long
    operation sequences, k = 1,2,3,8, indices pre-advanced incl. the 2^32 wrap zone; a python oracle on the
    real code's own outputs decides between VIOLATION (concrete input) and broken correspondence.
 2. stress: 1 owner + N readers on the real pipe, exactly-once accounting (a race: may need repeats).
 3. MODEL TEST: exhaustive exploration of all interleavings of the MODEL for small bounds (not a proof, says nothing
    about the C++ code by itself) + self-test of the explorer on Pipe.v's three refuted variants.
 4. if PropertiesPipeFacts.v no longer checks: the explorer / the sequential differential on the source-derived
    tables, to obtain a concrete failing schedule for the report.

KNOWN FINDING (signature C01-pipe-index-wrap): near index wrap-around (m_WriteIndex passing 2^32 -> 0 with items
queued) ReaderTryReadBack spins forever and WriterTryReadFront returns false although items are queued.
"""
import json
import os
import re
import shutil
import sys
import time

import vlib

HERE = os.path.dirname(os.path.abspath(__file__))
WRAP_SIG = "C01-pipe-index-wrap"
M32 = 1 << 32
KS = (1, 2, 3, 8)
COQ_FILES = ["Pipe.v", "PipeProofs.v", "PropertiesPipe.v", "PipeFactsDefs.v", "PipeFactsProgs.v", "PropertiesPipeFacts.v"]
FACT_FILES = ["PipeFactsDefs.v", "PipeFactsProgs.v", "PropertiesPipeFacts.v"]
WRAP_WHAT = ("enki::LockLessMultiReadPipe (rkcommon/tasking/detail/enkiTS/LockLessMultiReadPipe.h): the uint32_t indices are "
             "compared as plain unsigned numbers, so when m_WriteIndex passes 2^32 -> 0 while items are queued "
             "(m_WriteIndex grows by one per item taken by a reader, i.e. after about 2^32 steals from one pipe) (a) ReaderTryReadBack never returns: `readIndexToUse >= writeIndex` is "
             "always true, the search restarts at the stale m_ReadIndex for ever (cSizeLog2=1, indices pre-advanced to 4294967294, "
             "WriterTryWriteFront(1), WriterTryWriteFront(2), ReaderTryReadBack -> 1, ReaderTryReadBack -> spins), and (b) "
             "WriterTryReadFront returns false although items are queued: `0 == frontReadIndex` (same start, write, write, "
             "WriterTryReadFront -> false with 2 items queued). Hand-off safety (a) and the bookkeeping equation (b) of PropertiesPipe.v hold regardless; the no-stranded-item statement (c) is refuted there (pipe_no_stranded_item_refuted, pipe_wrap32_strands_items) and proved for histories without index wrap (pipe_no_stranded_item_nowrap).")


# ====================================================================================== build steps
class _Redirect:
    """temporarily point ctx.build (and optionally ctx.coqdir) somewhere else"""

    def __init__(self, ctx, build=None, coqdir=None):
        self.ctx, self.build, self.coqdir = ctx, build, coqdir

    def __enter__(self):
        self.old = (self.ctx.build, self.ctx.coqdir)
        if self.build:
            self.ctx.build = self.build
        if self.coqdir:
            self.ctx.coqdir = self.coqdir
        return self.ctx

    def __exit__(self, *a):
        self.ctx.build, self.ctx.coqdir = self.old
        return False


def setup_coq(ctx, pdir, log):
    """Private Coq project <pdir>/coq with symlinks to the pipe files of coq/C01 that exist + the generated facts.
    Returns (coq dir, list of present files, facts_generated: bool)."""
    src = os.path.join(ctx.verif, "coq", "C01")
    cdir = os.path.join(pdir, "coq")
    os.makedirs(os.path.join(cdir, "gen"), exist_ok=True)
    for f in os.listdir(cdir):
        fp = os.path.join(cdir, f)
        if os.path.islink(fp):
            os.remove(fp)
    present = []
    for f in COQ_FILES + ["ExtractPipe.v", "ExtractPipeFacts.v"]:
        if os.path.exists(os.path.join(src, f)):
            os.symlink(os.path.join(src, f), os.path.join(cdir, f))
            if f in COQ_FILES:
                present.append(f)
    # the fact table of THIS working tree; never let a stale one stand in
    gen_v = os.path.join(cdir, "gen", "PipeFacts.v")
    facts = False
    if all(f in present for f in FACT_FILES) and os.path.exists(os.path.join(HERE, "pipe_factgen.py")):
        if HERE not in sys.path:
            sys.path.insert(0, HERE)
        try:
            import importlib
            import pipe_factgen
            importlib.reload(pipe_factgen)
            ok, msg = pipe_factgen.generate(ctx.repo, ctx.include_dir(), gen_v + ".new", os.path.join(pdir, "ast"), log=log)
        except Exception as e:      # fail closed
            ok, msg = False, "pipe_factgen raised %s: %s" % (type(e).__name__, e)
        log("pipe fact table: " + msg)
        if ok:
            new = open(gen_v + ".new").read()
            if not os.path.exists(gen_v) or open(gen_v).read() != new:
                os.replace(gen_v + ".new", gen_v)        # (unchanged content keeps its timestamp: no rebuild)
            else:
                os.remove(gen_v + ".new")
            facts = True
        else:
            if os.path.exists(gen_v):
                os.remove(gen_v)
            ctx.broken.append("pipe fact extraction from the clang AST failed: " + msg[-300:])
    else:
        if os.path.exists(gen_v):
            os.remove(gen_v)
        log("pipe fact files not all present (%s): source-derived tables skipped" % ", ".join(f for f in FACT_FILES if f not in present))
    files = [f for f in present if f not in FACT_FILES]
    if all(f in present for f in FACT_FILES):
        files += ["PipeFactsDefs.v", "gen/PipeFacts.v", "PipeFactsProgs.v", "PropertiesPipeFacts.v"]
    cp = "-Q %s Common\n-Q . C01\n%s\n" % (os.path.join(ctx.verif, "coq", "Common"), "\n".join(files))
    cpp = os.path.join(cdir, "_CoqProject")
    if not os.path.exists(cpp) or open(cpp).read() != cp:
        open(cpp, "w").write(cp)
    return cdir, present, facts


def coq_step(ctx, pdir, cdir, present):
    """Build the private project, count the obligations of PropertiesPipe.v / PropertiesPipeFacts.v.
    Returns dict theorem -> bool (empty when there is no statement file yet)."""
    props = tuple(f for f in ("PropertiesPipe.v", "PropertiesPipeFacts.v") if f in present)
    keep = {k: ctx.cov.get(k) for k in ("theorems", "coq_wall_s")}
    keep_attr = {a: getattr(ctx, a, None) for a in ("checker_cmd", "axioms", "coq_log")}
    res = {}
    with _Redirect(ctx, build=pdir):
        if props:
            # vlib's coq_make uses -j<all cores>; be a good neighbour: pre-build with -j4 (coq_check then finds it done)
            ctx.coq_common()
            ctx.coq_make(cdir, timeout=1500, jobs=4)
            res = ctx.coq_check(props, d=cdir)
        else:
            ctx.coq_common()
            ok, out = ctx.coq_make(cdir, timeout=1500, jobs=4)
            if not ok:
                ctx.log("pipe coq build had errors:\n" + out[-2000:])
    ctx.cov["pipe_theorems"] = sorted(res.keys())
    ctx.cov["pipe_coq_wall_s"] = ctx.cov.get("coq_wall_s")
    ctx.cov["pipe_axioms"] = {k: v for k, v in getattr(ctx, "axioms", {}).items() if v} if props else {}
    pipe_cmd = ("coq_makefile/make in %s (private project: Pipe.v PipeProofs.v PropertiesPipe.v PipeFacts*.v gen/PipeFacts.v; coqc 8.16.1 "
                "full .vo build) + Print Assumptions on every theorem of %s" % (cdir, ",".join(props)))
    # merge with what the caller (props/C01/check.py) had recorded for its own project
    if keep["theorems"] is not None:
        ctx.cov["theorems"] = sorted(set(keep["theorems"]) | set(res.keys()))
        ctx.cov["coq_wall_s"] = round((keep["coq_wall_s"] or 0) + (ctx.cov.get("pipe_coq_wall_s") or 0), 1)
    if keep_attr["checker_cmd"]:
        ctx.checker_cmd = keep_attr["checker_cmd"] + " ; " + pipe_cmd
        if keep_attr["axioms"] is not None:
            ax = dict(keep_attr["axioms"]); ax.update(getattr(ctx, "axioms", {})); ctx.axioms = ax
        if keep_attr["coq_log"]:
            ctx.coq_log = keep_attr["coq_log"] + "\n" + getattr(ctx, "coq_log", "")
    elif props:
        ctx.checker_cmd = pipe_cmd
    return res


def extract_driver(ctx, cdir, pdir, extract_v, tag, facts):
    """Same steps as vlib.Ctx.extract, with an own ml dir per variant and the facts prelude line for the driver."""
    bdir = os.path.join(pdir, "ml_" + tag)
    os.makedirs(bdir, exist_ok=True)
    for f in os.listdir(bdir):
        if f.endswith((".ml", ".mli")):
            os.remove(os.path.join(bdir, f))
    shutil.copy(os.path.join(cdir, extract_v), os.path.join(bdir, "DoExtract.v"))
    rc, o = vlib.sh(["coqc"] + vlib.coqproject_args(cdir) + ["DoExtract.v"], cwd=bdir, timeout=600)
    if rc != 0 or not os.path.exists(os.path.join(bdir, "Pipe.ml")):
        ctx.log("pipe extraction (%s) failed:\n%s" % (extract_v, o[-1500:]))
        return None
    drv = os.path.join(bdir, "drv_pipe_driver.ml")
    with open(drv, "w") as f:
        f.write("open Pipe\n(* Coq's String.string is extracted as a type named string: give OCaml's back its name *)\ntype string = Stdlib.String.t\n")
        for s in ("conv_N.ml", "conv_nat.ml"):
            f.write(open(os.path.join(ctx.verif, "ocaml", "snippets", s)).read() + "\n")
        if facts:
            f.write("let facts_table : (method0 -> instr list) option = Some facts_progs\n")
            f.write("let facts_info : (string * bool * bool) list = [(\"WriterTryWriteFront\", facts_progs_ok MWrite, facts_progs_same MWrite); "
                    "(\"ReaderTryReadBack\", facts_progs_ok MReader, facts_progs_same MReader); "
                    "(\"WriterTryReadFront\", facts_progs_ok MFront, facts_progs_same MFront)]\n")
        else:
            f.write("let facts_table : (method0 -> instr list) option = None\n")
            f.write("let facts_info : (string * bool * bool) list = []\n")
        f.write(open(os.path.join(ctx.verif, "ocaml", "C01", "pipe_driver.ml")).read())
    exe = os.path.join(pdir, "pipe_model_" + tag)
    rc, o = vlib.sh(["ocamlfind", "ocamlopt", "-inline", "100", "-w", "-a", "-o", exe, "Pipe.mli", "Pipe.ml", os.path.basename(drv)],
                    cwd=bdir, timeout=600)
    if rc != 0:
        ctx.log("pipe ocaml build (%s) failed:\n%s" % (tag, o[-1500:]))
        return None
    return exe


# ====================================================================================== sequential cases
def number_writes(seq):
    """'w' -> 'w1','w2',... (fresh ids in order of appearance)"""
    out, n = [], 0
    for o in seq:
        if o == "w":
            n += 1
            out.append("w%d" % n)
        else:
            out.append(o)
    return out


def wrap_zone(v, ops):
    """could m_WriteIndex pass 2^32 in this case?"""
    return v + sum(1 for o in ops if o[0] == "w") >= M32


def gen_cases(ctx, wrap_cases):
    rng = ctx.rng("pipe-seq")
    cases = []          # (k, v, ops)
    hist = {"exhaustive": 0, "random": 0}

    def exhaustive(k, n, v):
        def rec(prefix):
            if prefix:
                cases.append((k, v, number_writes(prefix)))
                hist["exhaustive"] += 1
            if len(prefix) < n:
                for o in "wfr":
                    rec(prefix + [o])
        rec([])

    exhaustive(1, 7, 0)
    exhaustive(2, 6, 0)
    exhaustive(1, 5, 1)
    if wrap_cases:
        for v in (M32 - 1, M32 - 2, M32 - 3):
            exhaustive(1, 6 if ctx.thorough() else 5, v)
        exhaustive(2, 5, M32 - 2)
    if ctx.thorough():
        exhaustive(1, 9, 0)
        exhaustive(2, 7, 0)
        exhaustive(3, 6, 0)

    def presets(k):
        s = 1 << k
        ps = [0, 0, 0, 1, s - 1, s, s + 1, (1 << 31) - 2, (1 << 31) - 1, 1 << 31, rng.randrange(1, M32 - 100000)]
        if wrap_cases:
            ps += [M32 - s - 3, M32 - s - 1, M32 - s, M32 - s + 1, M32 - 3, M32 - 2, M32 - 1, M32 - rng.randrange(1, 4 * s + 8)]
        return ps

    def random_case(k):
        s = 1 << k
        style = rng.choice(["mix", "mix", "mix", "burst", "altf", "altr", "fdf", "fullwalk"])
        n = rng.randrange(5, 201)
        ops = []
        if style == "mix":
            pw = rng.choice([0.3, 0.45, 0.55, 0.7, 0.85])
            pf = rng.choice([0.2, 0.5, 0.8])
            for _ in range(n):
                x = rng.random()
                ops.append("w" if x < pw else ("f" if rng.random() < pf else "r"))
        elif style == "burst":
            while len(ops) < n or len(ops) < s + 4:
                ops += ["w"] * (s + rng.randrange(1, 4))                 # more than 2^k consecutive writes
                ops += [rng.choice("fr") for _ in range(rng.randrange(0, s + 3))]
                if len(ops) > 700:
                    break
        elif style == "altf":
            pre = rng.randrange(0, s + 1)
            ops = ["w"] * pre + ["w", "f"] * (n // 2) + ["r"] * rng.randrange(0, 4)
        elif style == "altr":
            pre = rng.randrange(0, s + 1)
            ops = ["w"] * pre + ["w", "r"] * (n // 2) + ["f"] * rng.randrange(0, 4)
        elif style == "fdf":
            for _ in range(rng.randrange(2, 5)):
                ops += ["w"] * (s + rng.randrange(0, 2))
                d = rng.choice("fr")
                ops += [d if rng.random() < 0.8 else ("f" if d == "r" else "r") for _ in range(s + rng.randrange(0, 2))]
                if len(ops) > 1200:
                    break
        else:   # fullwalk: keep the pipe (nearly) full while the indices walk on
            ops = ["w"] * s
            for _ in range(n):
                ops += [rng.choice("rrf"), "w"] + (["w"] if rng.random() < 0.3 else [])
        # sprinkle IsPipeEmpty / Clear
        out = []
        for o in ops:
            out.append(o)
            y = rng.random()
            if y < 0.05:
                out.append("e")
            elif y < 0.06:
                out.append("c")
        return style, out

    nrand = ctx.pick(2000, 26000)
    styles = {}
    for i in range(nrand):
        k = KS[i % 4] if rng.random() < 0.8 else rng.choice((1, 2))
        style, ops = random_case(k)
        v = rng.choice(presets(k))
        cases.append((k, v, number_writes(ops)))
        styles[style] = styles.get(style, 0) + 1
        hist["random"] += 1
    hist["random_styles"] = styles
    return cases, hist


def case_line(i, k, v, ops):
    return "c%d %d %d %s" % (i, k, v, " ".join(ops))


def parse_line(line):
    """-> (tokens, W, RC, RI, flags) or None"""
    m = re.match(r"^(\S+)((?: \S+)*?) \| W=(\d+) RC=(\d+) RI=(\d+) FL=([WRI?]+)(.*)$", line)
    if not m:
        return None
    return m.group(2).split(), int(m.group(3)), int(m.group(4)), int(m.group(5)), m.group(6), m.group(7)


def oracle(k, v, ops, line):
    """Independent property oracle on the REAL code's output line for a sequential case.
    Returns (safety_failures, liveness_failures, stats): lists of strings.  liveness = an operation that should have
    succeeded did not (a read returning false / hanging on a non-empty pipe, a write refused on a non-full pipe): excused
    inside the wrap zone (known finding) only."""
    p = parse_line(line)
    if p is None:
        return ["unparsable output line: %r" % line[:200]], [], {}
    toks, W, RC, RI, fl, rest = p
    size = 1 << k
    queued = []        # ids in the pipe, oldest first
    delivered = set()
    written = set()
    safety, live = [], []
    st = {"full_write_fail": 0, "empty_read": 0, "fifo_ok": 0, "lifo_ok": 0, "order_other": 0}
    hang = False
    for j, t in enumerate(toks):
        if j >= len(ops):
            safety.append("more result tokens than operations")
            break
        o = ops[j]
        if t.endswith("=HANG"):
            hang = True
            live.append("op %d (%s) never returned with %d item(s) queued" % (j, o, len(queued)))
            break
        if o[0] == "w":
            x = int(o[1:])
            if t == "%s=T" % o:
                if len(queued) >= size:
                    safety.append("op %d: write of %d accepted with %d items queued in a pipe of %d slots" % (j, x, len(queued), size))
                queued.append(x); written.add(x)
            elif t == "%s=F" % o:
                if len(queued) < size:
                    # (inside the wrap zone an out-of-order read leaves the target slot occupied: part of the known finding)
                    live.append("op %d: WriterTryWriteFront(%d) refused although only %d of %d slots are occupied" % (j, x, len(queued), size))
                else:
                    st["full_write_fail"] += 1
            else:
                safety.append("op %d: token %r does not answer %r" % (j, t, o))
        elif o in ("f", "r"):
            if t == o + "=F":
                if queued:
                    live.append("op %d: %s returned false with %d item(s) queued" % (j, "WriterTryReadFront" if o == "f" else "ReaderTryReadBack", len(queued)))
                else:
                    st["empty_read"] += 1
            elif t.startswith(o + "=T:"):
                x = int(t[4:])
                if x in delivered:
                    safety.append("op %d: item %d delivered twice" % (j, x))
                elif x not in written:
                    safety.append("op %d: item %d delivered but never written" % (j, x))
                elif x not in queued:
                    safety.append("op %d: item %d delivered although it was dropped by Clear" % (j, x))
                else:
                    if (o == "r" and x == queued[0]):
                        st["fifo_ok"] += 1
                    elif (o == "f" and x == queued[-1]):
                        st["lifo_ok"] += 1
                    else:
                        st["order_other"] += 1
                    queued.remove(x)
                delivered.add(x)
            else:
                safety.append("op %d: token %r does not answer %r" % (j, t, o))
        elif o == "e":
            if t not in ("e=T", "e=F"):
                safety.append("op %d: token %r does not answer e" % (j, t))
            elif (t == "e=T") != (not queued):
                safety.append("op %d: IsPipeEmpty()==%s with %d item(s) queued" % (j, t[2:], len(queued)))
        elif o == "c":
            queued = []
    if not hang:
        if len(toks) != len(ops):
            safety.append("%d result tokens for %d operations" % (len(toks), len(ops)))
        ncr = fl.count("R")
        if len(fl) != size:
            safety.append("flag string has %d letters for %d slots" % (len(fl), size))
        if fl.count("I") or fl.count("?"):
            safety.append("at quiescence a flag is neither CAN_READ nor CAN_WRITE: %s" % fl[:64])
        if (W - RC) % M32 != ncr:
            safety.append("at quiescence (W-RC) mod 2^32 = %d but %d flags are CAN_READ" % ((W - RC) % M32, ncr))
        if ncr != len(queued):
            safety.append("at quiescence %d flags are CAN_READ but %d items are queued (written, not delivered, not cleared)" % (ncr, len(queued)))
    return safety, live, st


# ====================================================================================== the steps
def run_model_seq(ctx, model, lines, progs="plain", timeout=900):
    rc, out, err = vlib.run_lines(ctx, model, ["seq", "progs=" + progs], lines, timeout=timeout)
    if rc != 0 or len(out) != len(lines):
        return None, "model driver rc=%s lines=%d/%d %s" % (rc, len(out), len(lines), err[-300:])
    return out, ""


def split_spin(mline):
    """model line -> (line expected for the prefix, index of the spinning op or None)"""
    m = re.search(r" SPIN@(\d+):\S+", mline)
    if not m:
        return mline, None
    return mline[:m.start()] + mline[m.end():], int(m.group(1))


def seq_differential(ctx, pdir, model, harnesses, wrap_cases, facts_model=None):
    """harnesses: list of (label, exe).  Returns dict with what was found."""
    log = ctx.log
    cases, ghist = gen_cases(ctx, wrap_cases)
    full_lines = [case_line(i, k, v, ops) for i, (k, v, ops) in enumerate(cases)]
    t0 = time.time()
    mfull, msg = run_model_seq(ctx, model, full_lines)
    if mfull is None:
        ctx.broken.append("pipe " + msg)
        return {}
    if any("DRIVER-INCONSISTENT" in l or l.startswith("bad-case") for l in mfull):
        bad = [l for l in mfull if "DRIVER-INCONSISTENT" in l or l.startswith("bad-case")][:3]
        ctx.broken.append("pipe model driver: Pipe.run_seq and the op-by-op evaluation disagree / bad case: %r" % bad)
    tmodel = time.time() - t0
    # cases whose model run spins: only the prefix goes to the real code in the batch
    spin = {}
    tcases = []
    for i, (k, v, ops) in enumerate(cases):
        exp, at = split_spin(mfull[i])
        if at is not None:
            spin[i] = at
            tcases.append((k, v, ops[:at]))
        else:
            tcases.append((k, v, ops))
    tlines = [case_line(i, k, v, ops) for i, (k, v, ops) in enumerate(tcases)]
    t1 = time.time()
    # same contract as vlib.differential (mismatches (i, label, impl line, model line), crashes), but the model is not run a
    # second time: the line expected for a prefix is the model's line without its SPIN marker; the builds run in parallel
    mlines = [split_spin(l)[0] for l in mfull]
    from concurrent.futures import ThreadPoolExecutor
    with ThreadPoolExecutor(max_workers=2) as ex:
        outs = list(ex.map(lambda h: vlib.run_lines(ctx, h[1], ["seq"], tlines, timeout=900), harnesses))
    mism, crashes, skipped, notrun = [], {}, {}, set()
    for (lab, exe), (rc, ilines, ierr) in zip(harnesses, outs):
        if rc != 0:
            crashes[lab] = (rc, ierr[-3000:], len(ilines))
        for i in range(len(tlines)):
            il = ilines[i] if i < len(ilines) else "<no output: harness died>"
            if " SKIPPED-after-" in il:
                skipped[lab] = skipped.get(lab, 0) + 1       # the harness gave up after 25 hanging cases
                notrun.add((lab, i))
                continue
            if il != mlines[i]:
                mism.append((i, lab, il, mlines[i]))
    tdiff = time.time() - t1
    nops = sum(len(c[2]) for c in tcases)
    ctx.count(nops * len(harnesses))
    for lab, (rc, err, n) in crashes.items():
        m = re.findall(r"SUMMARY: [^\n]*|runtime error: [^\n]*", err)
        ctx.violation("pipe harness (%s build) crashed / sanitizer report on the sequential cases after %d lines: rc=%s %s"
                      % (lab, n, rc, (m[0] if m else err[-300:])[:400]),
                      {"part": "pipe-seq", "build": lab, "rc": rc, "stderr_tail": err[-2000:],
                       "first_unanswered_case": tlines[n] if n < len(tlines) else None}, found_input=True)
    # ---- coverage + oracle on the real code's outputs (primary harness; a matching line IS the model's line)
    primary = harnesses[0][0]
    real = list(mlines)
    for (i, lab, il, ml) in mism:
        if lab == primary:
            real[i] = il
    for (lab, i) in notrun:
        if lab == primary:
            real[i] = None
    cov = {"cases": len(cases), "ops": nops, "k": {}, "ops_hist": {}, "wrap_zone_cases": 0, "spin_cases": len(spin),
           "full_write_fail": 0, "empty_read": 0, "fifo_ok": 0, "lifo_ok": 0, "order_other": 0, "presets": {},
           "model_wall_s": round(tmodel, 1), "diff_wall_s": round(tdiff, 1)}
    cov.update(ghist)
    oracle_bad = []       # (i, safety list, live list)
    wrap_live = []        # liveness failures inside the wrap zone
    mism_idx = {}
    for (i, lab, il, ml) in mism:
        mism_idx.setdefault(i, []).append((lab, il, ml))
    for i, (k, v, ops) in enumerate(tcases):
        cov["k"][k] = cov["k"].get(k, 0) + 1
        for o in ops:
            cov["ops_hist"][o[0]] = cov["ops_hist"].get(o[0], 0) + 1
        zone = wrap_zone(v, cases[i][2])
        pk = "0" if v == 0 else ("wrap-zone" if zone else ("2^31.." if v >= (1 << 31) - 2 and v <= (1 << 31) else "other"))
        cov["presets"][pk] = cov["presets"].get(pk, 0) + 1
        if zone:
            cov["wrap_zone_cases"] += 1
        if real[i] is None:
            continue
        safety, live, st = oracle(k, v, ops, real[i])
        for kk in ("full_write_fail", "empty_read", "fifo_ok", "lifo_ok", "order_other"):
            cov[kk] += st.get(kk, 0)
        if safety or (live and not zone):
            oracle_bad.append((i, safety, live))
        elif live and zone:
            wrap_live.append((i, live))
        # non-trivial: at least one successful write AND one successful read/pop, or a refused write on a full pipe
        if (st.get("fifo_ok", 0) + st.get("lifo_ok", 0) + st.get("order_other", 0) > 0) or st.get("full_write_fail", 0) > 0:
            ctx.nontriv(("pipe-seq", k, v, " ".join(ops)))
    ctx.cov["pipe_seq"] = cov
    log("pipe seq: %d cases / %d ops on %s (model %.1fs, differential %.1fs): %d mismatching lines, %d oracle failures, "
        "%d wrap-zone cases (%d with the model spinning, %d with a stranded read)"
        % (len(cases), nops, "+".join(l for l, _ in harnesses), tmodel, tdiff, len(mism), len(oracle_bad), cov["wrap_zone_cases"],
           len(spin), len(wrap_live)))

    hx = dict(harnesses)

    def one_case(lab, k, v, ops, progs="plain", mdl=None):
        """-> (model line for the prefix, real line) for a single case, spin-aware"""
        ln = case_line(0, k, v, ops)
        ml, _ = run_model_seq(ctx, mdl or model, [ln], progs=progs, timeout=60)
        if ml is None:
            return None, None
        exp, at = split_spin(ml[0])
        tl = case_line(0, k, v, ops[:at] if at is not None else ops)
        rc, out, err = vlib.run_lines(ctx, hx[lab], ["seq"], [tl], timeout=60)
        return exp, (out[0] if out else "<no output rc=%s>" % rc)

    # ---- model-vs-code differences: shrink, then the oracle decides
    reported = set()
    if skipped:
        log("pipe seq: harness stopped after 25 hanging cases, cases not run: %s" % skipped)
    # shortest mismatching cases first; at most 3 reports, distinct after shrinking
    for i in sorted(mism_idx, key=lambda i: (len(tcases[i][2]), i))[:6]:
        if len(reported) >= 3:
            break
        lab, il, ml = mism_idx[i][0]
        k, v, ops = tcases[i]

        def still(cand):
            e, r = one_case(lab, k, v, cand)
            return e is not None and e != r
        small = vlib.shrink_list(ops, still, max_rounds=120) if len(ops) > 1 else ops
        e, r = one_case(lab, k, v, small)
        if e is None or e == r:
            small = ops
            e, r = one_case(lab, k, v, small)
        sig = (k, v if v < 4 or v >= M32 - 4 * (1 << k) - 8 else "mid", " ".join(re.sub(r"\d+", "", o) for o in small))
        if sig in reported:
            continue
        reported.add(sig)
        safety, live, _ = oracle(k, v, small, r or "")
        zone = wrap_zone(v, small)
        replay = {"part": "pipe-seq", "build": lab, "cSizeLog2": k, "indices_preset_to": v, "ops": small,
                  "case_line": case_line(0, k, v, small), "real_code": r, "model": e,
                  "how_to_run": "echo '<case_line>' | build/<..>/pipe/%s seq   (harness/C01/pipe_harness.cpp built against the tree)" % os.path.basename(hx[lab]),
                  "mismatching_lines_total": len(mism), "unshrunk_case": tlines[i]}
        if facts_model:
            fe, fr = one_case(lab, k, v, small, progs="facts", mdl=facts_model)
            replay["model_on_source_derived_tables"] = fe
            replay["source_derived_tables_agree_with_real_code"] = (fe == fr)
        fails = safety + ([] if zone else live)
        if fails:
            ctx.violation("LockLessMultiReadPipe<%d,uint32_t> (indices pre-advanced to %d), operations %s: %s; real code printed %r, "
                          "the model %r" % (k, v, " ".join(small), "; ".join(fails[:3]), r, e), replay, found_input=True)
        else:
            ctx.broken.append("pipe correspondence: model and real code (%s build) differ on k=%d preset=%d ops=[%s]: code %r model %r "
                              "(the python oracle on the code's output passes)" % (lab, k, v, " ".join(small), r, e))
            ctx.sample({"pipe_seq_difference": replay})
    # ---- oracle failures where model and code AGREE (the model itself violates the property there)
    for (i, safety, live) in oracle_bad[:3]:
        if i in mism_idx:
            continue
        k, v, ops = tcases[i]
        ctx.violation("LockLessMultiReadPipe<%d,uint32_t> (indices pre-advanced to %d): %s  [model and code agree on this case: %s]"
                      % (k, v, "; ".join((safety + live)[:3]), real[i][:300]),
                      {"part": "pipe-seq", "cSizeLog2": k, "indices_preset_to": v, "ops": ops, "case_line": tlines[i], "real_code": real[i],
                       "oracle": safety + live}, found_input=True)
    ctx.sample({"pipe_seq_case": tlines[min(len(tlines) - 1, 4000)][:200], "line": (real[min(len(tlines) - 1, 4000)] or "")[:200]})
    return {"cases": cases, "spin": spin, "wrap_live": wrap_live, "mism": mism, "tcases": tcases, "real": real, "one_case": one_case}


def wrap_confirm(ctx, pdir, model, harnesses, sd):
    """Replay full spinning cases on the real harness: (a) a handful in the batch with the harness' own CPU-time watchdog,
    (b) the two canonical ones one by one WITHOUT watchdog under a 2 s timeout (the harness appends its progress to a file).
    Reports the known finding when confirmed, a correspondence break when the code does not hang where the model spins."""
    rng = ctx.rng("pipe-wrap")
    lab, exe = harnesses[-1]            # the un-instrumented -O2 build
    cases, spin = sd.get("cases", []), sd.get("spin", {})
    evidence = []
    differ = []
    # (a)
    near = lambda k, v: 0 < M32 - v <= (1 << k)          # indices pre-advanced to within one pipe size of 2^32
    idx = sorted(i for i in spin if near(cases[i][0], cases[i][1]))
    rng.shuffle(idx)
    idx = sorted(idx[:ctx.pick(8, 40)], key=lambda i: len(cases[i][2]))
    if idx:
        lines = [case_line(i, cases[i][0], cases[i][1], cases[i][2][:spin[i] + 1]) for i in idx]
        out = []
        for c in range(0, len(lines), 20):      # (the harness stops running cases after 25 hanging ones: batches of 20)
            rc, o, err = vlib.run_lines(ctx, exe, ["seq"], lines[c:c + 20], timeout=80)
            out += (o + ["<no output>"] * 20)[:len(lines[c:c + 20])]
        ctx.count(sum(spin[i] + 1 for i in idx))
        for n, i in enumerate(idx):
            k, v, ops = cases[i]
            got = out[n] if n < len(out) else "<no output>"
            p = parse_line(got)
            if p and len(p[0]) == spin[i] + 1 and p[0][-1].endswith("=HANG"):
                evidence.append({"cSizeLog2": k, "indices_preset_to": v, "ops": ops[:spin[i] + 1], "real_code": got,
                                 "observed": "operation %d (%s) burnt 300 ms of CPU without returning" % (spin[i], ops[spin[i]])})
            else:
                differ.append((k, v, ops[:spin[i] + 1], got, "model: op %d spins" % spin[i]))
    # (b)
    canon = [(1, M32 - 2, ["w1", "w2", "r", "r"], 3), (1, M32 - 2, ["w1", "w2", "f"], None)]
    for (k, v, ops, hang_at) in canon:
        ml, _ = run_model_seq(ctx, model, [case_line(0, k, v, ops)], timeout=60)
        exp, at = split_spin(ml[0]) if ml else (None, None)
        if at != hang_at:
            ctx.broken.append("pipe wrap: the model no longer %s on k=1 preset=2^32-2 ops=%s (model line %r)"
                              % ("spins at op %s" % hang_at if hang_at is not None else "returns", " ".join(ops), ml and ml[0]))
            continue
        prog = os.path.join(pdir, "progress_%d.txt" % (0 if hang_at is None else 1))
        if os.path.exists(prog):
            os.remove(prog)
        rc, out, err = ctx.run_exe(exe, ["seq", "nowatchdog", prog], stdin=case_line(0, k, v, ops) + "\n", timeout=2)
        ctx.count(len(ops))
        plines = open(prog).read().split("\n") if os.path.exists(prog) else []
        plines = [l for l in plines if l]
        if hang_at is not None:
            last = plines[-1] if plines else ""
            if rc == 124 and last.endswith("@" + ops[hang_at]) and len(last.split()) == 1 + hang_at + 1:
                evidence.append({"cSizeLog2": k, "indices_preset_to": v, "ops": ops, "progress_before_kill": plines,
                                 "observed": "ReaderTryReadBack (operation %d) did not return within 2 s (process killed); model: spins" % hang_at})
            else:
                differ.append((k, v, ops, "rc=%s progress=%r" % (rc, plines[-2:]), "model: op %d spins" % hang_at))
        else:
            got = plines[-1] if plines else (out.strip() or "<no output rc=%s>" % rc)
            if got == exp:
                safety, live, _ = oracle(k, v, ops, got)
                if live and not safety:
                    evidence.append({"cSizeLog2": k, "indices_preset_to": v, "ops": ops, "real_code": got, "observed": live[0]})
                elif safety:
                    differ.append((k, v, ops, got, "oracle: " + "; ".join(safety)))
                else:
                    differ.append((k, v, ops, got, "expected WriterTryReadFront to return false with 2 items queued"))
            else:
                differ.append((k, v, ops, got, "model: %s" % exp))
    for (i, live) in [x for x in sd.get("wrap_live", []) if near(sd["tcases"][x[0]][0], sd["tcases"][x[0]][1])][:3]:
        k, v, ops = sd["tcases"][i]
        evidence.append({"cSizeLog2": k, "indices_preset_to": v, "ops": ops, "real_code": sd["real"][i], "observed": live[0]})
    ctx.cov["pipe_wrap"] = {"spin_cases_replayed_on_real_code": len(idx), "confirmed": len(evidence), "differences": len(differ),
                            "stranded_reads_in_wrap_zone": len(sd.get("wrap_live", []))}
    ctx.log("pipe wrap zone: %d cases confirmed on the real code (hang / stranded read), %d differences" % (len(evidence), len(differ)))
    for (k, v, ops, got, why) in differ[:3]:
        ctx.broken.append("pipe correspondence at index wrap: k=%d preset=%d ops=[%s]: real code %r, %s" % (k, v, " ".join(ops), got, why))
    if evidence:
        ev = sorted(evidence, key=lambda e: len(e["ops"]))
        ctx.violation(WRAP_WHAT + "  Concrete: cSizeLog2=%d, indices %d, ops %s: %s" % (ev[0]["cSizeLog2"], ev[0]["indices_preset_to"],
                                                                                       " ".join(ev[0]["ops"]), ev[0]["observed"]),
                      {"part": "pipe-wrap", "cases": ev[:8],
                       "how_to_run": "echo 'c0 <k> <preset> <ops>' | timeout 2 <pipe build>/%s seq nowatchdog /tmp/progress.txt" % os.path.basename(exe)},
                      found_input=True, signature=WRAP_SIG)
    return evidence


def stress(ctx, harnesses):
    """harnesses: dict build label -> exe.  Quick tier: about 12 runs, < 25 s on <= 4 cores."""
    rng = ctx.rng("pipe-stress")
    items_o2 = ctx.pick(400000, 3000000)
    items_as = ctx.pick(250000, 1500000)
    plan = []
    if ctx.thorough():
        for k in KS:
            for r in (1, 2, 3, 5, 7):
                plan.append(("O2", k, r, items_o2))
                if r <= 3:
                    plan.append(("asan", k, r, items_as))
    else:
        plan = [("O2", 1, 1, items_o2), ("O2", 1, 2, items_o2), ("O2", 1, 3, items_o2), ("O2", 2, 2, items_o2), ("O2", 2, 3, items_o2),
                ("O2", 3, 3, items_o2), ("O2", 8, 1, items_o2), ("O2", 8, 3, items_o2),
                ("asan", 1, 2, items_as), ("asan", 1, 3, items_as), ("asan", 2, 3, items_as), ("asan", 8, 2, items_as)]
    hist, fails, share = {}, [], []
    t0 = time.time()
    for n, (lab, k, r, items) in enumerate(plan):
        seed = rng.randrange(1, 1 << 30)
        # pre-advanced indices in every third run, OUTSIDE the wrap zone
        preset = [0, 0, (1 << 31) - 1000][n % 3]
        args = ["stress", str(k), str(r), str(items), str(seed), str(preset)]
        rc, out, err = ctx.run_exe(harnesses[lab], args, timeout=90)
        line = (out.strip().split("\n") or [""])[-1]
        hist["%s k=%d readers=%d" % (lab, k, r)] = line[:60]
        if rc == 0 and line.startswith("OK"):
            ctx.count(items)
            m = re.search(r"by=([\d:]+)", line)
            by = [int(x) for x in m.group(1).split(":")] if m else [0]
            rs = sum(by[1:]) / float(max(1, sum(by)))
            share.append(round(rs, 3))
            if rs > 0.02:        # non-trivial: the reader threads took a real share of the deliveries (there was concurrency)
                ctx.nontriv(("pipe-stress", lab, k, r, preset))
        else:
            san = re.findall(r"SUMMARY: [^\n]*|runtime error: [^\n]*", err)
            fails.append({"build": lab, "harness_args": " ".join(args), "rc": rc, "observed": line or "<no output>",
                          "sanitizer": san[:2], "stderr_tail": err[-1200:]})
            if len(fails) >= 2:
                break
    ctx.cov["pipe_stress"] = {"runs": hist, "reader_share_of_deliveries": share, "wall_s": round(time.time() - t0, 1)}
    ctx.log("pipe stress: %d runs in %.1fs, %d FAIL; reader share of deliveries %s" % (len(hist), time.time() - t0, len(fails), share))
    if fails:
        f = fails[0]
        ctx.violation("LockLessMultiReadPipe stress (1 owner + readers on the real pipe, g++ %s): %s   [a RACE: the replay is the command "
                      "line + seed, it may need repeats]" % ("-O2" if f["build"] == "O2" else "-O1 ASan+UBSan", f["observed"][:400]),
                      {"part": "pipe-stress", "case": f, "more": fails[1:],
                       "required": "every accepted id delivered exactly once, payload intact, nothing else delivered; at quiescence W-RC == #CAN_READ == 0",
                       "how_to_run": "<pipe build>/ph_%s %s" % (f["build"].lower(), f["harness_args"])}, found_input=True)
    return fails


def parse_explore(out):
    out = out.strip().split("\n")[-1] if out.strip() else ""
    if out.startswith("EXPLORED"):
        m = re.search(r"states=(\d+) quiescent=(\d+)", out)
        return ("ok" if out.endswith(" ok") else "truncated", int(m.group(1)), out)
    if out.startswith("COUNTEREXAMPLE"):
        m = re.search(r"^COUNTEREXAMPLE (\S+) states=(\d+)", out)
        return (m.group(1), int(m.group(2)), out)
    return ("error", 0, out)


WRAP_KINDS = ("front-fails-on-nonempty-pipe", "read-spins-on-nonempty-pipe", "read-fails-on-nonempty-pipe", "front-spins-on-nonempty-pipe")


def explore(ctx, model, wrap_cases):
    """MODEL TEST: exhaustive interleavings of the Coq model for small bounds."""
    res = {}
    t0 = time.time()

    def run(args, timeout=1200):
        rc, out, err = ctx.run_exe(model, ["explore"] + args, timeout=timeout)
        kind, n, line = parse_explore(out)
        if rc != 0:
            kind = "error"
        res[" ".join(args)] = (kind, n)
        ctx.log("pipe MODEL TEST explore %s -> %s" % (" ".join(args), line[:260] + ("..." if len(line) > 260 else "")))
        return kind, n, line

    scopes = [["1", "32", "2", "3", "3"]]
    if ctx.thorough():
        scopes += [["1", "32", "2", "4", "4"], ["2", "32", "2", "3", "3"], ["1", "32", "3", "2", "2"], ["1", "32", "2", "3", "3", "preset=2147483647"]]
    for a in scopes:
        kind, n, line = run(a)
        ctx.count(n)
        if kind == "ok":
            ctx.nontriv(("pipe-explore", " ".join(a)))
        elif kind == "truncated":
            ctx.log("pipe explore truncated (state cap) for " + " ".join(a))
        else:
            ctx.violation("MODEL TEST: the exploration of the Coq model of LockLessMultiReadPipe (Pipe.v, all interleavings, %s) found "
                          "a counterexample: %s" % (" ".join(a), line[:300]),
                          {"part": "pipe-explore", "args": a, "result": line,
                           "how_to_run": "<pipe build>/pipe_model_plain explore %s ; replay <k> <w> <readers> schedule=..." % " ".join(a)},
                          found_input=True)
    # self-test of the explorer: Pipe.v's variants that are NOT the code must be refuted
    for p in ("cts_front", "cts_reader", "fast_front"):
        kind, n, line = run(["1", "32", "2", "3", "3", "progs=" + p])
        if kind != "duplicate-delivery":
            ctx.broken.append("pipe explorer self-test: variant %s not refuted (%s)" % (p, line[:200]))
    # tiny index width: the wrap IS reached; the stranding counterexample is expected (known finding)
    if wrap_cases:
        wrapped = []
        for a in (["1", "3", "2", "3", "3", "preset=6"], ["1", "2", "1", "6", "4"]):
            kind, n, line = run(a)
            if kind.startswith(WRAP_KINDS):
                wrapped.append({"args": a, "result": line})
            else:
                ctx.broken.append("pipe explorer: expected the index-wrap stranding counterexample for %s, got %s" % (" ".join(a), line[:200]))
        # expected (it is what pipe_no_stranded_item_refuted proves for a 3-bit index); recorded, NOT reported: only failures of the
        # real code with indices pre-advanced to within one pipe size of 2^32 are attributed to the known finding (wrap_confirm)
        ctx.cov["pipe_explore_tiny_index_width_stranding_expected"] = wrapped
    ctx.cov["pipe_explore_MODEL_TEST"] = {k: list(v) for k, v in res.items()}
    ctx.cov["pipe_explore_wall_s"] = round(time.time() - t0, 1)
    return res


def facts_followup(ctx, pdir, facts_model, harnesses, sd, first_bad=None):
    """PropertiesPipeFacts.v did not check: the source-derived tables differ from Pipe.v's.  Look for a concrete
    failing schedule of the machine running the SOURCE-DERIVED tables, and compare them with the real code."""
    rc, out, err = ctx.run_exe(facts_model, ["factsinfo"], timeout=60)
    info = [l for l in out.split("\n") if l.startswith("FACTS ")]
    ctx.log("pipe source-derived tables: " + " | ".join(info))
    ctx.cov["pipe_facts_info"] = info
    if any("compiled=false" in l for l in info):
        ctx.log("a method of the working tree does not translate to an instruction table: no exploration of the source-derived tables")
        return None
    found = None
    for a in (["1", "32", "2", "3", "3", "facts"], ["2", "32", "2", "3", "3", "facts"]):
        rc, out, err = ctx.run_exe(facts_model, ["explore"] + a + ["maxstates=%d" % ctx.pick(1500000, 8000000)], timeout=1200)
        kind, n, line = parse_explore(out)
        ctx.log("pipe MODEL TEST explore (source-derived tables) %s -> %s" % (" ".join(a), line[:300]))
        ctx.count(n)
        if kind == "ok":
            ctx.log("  (no counterexample within this bound: under sequential consistency the changed tables pass every check of the explorer)")
        if kind not in ("ok", "truncated", "error"):
            found = {"args": a, "kind": kind, "result": line}
            break
    # sequential: do the source-derived tables describe the real code?
    seq_note = None
    if sd.get("tcases"):
        tc = sd["tcases"]
        pick = [i for i in range(0, len(tc), max(1, len(tc) // 1500)) if sd["real"][i] is not None]
        lines = [case_line(i, *tc[i]) for i in pick]
        fl, msg = run_model_seq(ctx, facts_model, lines, progs="facts")
        if fl:
            agree = sum(1 for n, i in enumerate(pick) if split_spin(fl[n])[0] == sd["real"][i])
            seq_note = "%d of %d sequential cases: machine on the source-derived tables == real code" % (agree, len(pick))
            ctx.log("pipe: " + seq_note)
            ctx.cov["pipe_facts_seq_agreement"] = seq_note
    if found:
        m = re.search(r"schedule=(\S+)", found["result"])
        ctx.violation("LockLessMultiReadPipe of the working tree, translated to the instruction tables of the Coq machine "
                      "(pipe_factgen.py + PipeFactsDefs.compile; they no longer equal Pipe.v's: first failing obligation %s): the exhaustive "
                      "interleaving exploration finds a %s (k=%s, %s readers, <= %s operations per thread). %s"
                      % (first_bad or "?", found["kind"], found["args"][0], found["args"][2], found["args"][3], seq_note or ""),
                      {"part": "pipe-explore-facts", "kind": found["kind"], "explore_args": found["args"],
                       "schedule": m.group(1).split(",") if m else None,
                       "schedule_format": "t:w<x> / t:f / t:r = thread t begins WriterTryWriteFront(x) / WriterTryReadFront / ReaderTryReadBack; "
                                          "t:- = thread t executes its next micro-instruction; thread 0 = owner",
                       "how_to_run": "<pipe build>/pipe_model_facts replay %s %s %s progs=facts schedule=<...>" % tuple(found["args"][:3]),
                       "note": "a schedule of the MODEL running the tables derived from the working tree's source (sequentially consistent "
                               "memory); the stress part shows whether the real code fails the same way"}, found_input=True)
    return found


# ====================================================================================== integration with props/C01/check.py
def regenerate_facts(ctx, log=None):
    """coq/C01/gen/PipeFacts.v from the clang AST of the working tree (rewritten only when the text changes; a failed
    extraction removes the file so that a stale table can never stand in: PropertiesPipeFacts.v then does not build)."""
    log = log or ctx.log
    gen_v = os.path.join(ctx.verif, "coq", "C01", "gen", "PipeFacts.v")
    os.makedirs(os.path.dirname(gen_v), exist_ok=True)
    if HERE not in sys.path:
        sys.path.insert(0, HERE)
    try:
        import importlib
        import pipe_factgen
        importlib.reload(pipe_factgen)
        ok, msg = pipe_factgen.generate(ctx.repo, ctx.include_dir(), gen_v + ".new", os.path.join(ctx.build, "pipe", "ast"), log=log)
    except Exception as e:      # fail closed
        ok, msg = False, "pipe_factgen raised %s: %s" % (type(e).__name__, e)
    log("pipe fact table: " + msg)
    if ok:
        new = open(gen_v + ".new").read()
        if not os.path.exists(gen_v) or open(gen_v).read() != new:
            os.replace(gen_v + ".new", gen_v)
        else:
            os.remove(gen_v + ".new")
        ctx.cov["pipe_facts_regenerated"] = {"file": "coq/C01/gen/PipeFacts.v", "bytes": len(new), "unrecognised_nodes": new.count("Unknown \"")}
    else:
        if os.path.exists(gen_v):
            os.remove(gen_v)
        ctx.broken.append("pipe fact extraction from the clang AST failed: " + msg[-300:])
    return ok


def first_failing_fact(ctx, coqdir=None):
    """name the obligation of PropertiesPipeFacts.v (or the fact file) at which coqc stopped"""
    log = getattr(ctx, "coq_log", "") or ""
    coqdir = coqdir or ctx.coqdir
    for fn in ("gen/PipeFacts.v", "PipeFactsProgs.v", "PropertiesPipeFacts.v"):
        m = re.search(r'File "(?:\./)?%s", line (\d+)[^\n]*\n((?:.*\n){0,12})' % re.escape(fn), log)
        if m:
            line = int(m.group(1)); name = "?"
            try:
                for k, l in enumerate(open(os.path.join(coqdir, fn)).read().split("\n"), 1):
                    mm = re.match(r"\s*(?:Lemma|Theorem|Example|Definition)\s+([A-Za-z_][\w']*)", l)
                    if mm and k <= line:
                        name = mm.group(1)
            except Exception:
                pass
            err = re.search(r"Error:[^\n]*(?:\n[^\n]+){0,2}", m.group(2))
            return "%s (%s line %d)%s" % (name, fn, line, ": " + " ".join(err.group(0).split())[:200] if err else "")
    return None


class PipeCtx:
    """A recording stand-in for vlib.Ctx so that run_pipe can run in a thread beside the rest of the C01 check: reads are
    delegated, every piece of bookkeeping (broken, violations, coverage, counters, trusted, assumptions) is kept here
    and merged into the real ctx by merge(), in the caller's thread, at the end."""

    def __init__(self, ctx):
        self._ctx = ctx
        self.broken, self.trusted, self.assumptions, self.samples = [], [], [], []
        self.cov, self.rule, self.evaluations, self.nontrivial = {}, "", 0, set()
        self.deferred = []
        self.coq_log = getattr(ctx, "coq_log", "")

    def __getattr__(self, name):
        return getattr(self._ctx, name)

    def count(self, n=1):
        self.evaluations += n

    def nontriv(self, key):
        import hashlib, json
        if not isinstance(key, str):
            key = json.dumps(key, sort_keys=True, default=str)
        self.nontrivial.add(hashlib.md5(key.encode()).hexdigest())

    def sample(self, s, limit=3):
        if len(self.samples) < limit:
            self.samples.append(s)

    def violation(self, what, replay, found_input=True, signature=None):
        self.deferred.append((what, replay, found_input, signature))
        self._ctx.log("pipe: %s recorded: %s" % ("known-finding candidate" if signature else "VIOLATION", what[:300]))

    def cxx(self, **kw):
        n = len(self._ctx.broken)
        exe = self._ctx.cxx(**kw)
        if exe is None:          # vlib recorded it in the real ctx: fine (list.append is atomic)
            pass
        return exe

    def cxx_many(self, jobs):
        from concurrent.futures import ThreadPoolExecutor
        with ThreadPoolExecutor(max_workers=min(len(jobs), 2)) as ex:
            return list(ex.map(lambda kw: self._ctx.cxx(**kw), jobs))

    def merge(self):
        """in the thread that owns the real ctx"""
        ctx = self._ctx
        ctx.broken += self.broken
        ctx.trusted += self.trusted
        ctx.assumptions += self.assumptions
        ctx.cov.update(self.cov)
        ctx.evaluations += self.evaluations
        ctx.nontrivial |= self.nontrivial
        for smp in self.samples:
            ctx.sample(smp, limit=8)
        if self.rule:
            ctx.rule = (ctx.rule + " | " + self.rule) if ctx.rule else self.rule
        tier = ctx.tier
        for (what, replay, found_input, signature) in self.deferred:
            try:
                ctx.tier = "pipe-" + tier          # replay file build/replays/C01-pipe-<tier>-<n>.json
                ctx.violation(what, dict(replay, tier=tier), found_input=found_input, signature=signature)
            finally:
                ctx.tier = tier


# ====================================================================================== entry point
def run_pipe(ctx, wrap_cases=True, private_coq=True, do_stress=True, do_explore=True, res=None):
    """private_coq=True: own Coq project under <build>/pipe/coq (standalone driver pipe_main.py).
    private_coq=False: the pipe files are part of coq/C01/_CoqProject; `res` is the result of the caller's
    ctx.coq_check((..., "PropertiesPipe.v", "PropertiesPipeFacts.v")) (theorem -> bool); nothing here touches ctx.build/ctx.coqdir,
    so it may run in a thread with a PipeCtx."""
    log = ctx.log
    pdir = os.path.join(ctx.build, "pipe")
    os.makedirs(pdir, exist_ok=True)
    t0 = time.time()
    # ---- 0. Coq
    if private_coq:
        cdir, present, facts_ok = setup_coq(ctx, pdir, log)
        res = coq_step(ctx, pdir, cdir, present)
    else:
        cdir = ctx.coqdir
        present = [f for f in COQ_FILES if os.path.exists(os.path.join(cdir, f))]
        facts_ok = os.path.exists(os.path.join(cdir, "gen", "PipeFacts.v"))
        res = dict(res or {})
    facts_thms = vlib.theorem_names(open(os.path.join(cdir, "PropertiesPipeFacts.v")).read()) if "PropertiesPipeFacts.v" in present else []
    facts_broken = [n for n in facts_thms if not res.get(n, False)]
    first_bad = first_failing_fact(ctx, cdir) if facts_broken else None
    if facts_broken:
        log("pipe: the source-derived tables / facts no longer check; coqc stopped at: %s" % (first_bad or "?"))
        ctx.cov["pipe_facts_first_failing_obligation"] = first_bad
    pipe_names = facts_thms + (vlib.theorem_names(open(os.path.join(cdir, "PropertiesPipe.v")).read()) if "PropertiesPipe.v" in present else [])
    log("pipe coq: %d obligations, %d broken%s (%.1fs)" % (len(pipe_names), sum(1 for n in pipe_names if not res.get(n, False)),
                                                          "; source-derived tables DIFFER / do not check: " + ",".join(facts_broken[:6]) if facts_broken else "",
                                                          time.time() - t0))
    # ---- extraction + harness builds
    t1 = time.time()
    model = extract_driver(ctx, cdir, pdir, "ExtractPipe.v", "plain", False)
    if model is None:
        ctx.broken.append("pipe extraction / ocaml driver build (ExtractPipe.v, pipe_driver.ml)")
        return
    facts_model = None
    if facts_ok and "PipeFactsProgs.v" in present and os.path.exists(os.path.join(cdir, "PipeFactsProgs.vo")):
        facts_model = extract_driver(ctx, cdir, pdir, "ExtractPipeFacts.v", "facts", True)
        if facts_model is None:
            log("the driver with the source-derived tables could not be built")
    ctx.trusted.append("Extraction to OCaml with ExtrOcamlBasic only; Z/N/positive/nat stay Coq inductives; OCaml 4.13.1 ocamlopt; driver "
                       "ocaml/C01/pipe_driver.ml (state closures re-tabulated over the 2^k slots after every operation)")
    # (absolute `out` paths: ctx.build is not redirected, so this is safe beside the caller's own builds)
    exes = ctx.cxx_many([dict(sources=["pipe_harness.cpp"], out=os.path.join(pdir, "ph_asan"), sanitize="asan", opt="-O1"),
                         dict(sources=["pipe_harness.cpp"], out=os.path.join(pdir, "ph_o2"), sanitize=None, opt="-O2")])
    if any(e is None for e in exes):
        return
    hs = [("asan", exes[0]), ("O2", exes[1])]
    log("pipe builds: model%s + 2 harnesses in %.1fs" % (" (+facts)" if facts_model else "", time.time() - t1))
    # ---- 1. sequential differential
    sd = seq_differential(ctx, pdir, model, hs, wrap_cases, facts_model=facts_model if facts_broken else None)
    if wrap_cases and sd:
        wrap_confirm(ctx, pdir, model, hs, sd)
    # ---- 2. stress
    if do_stress:
        stress(ctx, dict(hs))
    # ---- 3. model exploration
    if do_explore:
        explore(ctx, model, wrap_cases)
    # ---- 4. the source-derived tables differ: concrete schedule
    if facts_broken and facts_model:
        facts_followup(ctx, pdir, facts_model, hs, sd or {}, first_bad)
    elif facts_model and ctx.thorough():
        rc, out, err = ctx.run_exe(facts_model, ["explore", "1", "32", "2", "3", "3", "facts"], timeout=1200)
        log("pipe MODEL TEST explore on the source-derived tables: " + out.strip()[:200])
    rule = ("pipe: sequential cases = exhaustive {w,f,r}-sequences (k=1 up to length 7, k=2 up to 6; at presets 0,1 and in the wrap zone) + "
            "random sequences of 5..200(+) ops for k=1,2,3,8 (mix / bursts of more than 2^k writes / w-f and w-r alternations / fill-drain-fill / "
            "full-pipe walk, IsPipeEmpty and Clear sprinkled) at index presets 0, 1, 2^k-1.., 2^31-2.., 2^32-2^k-3..2^32-1; non-trivial = "
            "a case with a successful write AND a successful read/pop, or a refused write on a full pipe (distinct case lines); a stress run is "
            "non-trivial when the reader threads made > 2 % of the deliveries; an exploration scope when it completed")
    ctx.rule = (ctx.rule + " | " + rule) if (ctx.rule and not isinstance(ctx, PipeCtx)) else rule
    ctx.trusted += [
        "props/C01/pipe_factgen.py + clang 14 -ast-dump=json + PipeFactsDefs.compile: the transliteration of the three pipe methods into "
        "the instruction tables (checked = the tables are Pipe.v's; the differential below observes the behaviour they predict)",
        "g++ (-O1 ASan+UBSan, -O2) code generation for volatile accesses, asm volatile(\"\":::\"memory\") and the __sync builtins; "
        "harness/C01/pipe_harness.cpp (#define private public to read and pre-advance m_WriteIndex/m_ReadCount/m_ReadIndex) and the "
        "python oracle in props/C01/pipe_check.py",
    ]
    ctx.assumptions += [
        "pipe memory model: SEQUENTIAL CONSISTENCY, one shared access per micro-step. x86-TSO store buffering (and weaker models: the "
        "barriers are compiler barriers only) is NOT modelled; the stress runs exercise the real code on this x86 machine only",
        "a ThreadSanitizer build of the pipe is NOT meaningful (synchronisation through volatile + compiler barriers + __sync builtins: "
        "TSan would flag every access) — the stress harness checks exactly-once delivery and payload integrity instead",
        "the interleaving exploration is a bounded MODEL TEST (k=1, 2 readers, <= 3 operations per thread in the quick tier), not a proof, "
        "and by itself says nothing about the C++ code; local instructions are merged into the preceding shared access (they commute)",
        "index wrap-around of the pipe (about 2^32 steals from one pipe): hand-off safety and the bookkeeping theorems hold across it, "
        "the no-stranded-item statement is refuted there (pipe_no_stranded_item_refuted) and the oracle's liveness clause is not applied "
        "in the wrap zone: known finding " + WRAP_SIG + "; without wrap that statement is proved (PropertiesPipeStrand.v), the exploration is then a redundant model test",
    ]
    ctx.cov["pipe_wall_s"] = round(time.time() - t0, 1)
    log("pipe part done in %.1fs" % (time.time() - t0))
