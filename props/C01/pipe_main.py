#!/usr/bin/env python3
"""Standalone driver for the LockLessMultiReadPipe part of C01/C02 (props/C01/pipe_check.py).

    python3 props/C01/pipe_main.py [--tier quick|thorough] [--no-wrap] [--no-stress] [--no-explore]

Honours VERIF_REPO and VERIF_SEED.  Uses /verif/build/C01pipe as build dir, does NOT write /verif/evidence/C01.json
(ctx.finish() is not called): an evidence-like summary goes to /verif/build/C01pipe/evidence_pipe.json.  The known
finding C01-pipe-index-wrap is taken from /verif/build/handoff/C01/known_findings.json (until the coordinator lists
it in /verif/known_findings.json).  Exit status 1 if a VIOLATION was reported or a correspondence/proof is broken."""
import json
import os
import sys
import time

HERE = os.path.dirname(os.path.abspath(__file__))
VERIF = os.path.dirname(os.path.dirname(HERE))
sys.path.insert(0, os.path.join(VERIF, "lib"))
sys.path.insert(0, HERE)
import vlib          # noqa: E402
import pipe_check    # noqa: E402


def main(argv):
    tier = "quick"
    if "--tier" in argv:
        tier = argv[argv.index("--tier") + 1]
    ctx = vlib.Ctx("C01", tier=tier)
    ctx.build = os.path.join(VERIF, "build", "C01pipe")
    os.makedirs(ctx.build, exist_ok=True)
    # known findings: the coordinator's list + the hand-in of this property
    handoff = os.path.join(VERIF, "build", "handoff", "C01", "known_findings.json")
    orig_open = ctx.open_findings

    def open_findings():
        fs = list(orig_open())
        try:
            for f in json.load(open(handoff)).get("findings", []):
                if f.get("property") == "C01" and f.get("status") == "open" and f.get("signature") not in [g.get("signature") for g in fs]:
                    fs.append(f)
        except Exception as e:      # noqa: BLE001
            ctx.log("could not read %s: %s" % (handoff, e))
        return fs
    ctx.open_findings = open_findings
    ctx.log("pipe check: repo=%s tier=%s seed=%s build=%s" % (ctx.repo, ctx.tier, ctx.seed, ctx.build))
    pipe_check.run_pipe(ctx, wrap_cases="--no-wrap" not in argv, do_stress="--no-stress" not in argv,
                        do_explore="--no-explore" not in argv)
    ev = {"property_id": "C01", "part": "LockLessMultiReadPipe", "tier": ctx.tier, "seed": ctx.seed, "repo": ctx.repo,
          "obligations": ctx.obligations, "discharged": ctx.discharged, "broken": ctx.broken,
          "violations": ctx.violations, "known_findings_reproduced": ctx.known_hits,
          "evaluations": ctx.evaluations, "distinct_nontrivial": len(ctx.nontrivial), "rule": ctx.rule,
          "coverage": ctx.cov, "samples": ctx.samples, "trusted_base": ctx.trusted, "assumptions": ctx.assumptions,
          "checker_cmd": ctx.checker_cmd, "wall_s": round(time.time() - ctx.t0, 1)}
    with open(os.path.join(ctx.build, "evidence_pipe.json"), "w") as f:
        json.dump(ev, f, indent=1, default=str)
    for b in ctx.broken:
        print("BROKEN: " + b[:600], flush=True)
    ctx.log("pipe summary: obligations %d/%d, evaluations %d (distinct non-trivial %d), violations %d, broken %d, known findings %d, %.1fs"
            % (ctx.discharged, ctx.obligations, ctx.evaluations, len(ctx.nontrivial), len(ctx.violations), len(ctx.broken),
               len(ctx.known_hits), time.time() - ctx.t0))
    return 1 if (ctx.violations or ctx.broken) else 0


if __name__ == "__main__":
    sys.exit(main(sys.argv[1:]))
