"""C01 — parallel loops run every index exactly once and join before returning.

Coq (coq/C01): block arithmetic, index conversions of the internal backend, foreach index map, the enkiTS
task-set scheduler as a nondeterministic machine with its invariant / join-completeness theorems, and a
proved-sound acceptance function for recorded ExecuteRange traces.
Tie B: harness/C01/harness.cpp is built from the working tree once per tasking backend (TBB, OpenMP, Internal,
Debug) and run on the case grid; its observations are compared (a) with an independent property oracle (python,
below) and (b) with the extracted model (ocaml/C01/driver.ml).  Recorded enkiTS traces are validated by the
extracted `accepts`."""
import os, re
from concurrent.futures import ThreadPoolExecutor
import vlib

BACKENDS = ["tbb", "omp", "internal", "debug"]
TYPES = {  # name -> (min, max)
    "uc": (0, 255), "sh": (-2**15, 2**15 - 1), "i": (-2**31, 2**31 - 1), "u": (0, 2**32 - 1),
    "l": (-2**63, 2**63 - 1), "ll": (-2**63, 2**63 - 1), "ull": (0, 2**64 - 1), "sz": (0, 2**64 - 1)}
BTYPES = ["i", "u", "l", "ll", "ull", "sz"]      # parallel_in_blocks_of does not compile for unsigned char / short
BSIZES = [1, 3, 4, 64, 1024]
INT_MAX = 2**31 - 1
SIG_GT_INT_MAX = "C01-internal-backend-n-outside-int-truncated"


def clip(ty, n):
    lo, hi = TYPES[ty]
    return max(lo, min(hi, n))


# ------------------------------------------------------------------ independent property oracle
def oracle_F(n):
    return "cnt=%d ok" % max(n, 0)


def oracle_B(n, B, signed):
    blocks = []
    if n > 0:
        nb = (n + B - 1) // B
        if nb <= 40:
            blocks = [(k * B, min((k + 1) * B, n)) for k in range(nb)]
            return "nb=%d" % nb + "".join(" [%d,%d)" % b for b in blocks)
        f = lambda k: " [%d,%d)" % (k * B, min((k + 1) * B, n))
        return "nb=%d%s%s ..%s%s chain=1 maxlen=%d" % (nb, f(0), f(1), f(nb - 2), f(nb - 1), min(B, n))
    return "nb=0"


def oracle_E(count, a, b):
    lo = min(a, count); hi = max(lo, count - b)
    return "cnt=%d ok" % (hi - lo)


def oracle_T(n, T, pieces):
    """pieces tile [0,n), each non-empty, thread < T (independent of the Coq `accepts`; no RangeToRun bound)"""
    ps = sorted((lo, hi) for (_, lo, hi) in pieces)
    pos = 0
    for lo, hi in ps:
        if lo != pos or hi <= lo:
            return False
        pos = hi
    return pos == n and all(0 <= t < T for (t, _, _) in pieces)


# ------------------------------------------------------------------ histories of loops
PROPAGATING = ("tbb", "debug")     # backends on which an exception may leave a loop body (defined behaviour)


def oracle_H(steps, backend):
    """required result of every step of a history, each judged from the step alone (Properties.history_independent)"""
    prop = backend in PROPAGATING
    out = []
    for k, st in enumerate(steps):
        f = st.split(":")
        r = "ok"
        if f[0] == "x":
            n = max(0, clip(f[1], int(f[2])))
            if prop and 0 <= int(f[3]) < n: r = "caught"
        elif f[0] == "xe":
            if prop and 0 <= int(f[2]) < int(f[1]): r = "caught"
        elif f[0] == "xb":
            n, B = int(f[1]), int(f[2]); nb = (n + B - 1) // B if n > 0 else 0
            if prop and 0 <= int(f[3]) < nb: r = "caught"
        out.append("%d=%s" % (k, r))
    return " ".join(out)


def gen_history(r, backend, T):
    prop = backend in PROPAGATING
    tys = ["i", "sz", "uc", "l"]

    def ordinary():
        c = r.random()
        if c < 0.55:
            ty = r.choice(tys); n = clip(ty, r.choice([0, 1, 2, T + 1, 255, 257, 1000, 4095]))
            return "f:%s:%d" % (ty, n)
        if c < 0.75: return "e:%d" % r.choice([0, 1, 257, 3000])
        if c < 0.9: return "b:%d:%d" % (r.choice([0, 1, 5, 300, 4095]), r.choice([4, 64]))
        return "n:%d:%d:%d:%d" % (r.choice([1, 3, T + 1]), r.choice([1, 50, 300]), -1, -1)

    def failing():
        c = r.random()
        if c < 0.5:
            ty = r.choice(tys); n = clip(ty, r.choice([1, 2, T + 1, 255, 1000, 4095]))
            bad = r.choice([0, n - 1, r.randint(0, max(0, n - 1)), n])
            return "%s:%s:%d:%d" % ("x" if prop else "s", ty, n, bad)
        if c < 0.7:
            n0, n1 = r.choice([1, 3, T + 1]), r.choice([1, 50, 300])
            return "n:%d:%d:%d:%d" % (n0, n1, r.randint(0, n0 - 1), r.randint(0, n1 - 1))
        if c < 0.85:
            cnt = r.choice([1, 257, 3000]); return "xe:%d:%d" % (cnt, r.randint(0, cnt - 1))
        n, B = r.choice([5, 300, 4095]), r.choice([4, 64])
        return "xb:%d:%d:%d" % (n, B, r.randint(0, (n + B - 1) // B - 1))
    steps = [ordinary() for _ in range(r.randint(0, 2))]
    for _ in range(r.randint(1, 3)):
        steps.append(failing())
        steps += [ordinary() for _ in range(r.randint(2, 4))]
    return steps


def run_history(ctx, exe, T, steps, wd):
    rc, out, err = ctx.run_exe(exe, [str(T), str(wd)], stdin="H h " + " ".join(steps) + "\n", timeout=300)
    for ln in out.splitlines():
        if ln.startswith("h "):
            return ln[2:]
    return "no-result rc=%s %s" % (rc, (out + err)[-200:].replace("\n", " "))


# ------------------------------------------------------------------ giant loops (top binades of the 32-bit index types)
def gen_giant(ctx, backend):
    """(type, n, B) with B = 0 for parallel_for, 64 for parallel_in_blocks_of<64>; trivial body, exact bitmap oracle in the
    harness.  Sized per backend by its measured throughput (TBB / internal ~1e9 indices/s on 16 threads, Debug 1e8/s serial,
    OpenMP schedule(dynamic) 1e7/s); the internal backend stops at INT_MAX (above is the open finding)."""
    r = ctx.rng("giant/" + backend)
    U, I = 2**32 - 1, 2**31 - 1
    if backend == "tbb":
        cs = [("u", 3 * 10**8, 0), ("u", U, 0), ("i", 3 * 10**8, 0), ("i", I, 0), ("u", U, 64)]
        pool = [("u", 2**31 + 1, 0), ("u", 2**31 - 1, 0), ("u", 3 * 2**30 + 5, 0), ("u", U - 1, 0), ("i", I - 1, 0), ("i", 2**30 + 1, 0),
                ("i", I, 64), ("u", 2**31 + 1, 64)] + [(t, 2**k + 1, b) for k in range(24, 31) for t in "ui" for b in (0, 64)]
    elif backend == "internal":
        cs = [("u", 3 * 10**8, 0), ("i", I, 0), ("u", I, 64)]
        pool = [("u", I, 0), ("i", I - 1, 0), ("i", 2**30 + 1, 0), ("i", I, 64)] + [(t, 2**k + 1, b) for k in range(24, 31) for t in "ui" for b in (0, 64)]
    elif backend == "debug":
        cs = [("u", 3 * 10**8, 0), ("i", 2**26 + 1, 64)]
        pool = [(t, 2**k + 1, b) for k in range(24, 28) for t in "ui" for b in (0, 64)]
    else:
        cs = [("u", 2**24 + 1, 0), ("i", 2**24 + 3, 64)]
        pool = [(t, 2**k + 1, b) for k in range(20, 24) for t in "ui" for b in (0, 64)]
    cs += r.sample(pool, ctx.pick(1, min(len(pool), 8)))
    cs = sorted(set(cs), key=lambda c: (c[1], c[2], c[0]))   # ascending: under the time box (see harness) the largest go first
    budget = ctx.pick(25000, 240000)
    return [("G", dict(type=t, n=n, B=b), "%s %d %d %d" % (t, n, b, budget)) for (t, n, b) in cs]


# ------------------------------------------------------------------ case grid
def gen_cases(ctx, backend, T):
    r = ctx.rng("cases/%s/%d" % (backend, T))
    cases = []   # (kind, spec dict, harness line without id)
    base = [-2**31, -7, -1, 0, 1, 2, T - 1, T, T + 1, 255, 256, 257, 4095, 10**5, 10**6]
    tys = list(TYPES)

    def F(ty, n, cost, depth):
        n = clip(ty, n)
        cases.append(("F", dict(type=ty, n=n, cost=cost, depth=depth), "%s %d %d %d" % (ty, n, cost, depth)))
    seen = set()
    big_types = r.sample(tys[2:], 2 if not ctx.thorough() else 6)     # 10^6 only for a few types per run
    for ty in tys:
        for n in base:
            c = clip(ty, n)
            if (ty, c) in seen: continue
            seen.add((ty, c))
            if c == 10**6 and ty not in big_types: continue
            F(ty, n, 0, 0)
    for n in [T - 1, T, T + 1, 2, 257, 4095]:
        for ty in r.sample(tys, ctx.pick(2, 8)):
            F(ty, n, 1, 0)
    for depth in (1, 2):
        for n in [-1, 0, 1, 2, T + 1, 13, 257, 4095]:
            for ty in r.sample(tys, ctx.pick(2, 8)):
                F(ty, n, r.choice([0, 1]), depth)
    if T >= 16:
        F("i", 10**5, 0, 2)
        F("sz", 30000, 1, 2)
    # blocks
    if T in (1, 3, 16) and not (backend == "debug" and T != 1):
        for ty in BTYPES:
            lo, hi = TYPES[ty]
            for B in BSIZES:
                for n in sorted({lo, -1, 0, 1, B - 1, B, B + 1, 2 * B, 2 * B + 1, 1000, 4095, 10**5, r.randint(2, 50000)}):
                    n = clip(ty, n)
                    cases.append(("B", dict(type=ty, n=n, B=B), "%s %d %d" % (ty, n, B)))
        for count in [0, 1, 2, T, 257, 4095, 10**5]:
            for (a, b) in [(0, 0), (1, 0), (3, 2)]:
                cases.append(("E", dict(count=count, a=a, b=b), "%d %d %d" % (count, a, b)))
    # n within B-1 of the type's maximum (row 3): few, they are large
    if (backend, T) in (("debug", 1), ("tbb", 3), ("internal", 3), ("omp", 3)):
        for ty, n in [("u", 2**32 - 6), ("u", 2**32 - 1), ("i", 2**31 - 6), ("i", 2**31 - 1)]:
            if backend in ("omp",) and not ctx.thorough() and n != 2**32 - 6: continue
            cases.append(("B", dict(type=ty, n=n, B=1024), "%s %d 1024" % (ty, n)))
    if (backend, T) == ("tbb", 16):
        # parallel_foreach over more than INT_MAX elements of an untouched MAP_NORESERVE mapping (no memory is committed)
        cases.append(("M", dict(distance=2**31 + 64), "%d" % (2**31 + 64)))
    if backend == "internal":
        # recorded task sets through the enkiTS API
        P = T * (T - 1) if T > 1 else 1
        for n in sorted({0, 1, 2, 12, 13, 14, max(P - 1, 0), P, P + 1, 2 * P + 1, 255, 256, 257, 1000, 4095, 10**5, r.randint(2, 3000), r.randint(2, 3000)}):
            for (pre, park) in [(0, 0), (0, 1), (250, 1), (300, 1), (300, 0)]:
                if n >= 10**5 and pre: continue
                cases.append(("T", dict(n=n, prefill=pre, park=park, T=T), "%d %d %d" % (n, pre, park)))
        if T == 3:
            # row 2: count above INT_MAX on the internal backend (cheap to run: the truncated count is small)
            for ty, n in [("sz", 2**32 + 5), ("ull", 2**32 + 5), ("l", 2**32 + 5), ("ll", 2**33 + 7), ("l", -2**32 + 5)]:
                cases.append(("F", dict(type=ty, n=n, cost=0, depth=0), "%s %d 0 0" % (ty, n)))
    # histories last: loops whose bodies fail, followed by ordinary loops that must be complete (a failure that
    # poisons the process would otherwise show up in every later case of this group)
    for _ in range(ctx.pick(5, 30)):
        steps = gen_history(r, backend, T)
        cases.append(("H", dict(steps=steps), " ".join(steps)))
    return cases


# ------------------------------------------------------------------ running a harness with restarts
def run_group(ctx, exe, backend, T, cases, wd_ms, env=None, errs=None):
    """Feed the cases; a fatal report (EXTRA/HANG/sanitizer/crash) ends the process: the culprit is recorded
    and the remaining cases are run in a fresh process (bounded number of restarts)."""
    ids = ["%s%d" % (c[0].lower(), k) for k, c in enumerate(cases)]
    results, fatals = {}, []
    pos, restarts = 0, 0
    while pos < len(cases) and restarts <= 6:
        chunk = range(pos, len(cases))
        inp = "".join("%s %s %s\n" % (cases[k][0], ids[k], cases[k][2]) for k in chunk)
        rc, out, err = ctx.run_exe(exe, [str(T), str(wd_ms)], stdin=inp, timeout=ctx.pick(420, 1800), env=env)
        if errs is not None:
            errs.append(err)
        last = pos - 1
        fatal = None
        for ln in out.splitlines():
            f = ln.split(" ", 2)
            if f[0] in ("EXTRA", "HANG") and len(f) >= 2:
                fatal = (f[0], f[1], f[2] if len(f) > 2 else "")
                continue
            if f[0] in ids:
                k = ids.index(f[0])
                results[k] = ln[len(f[0]) + 1:]
                last = max(last, k)
        if rc == 0 and not fatal:
            break
        culprit = ids.index(fatal[1]) if fatal and fatal[1] in ids else last + 1
        if culprit >= len(cases):
            fatals.append((None, "exit rc=%d after the last case" % rc, err[-1500:]))
            break
        kind = fatal[0] if fatal else ("TIMEOUT" if rc == 124 else "SANITIZER/CRASH rc=%d" % rc)
        fatals.append((culprit, kind + (" " + fatal[2] if fatal else ""), err[-2500:]))
        pos = culprit + 1
        restarts += 1
    notrun = [k for k in range(len(cases)) if k not in results and k not in [f[0] for f in fatals]]
    return results, fatals, notrun


def parse_pieces(line):
    m = re.match(r"T=(\d+) n=(\d+) pieces(.*)$", line)
    if not m: return None
    T, n = int(m.group(1)), int(m.group(2))
    ps = []
    for tok in m.group(3).split():
        t, rng = tok.split(":"); lo, hi = rng.split("-")
        ps.append((int(t), int(lo), int(hi)))
    return T, n, ps


def handoff_findings(ctx):
    """Until the coordinator has merged build/handoff/C01/known_findings.json into /verif/known_findings.json
    (which this check must not edit) the handed-in entries are honoured from the hand-in file as well."""
    import json
    p = os.path.join(ctx.verif, "build", "handoff", "C01", "known_findings.json")
    base = ctx.known_findings
    try:
        extra = [f for f in json.load(open(p)).get("findings", []) if f.get("property") == "C01"]
    except Exception:
        extra = []

    def merged():
        cur = base()
        have = {f.get("signature") for f in cur}
        return cur + [f for f in extra if f.get("signature") not in have]
    ctx.known_findings = merged


def regenerate_src(ctx):
    """Tie to the source text: tools/c01src/gen_src.py rewrites coq/C01/gen/Src.v from the clang AST of the working
    tree (only when the text changes); PropertiesSrc.v then re-proves that it coincides with Model.v."""
    gen = os.path.join(ctx.coqdir, "gen", "Src.v")
    os.makedirs(os.path.dirname(gen), exist_ok=True)
    inc = ctx.include_dir()
    tool = os.path.join(ctx.verif, "tools", "c01src", "gen_src.py")
    rc, out = vlib.sh(["python3", tool, ctx.repo, inc, gen, os.path.join(ctx.build, "ast")], timeout=300)
    if rc != 0 or not os.path.exists(gen):
        ctx.log("source extractor failed:\n" + out[-1500:])
        ctx.broken.append("source extractor tools/c01src/gen_src.py failed (rc=%s)" % rc)
        return
    txt = open(gen).read()
    ctx.cov["src_regenerated"] = {"file": "coq/C01/gen/Src.v", "definitions": txt.count("\nDefinition "),
                                  "not_understood_nodes": txt.count("Unk \""), "bytes": len(txt)}


def explain_src_failure(ctx):
    """name the lemma of ProofsSrc.v / theorem of PropertiesSrc.v at which the build stopped"""
    log = getattr(ctx, "coq_log", "")
    for fn in ("ProofsSrc.v", "PropertiesSrc.v", "gen/Src.v"):
        m = re.search(r'File "\./%s", line (\d+)' % re.escape(fn), log)
        if m:
            line = int(m.group(1)); name = "?"
            for k, l in enumerate(open(os.path.join(ctx.coqdir, fn)).read().split("\n"), 1):
                mm = re.match(r"\s*(?:Lemma|Theorem|Definition)\s+([A-Za-z_][\w']*)", l)
                if mm and k <= line:
                    name = mm.group(1)
            ctx.log("regenerated-source obligation fails: %s (%s line %d)" % (name, fn, line))
            ctx.cov["src_obligation_failed_at"] = "%s:%d %s" % (fn, line, name)
            ctx.broken.append("regenerated source no longer matches the model: %s (%s line %d)" % (name, fn, line))
            return


def foreach_search(ctx):
    """Search on breakage: evaluate the regenerated parallel_foreach body in the machine reading (coq/C01/SrcSearch.v,
    vm_compute) on boundary distances; returns the distances whose count differs from the distance."""
    import shutil
    d = os.path.join(ctx.build, "search")
    os.makedirs(d, exist_ok=True)
    shutil.copy(os.path.join(ctx.coqdir, "SrcSearch.v"), os.path.join(d, "SrcSearch.v"))
    rc, out = vlib.sh(["coqc"] + vlib.coqproject_args(ctx.coqdir) + ["SrcSearch.v"], cwd=d, timeout=120)
    m = re.search(r"=\s*\[([^\]]*)\]", out)
    if rc != 0 or not m:
        ctx.log("SrcSearch.v did not evaluate:\n" + out[-800:])
        return []
    return [int(x) for x in re.findall(r"-?\d+", m.group(1))]


def join_stress(ctx):
    """Runs after the pipe part has finished (its own stress is deadline-sensitive; the two must not compete for the cores)."""
    if not getattr(ctx, "c01_stress_exes", None):
        return
    asan_internal, fast_internal, wd = ctx.c01_stress_exes
    # join stress on the internal backend: oversubscribed thread counts, trivial bodies, small n, thousands of short loops in a
    # time box; oracle (in the harness, state-based): every index has run when parallel_for returns, and nothing runs on the
    # returned call's frame afterwards (a crash of a late worker is reported by a signal handler with the configuration).
    # Two runs on an unsanitized -O2 build (tens of thousands of rounds) and one under ASan (dead-stack diagnostics); a hit
    # is re-run once.
    cores = os.cpu_count() or 16
    box = ctx.pick(2500, 15000)
    T2, T4 = min(max(32, 2 * cores), 128), min(max(64, 4 * cores), 128)
    stress = {}
    for (label, sexe, T, nlo, nhi) in [("fast", fast_internal, T2, 16, 64), ("fast", fast_internal, T4, 100, 400),
                                       ("asan", asan_internal, T4, 100, 400)]:
        def stress_run(sexe=sexe, T=T, nlo=nlo, nhi=nhi):
            rc, out, err = ctx.run_exe(sexe, [str(T), str(wd)], stdin="S s %d %d %d\n" % (nlo, nhi, box), timeout=box // 1000 + 120,
                                       env={"ASAN_OPTIONS": vlib.Ctx.SAN_ENV["ASAN_OPTIONS"] + ":detect_stack_use_after_return=1"})
            line = next((l for l in out.splitlines() if l.startswith("s ")), None)
            return rc, line, (out + err)[-2500:]
        rc, line, tail = stress_run()
        ctx.count(1)
        m = re.match(r"s rounds=(\d+) ok", line or "")
        if m and rc == 0:
            stress["%s T=%d n=%d..%d" % (label, T, nlo, nhi)] = int(m.group(1))
            ctx.nontriv(["S", label, T, nlo, int(m.group(1)) > 100])
            continue
        rc2, line2, tail2 = stress_run()
        ctx.violation("internal backend, initTaskingSystem(%d) (oversubscribed, %d cores), short parallel_for loops with a trivial body, n in [%d,%d] "
                      "(%s build): %s; second run: %s" % (T, cores, nlo, nhi, label, line or "harness died rc=%d" % rc, line2 or "harness died rc=%d" % rc2),
                      {"backend": "internal", "T": T, "kind": "S", "build": label, "harness_line": "S x %d %d %d" % (nlo, nhi, box), "observed": line,
                       "rc": rc, "observed_second_run": line2, "output_tail": tail,
                       "required": "when parallel_for returns every index of [0,n) has been run (join), and nothing of the loop runs afterwards"})
        break
    ctx.cov["join_stress_rounds"] = stress


def run(ctx):
    """The C01 check = the loop/scheduler part (run_rest) + the LockLessMultiReadPipe part (props/C01/pipe_check.py: run_pipe).
    One Coq project (coq/C01/_CoqProject) and one coq_check carry both; after it the pipe part (extraction, harness builds,
    sequential differential, wrap-zone replay, stress, model exploration: subprocess-heavy) runs in a thread with a recording
    stand-in for ctx (pipe_check.PipeCtx) and is merged into ctx at the end, in this thread."""
    import pipe_check
    handoff_findings(ctx)
    regenerate_src(ctx)
    pipe_check.regenerate_facts(ctx)
    res = ctx.coq_check(("Properties.v", "PropertiesSrc.v", "PropertiesPipe.v", "PropertiesPipeStrand.v", "PropertiesPipeFacts.v"))
    pipe_thms = vlib.theorem_names(open(os.path.join(ctx.coqdir, "PropertiesPipeFacts.v")).read())
    if not all(res.get(n) for n in pipe_thms):
        # coqc stops at the first failing obligation of the file, all of them are then counted as broken: name the first one first
        ctx.broken.insert(0, "LockLessMultiReadPipe: the instruction tables / facts derived from the working tree's source no longer equal the "
                             "model's (coq/C01/PropertiesPipeFacts.v); coqc stopped at %s" % (pipe_check.first_failing_fact(ctx) or "?"))
    pctx = pipe_check.PipeCtx(ctx)
    with ThreadPoolExecutor(max_workers=1) as pex:
        fut = pex.submit(pipe_check.run_pipe, pctx, True, False, True, True, res)
        try:
            run_rest(ctx, {k: v for k, v in res.items() if k not in pipe_thms})
        finally:
            try:
                fut.result(timeout=3600)
            except Exception as e:      # fail closed
                import traceback
                ctx.log("pipe part raised:\n" + traceback.format_exc()[-2000:])
                ctx.broken.append("pipe part of the check raised %s: %s" % (type(e).__name__, e))
            pctx.merge()
    join_stress(ctx)
    if ctx.thorough():
        ctx.coq_thorough_chk(["C01.Properties", "C01.PropertiesSrc", "C01.PropertiesPipe", "C01.PropertiesPipeStrand", "C01.PropertiesPipeFacts"])


def run_rest(ctx, res):
    ctx.foreach_suspects = []
    if not all(res.values()):
        explain_src_failure(ctx)
        ctx.foreach_suspects = foreach_search(ctx)
        if ctx.foreach_suspects:
            ctx.log("model-side witnesses (regenerated parallel_foreach, machine reading): count != distance for %s" % ctx.foreach_suspects)
            ctx.cov["foreach_model_witnesses"] = ctx.foreach_suspects
    model = ctx.extract(snippets=["conv_N.ml", "conv_Z.ml", "conv_nat.ml"])
    jobs = [dict(sources=["harness.cpp"], out="h_" + b, backend=b, sanitize="asan") for b in BACKENDS]
    exes = ctx.cxx_many(jobs)
    extra = [dict(sources=["repro25.cpp"], out="repro25", backend="internal", sanitize=None),
             # unsanitized -O2 build of the harness for the join stress (many more rounds per second than under ASan)
             dict(sources=["harness.cpp"], out="h_internal_fast", backend="internal", sanitize=None, opt="-O2")]
    if ctx.thorough():
        extra += [dict(sources=["harness.cpp"], out="h_%s_tsan" % b, backend=b, sanitize="tsan") for b in ("tbb", "omp")]
    xexes = ctx.cxx_many(extra)
    fast_internal = xexes[1]
    if not model or not all(exes) or not all(xexes):
        return
    exe = dict(zip(BACKENDS, exes))
    wd = ctx.pick(15000, 60000)
    Ts = [1, 2, 3, 16, 32]
    groups = [(b, T) for b in BACKENDS for T in Ts if not (b == "debug" and T != 1)]
    gcases = {g: gen_cases(ctx, g[0], g[1]) for g in groups}
    ctx.log("running %d harness processes, %d cases" % (len(groups), sum(len(v) for v in gcases.values())))
    giant = {b: gen_giant(ctx, b) for b in BACKENDS}
    with ThreadPoolExecutor(max_workers=4) as ex:
        gfut = [ex.submit(run_group, ctx, exe[b], b, 16, giant[b], wd) for b in ("tbb", "internal")]
        outs = list(ex.map(lambda g: run_group(ctx, exe[g[0]], g[0], g[1], gcases[g], wd), groups))
        gfut += [ex.submit(run_group, ctx, exe[b], b, 16, giant[b], wd) for b in ("debug", "omp")]
        gouts = dict(zip(("tbb", "internal", "debug", "omp"), [f.result() for f in gfut]))

    ctx.log("harness runs finished")
    # ---------------------------------------------------------------- model lines for every case
    mlines_in, mkeys = [], []
    for g, (results, fatals, notrun) in zip(groups, outs):
        for k, c in enumerate(gcases[g]):
            key = "%s.%d.%d" % (g[0], g[1], k)
            if c[0] == "F":
                mlines_in.append("F %s %s %s" % (key, c[2], g[0]))
            elif c[0] in ("B", "E"):
                mlines_in.append("%s %s %s" % (c[0], key, c[2]))
            elif c[0] == "T" and k in results:
                pp = parse_pieces(results[k])
                if pp is None: continue
                mlines_in.append("A %s %d %d %s" % (key, pp[0], pp[1], " ".join("%d:%d-%d" % p for p in pp[2])))
            else:
                continue
            mkeys.append(key)
    # self-test of the machine: random schedules of the model itself must be accepted as well
    rr = ctx.rng("walk")
    nwalk = ctx.pick(60, 600)
    for w in range(nwalk):
        mlines_in.append("R walk.%d %d %d %d %d" % (w, rr.choice([1, 2, 3, 4, 7]), rr.choice([0, 1, 2, 5, 13, 40, 97]), rr.randint(1, 10**6), 4000))
    ctx.log("model driver on %d lines" % len(mlines_in))
    open(os.path.join(ctx.build, "model_in.txt"), "w").write("\n".join(mlines_in) + "\n")
    rc, mout, merr = ctx.run_exe(model, [], stdin="\n".join(mlines_in) + "\n", timeout=900)
    ctx.log("model driver finished")
    mres = {}
    walks = []
    for ln in mout.splitlines():
        f = ln.split(" ", 1)
        if f[0].startswith("walk."):
            walks.append(f[1] if len(f) > 1 else "")
        elif len(f) == 2:
            mres[f[0]] = f[1]
    if rc != 0 or len(mres) != len(mkeys):
        ctx.broken.append("model driver failed rc=%s lines=%d/%d %s" % (rc, len(mres), len(mkeys), merr[-300:]))
    # the walks: joined ones must be accepted by `accepts` (second pass through the driver)
    wl = []
    for w, ln in enumerate(walks):
        st, rest = ln.split(" ", 1)
        pp = parse_pieces(rest)
        if st == "joined" and pp:
            wl.append("A wacc.%d %d %d %s" % (w, pp[0], pp[1], " ".join("%d:%d-%d" % p for p in pp[2])))
    if wl:
        rc2, wout, _ = ctx.run_exe(model, [], stdin="\n".join(wl) + "\n", timeout=300)
        rej = [l for l in wout.splitlines() if not l.endswith(" accept")]
        ctx.cov["model_random_walks"] = {"walks": nwalk, "joined": len(wl), "rejected_by_accepts": len(rej)}
        if rej or rc2 != 0:
            ctx.broken.append("accepts rejects a terminal execution of the model machine: %s" % rej[:2])

    # ---------------------------------------------------------------- judge
    hist = {}
    viol = {}     # class -> (sortkey, what, replay, signature)

    def add_violation(cls, sortkey, what, replay, signature=None):
        if cls not in viol or sortkey < viol[cls][0]:
            viol[cls] = (sortkey, what, replay, signature)

    nmis = 0
    for g, (results, fatals, notrun) in zip(groups, outs):
        b, T = g
        cs = gcases[g]
        if notrun:
            ctx.log("%s T=%d: %d cases not run after repeated fatal reports" % (b, T, len(notrun)))
            ctx.cov.setdefault("cases_not_run", 0)
            ctx.cov["cases_not_run"] += len(notrun)
        for (k, kind, err) in fatals:
            if k is None:
                add_violation(("exit", b), 0, "harness %s T=%d: %s" % (b, T, kind), {"backend": b, "T": T, "stderr_tail": err}, None)
                continue
            c = cs[k]
            sig = None
            if c[0] == "F" and b == "internal" and (c[1]["n"] > INT_MAX or c[1]["n"] < -2**31):
                sig = SIG_GT_INT_MAX
            req = ("function invoked exactly once for each index of [0,n) and for nothing else, nothing for n <= 0; "
                   "blocks partition [0,n); the call returns")
            add_violation((b, c[0], kind.split(" ")[0], sig), abs(c[1].get("n", 0)) + T,
                          "%s backend, initTaskingSystem(%d), %s case %s: %s" % (b, T, c[0], c[1], kind.split("\n")[0][:300]),
                          {"backend": b, "T": T, "kind": c[0], "case": c[1], "harness_line": "%s x %s" % (c[0], c[2]),
                           "observed": kind, "stderr_tail": err, "required": req}, sig)
        for k, c in enumerate(cs):
            if k not in results:
                continue
            key = "%s.%d.%d" % (b, T, k)
            obs = results[k]
            obs_cmp = obs.split(" # ")[0]
            ctx.count(1)
            hist[c[0] + ":" + b] = hist.get(c[0] + ":" + b, 0) + 1
            spec = c[1]
            if c[0] == "F":
                req = oracle_F(spec["n"])
                m = re.search(r"thr=(\d+)", obs)
                if m and int(m.group(1)) >= 2 and spec["n"] >= 2:
                    ctx.nontriv(["F", b, T, spec])
            elif c[0] == "B":
                req = "%s" % oracle_B(spec["n"], spec["B"], spec["type"] in ("i", "l", "ll"))
                if spec["n"] > spec["B"]:
                    ctx.nontriv(["B", b, T, spec])
            elif c[0] == "E":
                req = oracle_E(spec["count"], spec["a"], spec["b"])
                if spec["count"] >= 2:
                    ctx.nontriv(["E", b, T, spec])
            elif c[0] == "M":
                req = "cnt=%d ok" % spec["distance"]
                ctx.nontriv(["M", b, T, spec])
            elif c[0] == "H":
                req = oracle_H(spec["steps"], b)
                if "caught" in req or any(st[0] in "sn" for st in spec["steps"]):
                    ctx.nontriv(["H", b, T, spec])
                for st in spec["steps"]:
                    hist["Hstep:" + st.split(":")[0]] = hist.get("Hstep:" + st.split(":")[0], 0) + 1
                if obs_cmp != req and ("H", b) not in viol:
                    # shrink to a minimal failing history, each candidate in a fresh process
                    def fails(steps, b=b, T=T):
                        return bool(steps) and run_history(ctx, exe[b], T, steps, wd) != oracle_H(steps, b)
                    small = vlib.shrink_list(spec["steps"], fails, max_rounds=60)
                    if fails(small):
                        o2 = run_history(ctx, exe[b], T, small, wd)
                        viol[("H", b)] = (len(small), "%s backend, initTaskingSystem(%d): history of loops %s: observed '%s', required '%s' "
                                          "(step forms: f ordinary parallel_for, x body throws and the caller catches, s body handles its own failure, "
                                          "n nested with a failing inner loop, e/xe parallel_foreach, b/xb parallel_in_blocks_of)"
                                          % (b, T, " ; ".join(small), o2[:300], oracle_H(small, b)),
                                          {"backend": b, "T": T, "kind": "H", "history": small, "harness_line": "H x " + " ".join(small),
                                           "observed": o2, "required": oracle_H(small, b), "original_history": spec["steps"]}, None)
                    continue
            else:
                pp = parse_pieces(obs)
                ok = pp is not None and pp[1] == spec["n"] and oracle_T(pp[1], pp[0], pp[2])
                req = obs_cmp if ok else "pieces that tile [0,%d) exactly" % spec["n"]
                if ok and len(pp[2]) >= 2:
                    ctx.nontriv(["T", T, spec])
                    hist["T:pieces>=2"] = hist.get("T:pieces>=2", 0) + 1
                    if len({p[0] for p in pp[2]}) >= 2:
                        hist["T:threads>=2"] = hist.get("T:threads>=2", 0) + 1
                    if spec["prefill"] >= 256:
                        hist["T:pipe-full-inline"] = hist.get("T:pipe-full-inline", 0) + 1
            mline = mres.get(key)
            if obs_cmp != req:
                sig = None
                if c[0] == "F" and b == "internal" and (spec["n"] > INT_MAX or spec["n"] < -2**31):
                    sig = SIG_GT_INT_MAX
                if c[0] == "H" and ("H", b) in viol:
                    continue
                add_violation((b, c[0], "oracle", sig), abs(spec.get("n", spec.get("count", spec.get("distance", 0)))) + T,
                              "%s backend, initTaskingSystem(%d): %s %s: observed '%s', required '%s'" % (b, T, c[0], spec, obs[:300], req[:300]),
                              {"backend": b, "T": T, "kind": c[0], "case": spec, "harness_line": "%s x %s" % (c[0], c[2]),
                               "observed": obs[:2000], "required": req[:2000], "model": mline}, sig)
            elif c[0] == "T":
                if mline != "accept":
                    nmis += 1
                    ctx.broken.append("trace validation: extracted accepts says %r for an execution of the real scheduler that tiles [0,n) "
                                      "(%s T=%d %s): %s" % (mline, b, T, spec, obs[:300]))
            elif mline is not None and mline != obs_cmp:
                nmis += 1
                ctx.broken.append("correspondence C01 model vs %s T=%d on %s %s: impl=%r model=%r (impl satisfies the property oracle)"
                                  % (b, T, c[0], spec, obs_cmp[:200], mline[:200]))
    # giant loops: exact oracle cnt = n, no index twice, none missing; a failure is shrunk along the binades
    for b, (results, fatals, notrun) in gouts.items():
        bad = []
        for k, c in enumerate(giant[b]):
            if k in results and results[k] == "skipped-timebox":
                ctx.cov["giant_skipped_timebox_" + b] = ctx.cov.get("giant_skipped_timebox_" + b, 0) + 1
                continue
            if k in results:
                ctx.count(1)
                hist["G:" + b] = hist.get("G:" + b, 0) + 1
                ctx.nontriv(["G", b, c[1]])
                if results[k] != "cnt=%d ok" % c[1]["n"]:
                    bad.append((c, results[k]))
        for (k, kind, err) in fatals:
            if k is not None:
                bad.append((giant[b][k], kind.split("\n")[0][:300]))
        if notrun:
            ctx.cov["giant_not_run_" + b] = len(notrun)
        if bad:
            c, obs = min(bad, key=lambda x: x[0][1]["n"])
            ty, B = c[1]["type"], c[1]["B"]
            small = None
            for kk in range(16, 33):                       # smallest failing binade, each in a fresh process
                n2 = 2**kk + 1
                if n2 >= c[1]["n"] or n2 > TYPES[ty][1]:
                    break
                r2, f2, _ = run_group(ctx, exe[b], b, 16, [("G", dict(type=ty, n=n2, B=B), "%s %d %d 0" % (ty, n2, B))], wd)
                o2 = r2.get(0) or (f2[0][1] if f2 else "no output")
                if o2 != "cnt=%d ok" % n2:
                    small = (n2, o2)
                    break
            n_rep, o_rep = small if small else (c[1]["n"], obs)
            add_violation((b, "G"), n_rep,
                          "%s backend, initTaskingSystem(16): %s over index type %s with n=%d (trivial body, one bit per index): observed '%s', "
                          "required 'cnt=%d ok'" % (b, "parallel_for" if B == 0 else "parallel_in_blocks_of<%d>" % B,
                                                     {"u": "unsigned", "i": "int"}[ty], n_rep, o_rep[:300], n_rep),
                          {"backend": b, "T": 16, "kind": "G", "case": {"type": ty, "n": n_rep, "B": B}, "harness_line": "G x %s %d %d" % (ty, n_rep, B),
                           "observed": o_rep, "required": "cnt=%d ok" % n_rep, "first_seen_at": c[1], "first_seen_observed": obs})
    # witnesses found by evaluating the regenerated parallel_foreach: confirm on the real code (sparse mapping, TBB, 16 threads)
    for dist in [x for x in getattr(ctx, "foreach_suspects", []) if 0 < x <= 2**33][:4]:
        results, fatals, notrun = run_group(ctx, exe["tbb"], "tbb", 16, [("M", dict(distance=dist), "%d" % dist)], wd)
        ctx.count(1)
        obs = results.get(0) or (fatals[0][1] if fatals else "no output")
        req = "cnt=%d ok" % dist
        if obs != req:
            add_violation(("foreach", "witness"), dist,
                          "parallel_foreach over %d elements (witness computed from the regenerated source, confirmed on the real code, "
                          "tbb backend): observed '%s', required '%s'" % (dist, obs[:200], req),
                          {"backend": "tbb", "T": 16, "kind": "M", "case": {"distance": dist}, "harness_line": "M x %d" % dist,
                           "observed": obs, "required": req, "model_witness": "count handed to parallel_for != distance in the machine reading of gen/Src.v"})
        else:
            ctx.log("witness distance %d not confirmed on the real code" % dist)
    ctx.c01_stress_exes = (exe["internal"], fast_internal, wd)
    # public-API reproduction of defect 25
    rc, out, err = ctx.run_exe(xexes[0], ["13", "5", "1", "14", "27", "300"], timeout=60)
    ctx.count(1)
    ctx.cov["repro25_output"] = out.strip().splitlines()[:8]
    good = [l for l in out.splitlines() if l.endswith(" ok")]
    if rc != 0 or len(good) != 6:
        add_violation(("internal", "repro25"), 0,
                      "internal backend, initTaskingSystem(3), both workers parked, 300 scheduled closures filling the caller's pipe, "
                      "then parallel_for(n, f): " + (out.strip().splitlines() or ["no output"])[-1],
                      {"backend": "internal", "T": 3, "program": "harness/C01/repro25.cpp 13 5 1 14 27 300", "observed": out[-600:], "rc": rc,
                       "required": "f called once for each index in [0,n), nothing else, and the loop returns"})
    # TSan builds (thorough): libgomp and libtbb are not TSan-instrumented, so TSan cannot see their join
    # (futex barrier / task wait) and reports the caller's reads after the loop as races on a correct tree
    # (observed: parallel_for.inl:26 vs. the caller's frame on OpenMP, tbb partitioner internals on TBB).  The
    # reports are therefore counted, not judged; the TSan builds still run the value oracle (different timing).
    if ctx.thorough():
        for bk, e in zip(("tbb", "omp"), xexes[2:]):
            cs = [c for c in gen_cases(ctx, bk, 3) if c[0] in ("F", "E") and c[1].get("n", 0) <= 4095][:150]
            errs = []
            results, fatals, notrun = run_group(ctx, e, bk, 3, cs, wd, errs=errs,
                                                env={"TSAN_OPTIONS": "halt_on_error=0:exitcode=0:report_bugs=1"})
            ctx.count(len(results))
            ctx.cov["tsan_reports_%s_uninstrumented_runtime" % bk] = sum(x.count("WARNING: ThreadSanitizer") for x in errs)
            for k, c in enumerate(cs):
                if k in results:
                    req = oracle_F(c[1]["n"]) if c[0] == "F" else oracle_E(c[1]["count"], c[1]["a"], c[1]["b"])
                    if results[k].split(" # ")[0] != req:
                        add_violation((bk, "tsan-build", c[0]), abs(c[1].get("n", 0)),
                                      "%s backend (TSan build), T=3: %s %s: observed '%s', required '%s'" % (bk, c[0], c[1], results[k][:200], req),
                                      {"backend": bk, "T": 3, "case": c[1], "observed": results[k], "required": req})
            for (k, kind, err) in fatals:
                add_violation((bk, "tsan-build", "fatal"), 0, "%s backend (TSan build): %s" % (bk, kind),
                              {"backend": bk, "T": 3, "case": cs[k][1] if k is not None else None, "stderr_tail": err,
                               "required": "every index once, the loop returns"})
    for cls, (sk, what, replay, sig) in sorted(viol.items(), key=lambda kv: str(kv[0])):
        ctx.violation(what, replay, found_input=True, signature=sig)
    ctx.cov["case_histogram"] = hist
    ctx.cov["mismatches_model_vs_impl"] = nmis
    ctx.cov["grid"] = {"n": "-2^31,-7,-1,0,1,2,T-1,T,T+1,255,256,257,4095,1e5,1e6 (clipped to the type)", "types": list(TYPES),
                       "T": Ts, "depth": [0, 1, 2], "cost": ["uniform", "uneven (slow first/last index, seeded spins)"],
                       "block_sizes": BSIZES, "backends": BACKENDS,
                       "foreach_sparse_distance": 2**31 + 64,
                       "giant_loops": {b: [c[2] for c in giant[b]] for b in BACKENDS}}
    ctx.rule = ("one evaluation = one loop execution (parallel_for at nesting depth 0-2 / parallel_in_blocks_of / parallel_foreach / a recorded "
                "enkiTS task set) on one backend and thread count, judged by the property oracle; non-trivial = a parallel_for with n>=2 "
                "whose indices were executed by >=2 distinct threads (measured from the per-index thread record), a block run with >=2 "
                "blocks, a foreach over >=2 elements, or a recorded trace with >=2 pieces")
    for g, (results, fatals, notrun) in list(zip(groups, outs))[:3]:
        for k in list(results)[:1]:
            ctx.sample({"backend": g[0], "T": g[1], "case": gcases[g][k][1], "observed": results[k][:200]})
    for g, (results, fatals, notrun) in zip(groups, outs):
        if g == ("internal", 3):
            ks = [k for k in results if gcases[g][k][0] == "T" and gcases[g][k][1]["prefill"] >= 256 and gcases[g][k][1]["n"] == 13]
            for k in ks[:1]:
                ctx.sample({"backend": "internal", "T": 3, "case": gcases[g][k][1], "observed": results[k][:300]})
    ctx.trusted += [
        "source extractor tools/c01src/gen_src.py over `clang++ -std=c++11 -fsyntax-only -Xclang -ast-dump=json` of TaskScheduler.cpp and of "
        "tools/c01src/inst.cpp (once per tasking define): prints function bodies as terms of coq/C01/SrcLang.v (gen/Src.v, regenerated every run); "
        "SrcLang.eval/exec (C arithmetic wrapped per type) is the reading under which PropertiesSrc.v proves them equal to Model.v",
        "correspondence harness harness/C01/harness.cpp (+ repro25.cpp), case grid and property oracle in props/C01/check.py; g++ -O1, ASan+UBSan "
        "(additional TSan builds of the TBB and OpenMP harnesses run the same value oracle in the thorough tier)",
        "TBB (tbb::parallel_for) and the OpenMP runtime (#pragma omp parallel for schedule(dynamic)) are oracles: their contract 'runs [0,n) once each "
        "and joins' is exercised by the harness, not proved",
        "in the scheduler machine (Model.v) LockLessMultiReadPipe appears as a bag with free write failure; that contract is what the pipe part "
        "proves of the pipe's own micro-step model (Pipe.v / PropertiesPipe.v: hand-off of every written item to exactly one claimant, for every "
        "interleaving) — the two models are composed by this shared contract, not by a single refinement proof",
        "memory visibility at the join is checked at run time only, by value: plain unsynchronised reads right after return (also with a slow last "
        "index).  TSan cannot judge it here: enkiTS synchronises through volatile + compiler barriers, and the installed libgomp / libtbb are not "
        "TSan-instrumented (their join is invisible to TSan, which then reports races on a correct tree); TSan reports are counted in the thorough tier, not judged"]
    ctx.assumptions += [
        "C++11 narrowing of an out-of-range integer to int is modular (implementation-defined; g++/clang behaviour) in to_i32",
        "the ++m_RunningCount / ExecuteRange / --m_RunningCount sequence of the pipe-full branch is one model step (rc is only transiently higher "
        "in the code, which can only delay the waiter's exit)",
        "nested task sets share the pipes; the model keeps one bag of queued pieces per task set (frame theorem enki_nested)"]
