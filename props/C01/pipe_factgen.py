#!/usr/bin/env python3
"""C01/C02 fact extractor for the enkiTS LockLessMultiReadPipe model (coq/C01/Pipe.v).

Reads the clang JSON AST of the INSTANTIATED members of enki::LockLessMultiReadPipe<3, uint32_t>
(rkcommon/tasking/detail/enkiTS/LockLessMultiReadPipe.h + Atomics.h of the given working tree) and writes
gen/PipeFacts.v in the vocabulary of coq/C01/PipeFactsDefs.v:

  src_write / src_reader / src_front : list sstmt   -- WriterTryWriteFront / ReaderTryReadBack / WriterTryReadFront,
        one source statement -> one sstmt, in source order (NO control-flow flattening, NO reordering here:
        that is done by the Gallina function PipeFactsDefs.compile and checked against Pipe.prog_* in Coq)
  the values of FLAG_CAN_WRITE / FLAG_CAN_READ / FLAG_INVALID, the initializers of ms_cSize / ms_cIndexMask,
  the declared types of the members, the bodies of the Atomics.h wrappers AtomicCompareAndSwap (uint32_t) and
  AtomicAdd, the bodies of IsPipeEmpty / Clear / the constructor, the methods' signatures.

Whatever is not recognised is emitted as SUnknown / XUnknown / LUnknown / WUnknown (never dropped), which makes
the obligations of coq/C01/PropertiesPipeFacts.v fail.

API:   generate(repo, incdir, out_v, workdir, log=print) -> (ok, msg)
CLI:   pipe_factgen.py <repo> <incdir> <out.v> <workdir>
"""
import json
import os
import re
import subprocess
import sys
import time

HEADER = "rkcommon/tasking/detail/enkiTS/LockLessMultiReadPipe.h"
K_INST = 3
INST_TU = """// instantiation TU written by props/C01/pipe_factgen.py
#include <stdint.h>
#include "%s"
template class enki::LockLessMultiReadPipe<%d, uint32_t>;
namespace pipefacts_inst {
  inline bool use(::enki::LockLessMultiReadPipe<%d, uint32_t> &p, uint32_t *o, const uint32_t &i)
  {
    bool a = p.WriterTryWriteFront(i);
    bool b = p.WriterTryReadFront(o);
    bool c = p.ReaderTryReadBack(o);
    bool d = p.IsPipeEmpty();
    p.Clear();
    return a && b && c && d;
  }
}
""" % (HEADER, K_INST, K_INST)

GVARS = {"m_WriteIndex": "GW", "m_ReadCount": "GRC", "m_ReadIndex": "GRI"}
METHODS = [("src_write", "WriterTryWriteFront"), ("src_reader", "ReaderTryReadBack"), ("src_front", "WriterTryReadFront")]
ASM_BARRIER = re.compile(r'^__asm__\s+__volatile__\s*\(\s*""\s*:\s*:\s*:\s*"memory"\s*\)$')


# ---------------------------------------------------------------------------------------------- AST loading
def load_docs(path):
    """the dump is several concatenated JSON documents (one per declaration matched by -ast-dump-filter)"""
    txt = open(path).read()
    dec = json.JSONDecoder()
    i, n, docs = 0, len(txt), []
    while i < n:
        while i < n and txt[i] in " \n\r\t":
            i += 1
        if i >= n:
            break
        if txt[i] != "{":
            j = txt.find("\n", i)
            if j < 0:
                break
            i = j + 1
            continue
        d, i = dec.raw_decode(txt, i)
        docs.append(d)
    return docs


def fill_locs(node, st):
    """clang omits "file"/"line" of a source location when equal to the previously printed one: make every
    location explicit (in print order = key order; the state restarts with every document)"""
    if isinstance(node, dict):
        if "offset" in node:
            if "file" in node:
                st["file"] = node["file"]
            else:
                node["file"] = st.get("file")
            if "line" in node:
                st["line"] = node["line"]
            else:
                node["line"] = st.get("line")
        for k, v in node.items():
            if k != "includedFrom":
                fill_locs(v, st)
    elif isinstance(node, list):
        for v in node:
            fill_locs(v, st)


def inner(n):
    return [c for c in (n.get("inner") or []) if isinstance(c, dict) and c and not c.get("kind", "").endswith("Comment")]


def raw_inner(n):
    return [c for c in (n.get("inner") or []) if isinstance(c, dict)]


def qt(n):
    return (n.get("type") or {}).get("qualType", "")


def dqt(n):
    t = n.get("type") or {}
    return t.get("desugaredQualType", t.get("qualType", ""))


def strip_cv(t):
    return " ".join(w for w in t.split() if w not in ("const", "volatile"))


def is_u32(n):
    return strip_cv(dqt(n)) == "unsigned int"


def unparen(n):
    while n.get("kind") == "ParenExpr" and inner(n):
        n = inner(n)[0]
    return n


class Src:
    """source text access (for the comments of the generated file and for the asm text)"""

    def __init__(self, repo):
        self.repo = os.path.abspath(repo)
        self.cache = {}

    def text(self, f):
        if f not in self.cache:
            try:
                self.cache[f] = open(f, "rb").read().decode("utf-8", "replace")
            except OSError:
                self.cache[f] = ""
        return self.cache[f]

    @staticmethod
    def _begin(loc, which):
        return loc.get(which, loc) if ("spellingLoc" in loc or "expansionLoc" in loc) else loc

    def where(self, n):
        """(file relative to the repo, line, text of that line) of the statement as written (macro: the use)"""
        b = self._begin((n.get("range") or {}).get("begin") or {}, "expansionLoc")
        f, ln = b.get("file"), b.get("line")
        if not f or not ln:
            return ("?", 0, "")
        lines = self.text(f).split("\n")
        txt = lines[ln - 1].strip() if 0 < ln <= len(lines) else ""
        rel = os.path.relpath(f, self.repo) if os.path.isabs(f) else f
        return (rel, ln, txt)

    def spelling_text(self, n):
        """the text the node was spelled with (inside the macro definition when it comes from a macro)"""
        r = n.get("range") or {}
        b, e = self._begin(r.get("begin") or {}, "spellingLoc"), self._begin(r.get("end") or {}, "spellingLoc")
        if not b.get("file") or b.get("file") != e.get("file") or "offset" not in b or "offset" not in e:
            return ""
        raw = self.text(b["file"]).encode("utf-8")
        return raw[b["offset"]: e["offset"] + e.get("tokLen", 1)].decode("utf-8", "replace")

    def short(self, n):
        r = n.get("range") or {}
        b, e = self._begin(r.get("begin") or {}, "expansionLoc"), self._begin(r.get("end") or {}, "expansionLoc")
        if not b.get("file") or b.get("file") != e.get("file") or "offset" not in b or "offset" not in e:
            return ""
        raw = self.text(b["file"]).encode("utf-8")
        return " ".join(raw[b["offset"]: e["offset"] + e.get("tokLen", 1)].decode("utf-8", "replace").split())[:80]


# ---------------------------------------------------------------------------------------------- Coq terms
class T(tuple):
    """a constructor application: T(("XVar", "x")); python str -> Coq string, int -> N literal, bool, list, None/Some"""


class Raw(str):
    """emitted verbatim (constructor constants such as GW, XIn)"""


def cstr(s):
    s = "".join(ch if 32 <= ord(ch) < 127 else "?" for ch in s)
    return '"' + s.replace('"', '""') + '"'


def coq(v, top=False):
    if isinstance(v, Raw):
        return str(v)
    if isinstance(v, T):
        if len(v) == 1:
            return v[0]
        s = v[0] + " " + " ".join(coq(a) for a in v[1:])
        return s if top else "(" + s + ")"
    if isinstance(v, bool):
        return "true" if v else "false"
    if isinstance(v, int):
        return str(v) if v >= 0 else "(XUnknown_negative %d)" % v      # cannot happen: literals are unsigned
    if isinstance(v, str):
        return cstr(v)
    if v is None:
        return "None"
    if isinstance(v, Some):
        return "(Some %s)" % coq(v.v)
    if isinstance(v, list):
        return "[" + "; ".join(coq(a, True) for a in v) + "]"
    if isinstance(v, tuple):
        return "(" + ", ".join(coq(a, True) for a in v) + ")"
    raise TypeError(repr(v))


class Some:
    def __init__(self, v):
        self.v = v


def ccomment(s):
    s = "".join(ch if 32 <= ord(ch) < 127 else "?" for ch in s)
    return s.replace('"', "'").replace("(*", "( *").replace("*)", "* )")


# ---------------------------------------------------------------------------------------------- the extractor
class Extract:
    def __init__(self, repo, docs, log):
        self.src = Src(repo)
        self.log = log
        self.notes = []
        self.spec = None
        self.cas32 = self.atomic_add = None
        for d in docs:
            if d.get("kind") == "NamespaceDecl" and d.get("name") == "enki":
                for c in inner(d):
                    if c.get("kind") == "FunctionDecl" and any(x.get("kind") == "CompoundStmt" for x in inner(c)):
                        ptypes = [qt(p) for p in inner(c) if p.get("kind") == "ParmVarDecl"]
                        if c.get("name") == "AtomicCompareAndSwap" and ptypes[:1] == ["volatile uint32_t *"]:
                            self.cas32 = c
                        if c.get("name") == "AtomicAdd":
                            self.atomic_add = c
            if d.get("kind") == "ClassTemplateSpecializationDecl" and d.get("name") == "LockLessMultiReadPipe":
                if any(c.get("kind") == "CXXMethodDecl" and any(x.get("kind") == "CompoundStmt" for x in inner(c)) for c in inner(d)):
                    self.spec = d
        self.fields, self.consts, self.methods, self.ctor = {}, {}, {}, None
        self.targs = []
        if self.spec is not None:
            for c in inner(self.spec):
                k = c.get("kind")
                if k == "TemplateArgument":
                    self.targs.append(c.get("value") if "value" in c else qt(c))
                elif k == "FieldDecl":
                    self.fields[c.get("name")] = c
                elif k == "VarDecl":
                    self.consts[c.get("name")] = c
                elif k == "CXXMethodDecl":
                    self.methods[c.get("name")] = c
                elif k == "CXXConstructorDecl" and not c.get("isImplicit"):
                    self.ctor = c
        self.const_by_id = {c.get("id"): c for c in self.consts.values()}
        self.field_by_id = {c.get("id"): c for c in self.fields.values()}
        self.kcache = {}

    # ------------------------------------------------------------------ constant initializers
    def kexp(self, n):
        """initializer of a static const member -> (sexp term, python value or None)"""
        n = unparen(n)
        k = n.get("kind")
        ch = inner(n)
        if k in ("ImplicitCastExpr",) and n.get("castKind") in ("IntegralCast", "LValueToRValue", "NoOp") and ch:
            t, v = self.kexp(ch[0])
            if v is not None and n.get("castKind") == "IntegralCast":
                ty = strip_cv(dqt(n))
                if ty == "unsigned int":
                    v %= 1 << 32
                elif ty != "int" or not (-(1 << 31) <= v < (1 << 31)):
                    return (T(("XUnknown", "cast to " + ty)), None)
            return (t, v)
        if k in ("ConstantExpr",) and ch:
            return self.kexp(ch[0])
        if k == "IntegerLiteral":
            v = int(n.get("value"))
            return (T(("XLit", v)), v)
        if k == "SubstNonTypeTemplateParmExpr":
            nm, val = None, None
            for c in ch:
                if c.get("kind") == "NonTypeTemplateParmDecl":
                    nm = c.get("name")
                elif c.get("kind") in ("CharacterLiteral", "IntegerLiteral"):
                    val = int(c.get("value"))
            if nm is not None and val is not None and val >= 0:
                return (T(("XTParam", nm, val)), val)
            return (T(("XUnknown", "template argument")), None)
        if k == "DeclRefExpr":
            r = n.get("referencedDecl") or {}
            c = self.const_by_id.get(r.get("id"))
            if c is not None:
                v = self.kvalue(c.get("name"))
                if v is not None:
                    return (T(("XConst", c.get("name"), v)), v)
            return (T(("XUnknown", "reference to " + str(r.get("name")))), None)
        if k == "BinaryOperator" and len(ch) == 2 and n.get("opcode") in ("<<", "-", "+", "&"):
            (ta, va), (tb, vb) = self.kexp(ch[0]), self.kexp(ch[1])
            op = n.get("opcode")
            v = None
            if va is not None and vb is not None:
                if op == "<<" and 0 <= vb < 31:
                    v = va << vb
                elif op == "-":
                    v = va - vb
                elif op == "+":
                    v = va + vb
                elif op == "&":
                    v = va & vb
                if v is not None and strip_cv(dqt(n)) == "unsigned int":
                    v %= 1 << 32
            return (T(({"<<": "XShl", "-": "XSub", "+": "XAdd", "&": "XAnd"}[op], ta, tb)), v)
        return (T(("XUnknown", "%s %s" % (k, self.src.short(n)))), None)

    def kinit(self, name):
        if name in self.kcache:
            return self.kcache[name]
        self.kcache[name] = (T(("XUnknown", "cyclic")), None)
        c = self.consts.get(name)
        res = (T(("XUnknown", "no such static const member " + name)), None)
        if c is not None:
            ini = inner(c)
            if c.get("init") == "c" and len(ini) == 1 and strip_cv(dqt(c)) == "unsigned int" and "const" in qt(c).split():
                t, v = self.kexp(ini[0])
                if v is not None:
                    v %= 1 << 32
                res = (t, v)
            else:
                res = (T(("XUnknown", "initializer of " + name)), None)
        self.kcache[name] = res
        return res

    def kvalue(self, name):
        return self.kinit(name)[1]

    # ------------------------------------------------------------------ expressions of the method bodies
    def member_of_this(self, n):
        """MemberExpr on (implicit) this -> field name, else None"""
        if n.get("kind") != "MemberExpr" or n.get("isArrow") is False:
            return None
        ch = inner(n)
        if len(ch) != 1 or ch[0].get("kind") != "CXXThisExpr":
            return None
        f = self.field_by_id.get(n.get("referencedMemberDecl"))
        if f is None or f.get("name") != n.get("name"):
            return None
        return n.get("name")

    def array_elem(self, n):
        """ArraySubscriptExpr m_Flags[i] / m_Buffer[i] -> ('m_Flags'|'m_Buffer', index node) else None"""
        if n.get("kind") != "ArraySubscriptExpr":
            return None
        ch = inner(n)
        if len(ch) != 2:
            return None
        b = ch[0]
        if b.get("kind") != "ImplicitCastExpr" or b.get("castKind") != "ArrayToPointerDecay" or len(inner(b)) != 1:
            return None
        m = self.member_of_this(inner(b)[0])
        if m not in ("m_Flags", "m_Buffer"):
            return None
        return (m, ch[1])

    def unk(self, n, why=""):
        s = "%s%s: %s" % (n.get("kind"), (" " + why) if why else "", self.src.short(n))
        self.notes.append("unrecognised expression %s:%d %s" % (self.src.where(n)[:2] + (s,)))
        return T(("XUnknown", s))

    def lvalue_read(self, n):
        """the value of an lvalue (operand of an LValueToRValue conversion)"""
        n = unparen(n)
        k = n.get("kind")
        if k == "DeclRefExpr":
            r = n.get("referencedDecl") or {}
            if r.get("kind") == "VarDecl":
                c = self.const_by_id.get(r.get("id"))
                if c is not None:
                    v = self.kvalue(c.get("name"))
                    if v is None:
                        return self.unk(n, "static const member without a computable value")
                    return T(("XConst", c.get("name"), v))
                if r.get("id") in self.locals and is_u32(n) and "volatile" not in dqt(n).split():
                    return T(("XVar", r.get("name")))
                return self.unk(n, "variable")
            if r.get("kind") == "ParmVarDecl" and r.get("name") == "in" and is_u32(n) and "volatile" not in dqt(n).split():
                return T(("XIn",))
            return self.unk(n)
        m = self.member_of_this(n)
        if m in GVARS and is_u32(n):
            return T(("XMem", Raw(GVARS[m])))
        ae = self.array_elem(n)
        if ae is not None and is_u32(n):
            return T(("XFlags" if ae[0] == "m_Flags" else "XBuf", self.xexp(ae[1])))
        return self.unk(n, "lvalue")

    def xexp(self, n):
        n = unparen(n)
        k = n.get("kind")
        ch = inner(n)
        if k == "ImplicitCastExpr" and len(ch) == 1:
            ck = n.get("castKind")
            if ck == "LValueToRValue" and is_u32(n):
                return self.lvalue_read(ch[0])
            if ck == "IntegralCast" and is_u32(n):
                lit = unparen(ch[0])
                if lit.get("kind") == "IntegerLiteral" and 0 <= int(lit.get("value")) < (1 << 32):
                    return T(("XLit", int(lit.get("value"))))
            return self.unk(n, ck or "")
        if k == "BinaryOperator" and len(ch) == 2:
            op = n.get("opcode")
            if op in ("-", "+", "&") and is_u32(n) and is_u32(ch[0]) and is_u32(ch[1]):
                return T(({"-": "XSub", "+": "XAdd", "&": "XAnd"}[op], self.xexp(ch[0]), self.xexp(ch[1])))
            if op in ("==", "!=", ">=", ">") and dqt(n) == "bool" and is_u32(ch[0]) and is_u32(ch[1]):
                return T(({"==": "XEq", "!=": "XNe", ">=": "XGe", ">": "XGt"}[op], self.xexp(ch[0]), self.xexp(ch[1])))
            if op == "||" and dqt(n) == "bool" and dqt(ch[0]) == "bool" and dqt(ch[1]) == "bool":
                return T(("XOr", self.xexp(ch[0]), self.xexp(ch[1])))
            return self.unk(n, "operator " + str(op))
        if k == "CallExpr" and ch:
            cal = self.callee(ch[0])
            if cal is not None and self.cas32 is not None and cal.get("id") == self.cas32.get("id") and len(ch) == 4:
                a0 = unparen(ch[1])
                if a0.get("kind") == "UnaryOperator" and a0.get("opcode") == "&" and len(inner(a0)) == 1:
                    ae = self.array_elem(unparen(inner(a0)[0]))
                    if ae is not None and ae[0] == "m_Flags":
                        return T(("XCas", self.xexp(ae[1]), self.xexp(ch[2]), self.xexp(ch[3])))
                return self.unk(n, "compare-and-swap on something else than &m_Flags[..]")
            return self.unk(n, "call")
        return self.unk(n)

    @staticmethod
    def callee(n):
        if n.get("kind") == "ImplicitCastExpr" and n.get("castKind") in ("FunctionToPointerDecay", "BuiltinFnToFnPtr") and len(inner(n)) == 1:
            n = inner(n)[0]
            if n.get("kind") == "DeclRefExpr":
                return n.get("referencedDecl") or {}
        return None

    def lhs(self, n):
        n = unparen(n)
        k = n.get("kind")
        if k == "DeclRefExpr":
            r = n.get("referencedDecl") or {}
            if r.get("kind") == "VarDecl" and r.get("id") in self.locals and is_u32(n) and "const" not in dqt(n).split():
                return T(("LVar", r.get("name")))
        m = self.member_of_this(n)
        if m in GVARS and is_u32(n):
            return T(("LMem", Raw(GVARS[m])))
        ae = self.array_elem(n)
        if ae is not None and is_u32(n):
            return T(("LFlags" if ae[0] == "m_Flags" else "LBuf", self.xexp(ae[1])))
        if k == "UnaryOperator" and n.get("opcode") == "*" and len(inner(n)) == 1:
            p = inner(n)[0]
            if p.get("kind") == "ImplicitCastExpr" and p.get("castKind") == "LValueToRValue" and len(inner(p)) == 1:
                d = unparen(inner(p)[0])
                r = d.get("referencedDecl") or {}
                if d.get("kind") == "DeclRefExpr" and r.get("kind") == "ParmVarDecl" and r.get("name") == "pOut" and is_u32(n):
                    return T(("LOut",))
        s = "%s: %s" % (k, self.src.short(n))
        self.notes.append("unrecognised assignment target %s:%d %s" % (self.src.where(n)[:2] + (s,)))
        return T(("LUnknown", s))

    # ------------------------------------------------------------------ statements
    def sunk(self, n, why=""):
        s = "%s%s: %s" % (n.get("kind"), (" " + why) if why else "", self.src.short(n))
        self.notes.append("unrecognised statement %s:%d %s" % (self.src.where(n)[:2] + (s,)))
        return T(("SUnknown", s))

    def flags_whole(self, dst, size):
        """(void*)m_Flags  and  sizeof( m_Flags )"""
        d = unparen(dst)
        if d.get("kind") != "CStyleCastExpr" or qt(d) != "void *" or len(inner(d)) != 1:
            return False
        d = inner(d)[0]
        while d.get("kind") == "ImplicitCastExpr" and d.get("castKind") in ("BitCast", "ArrayToPointerDecay", "NoOp") and len(inner(d)) == 1:
            d = inner(d)[0]
        if self.member_of_this(d) != "m_Flags":
            return False
        s = unparen(size)
        while s.get("kind") == "ImplicitCastExpr" and len(inner(s)) == 1:
            s = inner(s)[0]
        if s.get("kind") != "UnaryExprOrTypeTraitExpr" or s.get("name") != "sizeof" or len(inner(s)) != 1:
            return False
        return self.member_of_this(unparen(inner(s)[0])) == "m_Flags"

    def stmt(self, n):
        """one source statement -> one sstmt"""
        k = n.get("kind")
        ch = inner(n)
        rch = raw_inner(n)
        if k == "DeclStmt":
            if len(ch) != 1 or ch[0].get("kind") != "VarDecl":
                return self.sunk(n, "declaration of several names")
            d = ch[0]
            if d.get("storageClass") or d.get("constexpr"):
                return self.sunk(n, "storage class")
            self.locals.add(d.get("id"))
            ini = inner(d)
            if not ini and "init" not in d:
                return T(("SDecl", qt(d), d.get("name"), None))
            if d.get("init") == "c" and len(ini) == 1:
                return T(("SDecl", qt(d), d.get("name"), Some(self.xexp(ini[0]))))
            return self.sunk(n, "initializer style")
        if k == "BinaryOperator" and n.get("opcode") == "=" and len(ch) == 2:
            return T(("SAssign", self.lhs(ch[0]), self.xexp(ch[1])))
        if k == "UnaryOperator" and n.get("opcode") in ("++", "--") and len(ch) == 1:
            if n.get("isPostfix"):
                return self.sunk(n, "postfix")
            return T(("SPreInc" if n.get("opcode") == "++" else "SPreDec", self.lhs(ch[0])))
        if k == "CallExpr" and ch:
            cal = self.callee(ch[0]) or {}
            if self.atomic_add is not None and cal.get("id") == self.atomic_add.get("id") and len(ch) == 3:
                a0, a1 = unparen(ch[1]), unparen(ch[2])
                while a1.get("kind") == "ImplicitCastExpr" and a1.get("castKind") == "IntegralCast" and len(inner(a1)) == 1 and strip_cv(dqt(a1)) == "int":
                    a1 = unparen(inner(a1)[0])
                if a0.get("kind") == "CStyleCastExpr" and a0.get("castKind") == "BitCast" and qt(a0) == "volatile int32_t *" and len(inner(a0)) == 1:
                    u = unparen(inner(a0)[0])
                    if u.get("kind") == "UnaryOperator" and u.get("opcode") == "&" and len(inner(u)) == 1:
                        m = self.member_of_this(unparen(inner(u)[0]))
                        if m in GVARS:
                            amt = T(("XLit", int(a1.get("value")))) if a1.get("kind") == "IntegerLiteral" and int(a1.get("value")) >= 0 else self.unk(a1, "amount")
                            return T(("SAtomicAdd", Raw(GVARS[m]), amt))
                return self.sunk(n, "AtomicAdd on something else than a volatile index member")
            if cal.get("name") == "memset" and len(ch) == 4:
                v = unparen(ch[2])
                if self.flags_whole(ch[1], ch[3]) and v.get("kind") == "IntegerLiteral" and int(v.get("value")) >= 0:
                    return T(("SMemsetFlags", int(v.get("value"))))
                return self.sunk(n, "memset")
            return self.sunk(n, "call")
        if k == "ParenExpr" and len(ch) == 1 and ch[0].get("kind") == "ConditionalOperator":
            # glibc assert(): ((cond) ? (void)0 : __assert_fail("cond", file, line, func))
            parts = inner(ch[0])
            if len(parts) == 3 and parts[2].get("kind") == "CallExpr" and (self.callee(inner(parts[2])[0]) or {}).get("name") == "__assert_fail":
                text = ""
                for a in inner(parts[2])[1:2]:
                    while a.get("kind") == "ImplicitCastExpr" and inner(a):
                        a = inner(a)[0]
                    if a.get("kind") == "StringLiteral":
                        try:
                            text = json.loads(a.get("value"))
                        except (ValueError, TypeError):
                            text = str(a.get("value"))
                return T(("SAssert", text))
            return self.sunk(n)
        if k == "IfStmt":
            if n.get("hasInit") or n.get("hasVar") or len(rch) != len(ch) or len(ch) not in (2, 3) or (len(ch) == 3) != bool(n.get("hasElse")) \
                    or n.get("isConstexpr"):
                return self.sunk(n, "if with init/variable")
            return T(("SIf", self.xexp(ch[0]), self.block(ch[1]), Some(self.block(ch[2])) if len(ch) == 3 else None))
        if k == "WhileStmt":
            if n.get("hasVar") or len(rch) != 2 or len(ch) != 2:
                return self.sunk(n, "while with variable")
            c = unparen(ch[0])
            if c.get("kind") == "CXXBoolLiteralExpr" and c.get("value") is True:
                return T(("SWhileTrue", self.block(ch[1])))
            return self.sunk(n, "while with a condition")
        if k == "BreakStmt":
            return T(("SBreak",))
        if k == "ReturnStmt":
            if len(ch) == 1:
                e = unparen(ch[0])
                if e.get("kind") == "CXXBoolLiteralExpr" and isinstance(e.get("value"), bool):
                    return T(("SReturn", e.get("value")))
                return T(("SReturnE", self.xexp(ch[0])))
            return self.sunk(n, "return without value")
        if k == "GCCAsmStmt":
            text = " ".join(self.src.spelling_text(n).split())
            if ASM_BARRIER.match(text):
                return T(("SBarrier",))
            return self.sunk(n, "asm [" + text + "]")
        return self.sunk(n)

    def block(self, n):
        """{ s1 ... sn } -> [s1; ...; sn]; a single statement -> [s]"""
        if n.get("kind") == "CompoundStmt":
            return Block([(c, self.stmt(c)) for c in inner(n)])
        return Block([(n, self.stmt(n))])

    def body(self, fn):
        self.locals = set()
        for c in inner(fn):
            if c.get("kind") == "CompoundStmt":
                return self.block(c)
        return None

    # ------------------------------------------------------------------ wrappers of Atomics.h
    def wrapper(self, fn):
        if fn is None:
            return ("", [], [({}, T(("WUnknown", "function not found")))])
        ret = qt(fn).split("(")[0].strip()
        params = [(p.get("name") or "", qt(p)) for p in inner(fn) if p.get("kind") == "ParmVarDecl"]
        pid = {p.get("id"): p.get("name") for p in inner(fn) if p.get("kind") == "ParmVarDecl"}
        out = []
        for c in inner(fn):
            if c.get("kind") != "CompoundStmt":
                continue
            for s in inner(c):
                w = None
                if s.get("kind") == "ReturnStmt" and len(inner(s)) == 1:
                    e = unparen(inner(s)[0])
                    if e.get("kind") == "CallExpr" and inner(e):
                        cal = self.callee(inner(e)[0])
                        args = []
                        for a in inner(e)[1:]:
                            a = unparen(a)
                            if a.get("kind") == "ImplicitCastExpr" and a.get("castKind") == "LValueToRValue" and len(inner(a)) == 1:
                                a = unparen(inner(a)[0])
                                r = a.get("referencedDecl") or {}
                                if a.get("kind") == "DeclRefExpr" and r.get("id") in pid:
                                    args.append(pid[r.get("id")])
                                    continue
                            args = None
                            break
                        if cal is not None and cal.get("name") and args is not None and qt(e) == ret:
                            w = T(("WReturnCall", cal.get("name"), list(args)))
                if w is None:
                    w = T(("WUnknown", "%s: %s" % (s.get("kind"), self.src.short(s))))
                    self.notes.append("unrecognised wrapper statement %s:%d" % self.src.where(s)[:2])
                out.append((s, w))
        return (ret, params, out)


class Block(list):
    """[(ast node, sstmt term)]"""


# ---------------------------------------------------------------------------------------------- printing
def emit_block(ex, blk, ind):
    """pretty-print a statement list, one statement per line with a file:line comment"""
    pad = " " * ind
    if not blk:
        return "[]"
    lines = []
    for i, (node, t) in enumerate(blk):
        f, ln, txt = ex.src.where(node)
        lead = pad + ("[ " if i == 0 else "; ")
        lines.append(pad + "  (* %s:%d  %s *)" % (ccomment(os.path.basename(f)), ln, ccomment(txt)))
        lines.append(lead + emit_stmt(ex, t, ind + 2))
    lines.append(pad + "]")
    return "\n" + "\n".join(lines)


def emit_stmt(ex, t, ind):
    if t[0] == "SIf":
        s = "SIf %s (%s)" % (coq(t[1]), emit_block(ex, t[2], ind + 2))
        if t[3] is None:
            return s + " None"
        return s + " (Some (%s))" % emit_block(ex, t[3].v, ind + 2)
    if t[0] == "SWhileTrue":
        return "SWhileTrue (%s)" % emit_block(ex, t[1], ind + 2)
    return coq(t, True)


def comment_of(ex, node):
    f, ln, txt = ex.src.where(node)
    return "(* %s:%d  %s *)" % (ccomment(f), ln, ccomment(txt))


def render(ex, repo):
    o = []
    w = o.append
    w("(* GENERATED by props/C01/pipe_factgen.py from the clang AST of")
    w("   %s (+ Atomics.h), instantiation LockLessMultiReadPipe<%d, uint32_t> -- do not edit. *)" % (HEADER, K_INST))
    w("From Coq Require String.")
    w("From Common Require Import Prelude.")
    w("From C01 Require Import Pipe PipeFactsDefs.")
    w("Import String.StringSyntax.")
    w("Local Open Scope string_scope.")
    w("Local Open Scope list_scope.")
    w("Local Open Scope N_scope.")
    w("")
    w("(* template arguments of the instantiation *)")
    k = ex.targs[0] if ex.targs and isinstance(ex.targs[0], int) and ex.targs[0] >= 0 else None
    w("Definition inst_cSizeLog2 : option N := %s." % ("Some %d" % k if k is not None else "None"))
    w("Definition inst_T : string := %s." % cstr(str(ex.targs[1]) if len(ex.targs) > 1 else "?"))
    w("")
    w("(* ---- static const members: initializer (shape) and value *)")
    for nm in ("FLAG_CAN_WRITE", "FLAG_CAN_READ", "FLAG_INVALID", "ms_cSize", "ms_cIndexMask"):
        t, v = ex.kinit(nm)
        c = ex.consts.get(nm)
        if c is not None:
            w(comment_of(ex, c))
        w("Definition %s_init : sexp := %s." % (nm, coq(t, True)))
        w("Definition %s_v : option N := %s." % (nm, "Some %d" % v if v is not None else "None"))
        w("Definition %s_ty : string * string := (%s, %s)." % (nm, cstr(qt(c) if c else "?"), cstr(dqt(c) if c else "?")))
    w("")
    w("(* ---- data members: declared type (as written, desugared) *)")
    for nm in ("m_WriteIndex", "m_ReadCount", "m_ReadIndex", "m_Flags", "m_Buffer"):
        c = ex.fields.get(nm)
        if c is not None:
            w(comment_of(ex, c))
        w("Definition %s_ty : string * string := (%s, %s)." % (nm, cstr(qt(c) if c else "?"), cstr(dqt(c) if c else "?")))
    w("Definition member_names : list string := %s." % coq(list(ex.fields.keys())))
    w("")
    w("(* ---- Atomics.h wrappers *)")
    for nm, fn in (("cas", ex.cas32), ("add", ex.atomic_add)):
        ret, params, body = ex.wrapper(fn)
        if fn is not None:
            w(comment_of(ex, fn))
        w("Definition %s_ret : string := %s." % (nm, cstr(ret)))
        w("Definition %s_params : list (string * string) := %s." % (nm, coq([(a, b) for a, b in params])))
        w("Definition %s_body : list wstmt :=" % nm)
        if not body:
            w("  [].")
        else:
            for i, (node, t) in enumerate(body):
                w("  " + comment_of(ex, node))
                w("  %s %s" % ("[" if i == 0 else ";", coq(t, True)))
            w("  ].")
    w("")
    w("(* ---- the three methods: one source statement -> one sstmt, in source order *)")
    for name, meth in METHODS:
        fn = ex.methods.get(meth)
        params = [(p.get("name") or "", qt(p)) for p in (inner(fn) if fn is not None else []) if p.get("kind") == "ParmVarDecl"]
        w("Definition sig_%s : string * list (string * string) := (%s, %s)." % (name[4:], cstr(qt(fn) if fn else "?"), coq(params)))
        blk = ex.body(fn) if fn is not None else None
        if blk is None:
            blk = Block([({}, T(("SUnknown", "no instantiated body of " + meth)))])
            ex.notes.append("no instantiated body of " + meth)
        w("(* bool LockLessMultiReadPipe::%s *)" % meth)
        w("Definition %s : list sstmt :=%s." % (name, emit_block(ex, blk, 2)))
        w("")
    for name, meth in (("src_is_pipe_empty", "IsPipeEmpty"), ("src_clear", "Clear")):
        fn = ex.methods.get(meth)
        blk = ex.body(fn) if fn is not None else None
        if blk is None:
            blk = Block([({}, T(("SUnknown", "no instantiated body of " + meth)))])
            ex.notes.append("no instantiated body of " + meth)
        w("Definition sig_%s : string := %s." % (name[4:], cstr(qt(fn) if fn else "?")))
        w("Definition %s : list sstmt :=%s." % (name, emit_block(ex, blk, 2)))
        w("")
    w("(* ---- the constructor *)")
    inits = []
    blk = None
    if ex.ctor is not None:
        ex.locals = set()
        for c in inner(ex.ctor):
            if c.get("kind") == "CXXCtorInitializer":
                who = (c.get("anyInit") or {}).get("name") or "?"
                ini = inner(c)
                inits.append((who, ex.xexp(ini[0]) if len(ini) == 1 else T(("XUnknown", "initializer"))))
        blk = ex.body(ex.ctor)
    if blk is None:
        blk = Block([({}, T(("SUnknown", "no instantiated constructor body")))])
        ex.notes.append("no instantiated constructor body")
    w("Definition ctor_inits : list (string * sexp) := %s." % coq([(a, b) for a, b in inits]))
    w("Definition ctor_body : list sstmt :=%s." % emit_block(ex, blk, 2))
    return "\n".join(o) + "\n"


# ---------------------------------------------------------------------------------------------- entry points
def generate(repo, incdir, out_v, workdir, log=print):
    """Dump the AST of the instantiation against the tree `repo` (generated headers in `incdir`), write `out_v`.
    Returns (ok, msg): ok=False only when no file could be written (clang failed / header missing); things that
    are not recognised are IN the file as S/X/L/WUnknown and fail the Coq obligations."""
    t0 = time.time()
    try:
        os.makedirs(workdir, exist_ok=True)
        os.makedirs(os.path.dirname(os.path.abspath(out_v)), exist_ok=True)
        if not os.path.exists(os.path.join(repo, HEADER)):
            return (False, "missing " + os.path.join(repo, HEADER))
        tu = os.path.join(workdir, "pipe_inst.cpp")
        with open(tu, "w") as f:
            f.write(INST_TU)
        ast = os.path.join(workdir, "ast_pipe_enki.json")
        cmd = ["clang++", "-std=c++11", "-I" + repo, "-I" + incdir, "-fsyntax-only", "-Xclang", "-ast-dump=json",
               "-Xclang", "-ast-dump-filter=enki", tu]
        with open(ast, "w") as f:
            p = subprocess.run(cmd, stdout=f, stderr=subprocess.PIPE, timeout=180, universal_newlines=True)
        if p.returncode != 0:
            return (False, "clang failed: " + p.stderr[-1500:])
        docs = load_docs(ast)
        for d in docs:
            fill_locs(d, {})
        ex = Extract(repo, docs, log)
        if ex.spec is None:
            return (False, "no instantiated LockLessMultiReadPipe<%d, uint32_t> in the AST dump" % K_INST)
        text = render(ex, repo)
        tmp = out_v + ".tmp"
        with open(tmp, "w") as f:
            f.write(text)
        os.replace(tmp, out_v)
        for n in ex.notes[:20]:
            log("pipe_factgen: " + n)
        msg = "wrote %s (%d docs, %d unrecognised, %.2fs)" % (out_v, len(docs), len(ex.notes), time.time() - t0)
        return (True, msg)
    except Exception as e:  # noqa: BLE001  (fail closed: the caller records a broken correspondence)
        return (False, "pipe_factgen: %s: %s" % (type(e).__name__, e))


if __name__ == "__main__":
    if len(sys.argv) != 5:
        sys.stderr.write("usage: pipe_factgen.py <repo> <incdir> <out.v> <workdir>\n")
        sys.exit(2)
    ok_, msg_ = generate(sys.argv[1], sys.argv[2], sys.argv[3], sys.argv[4])
    print(msg_)
    sys.exit(0 if ok_ else 1)
