#!/usr/bin/env python3
"""C03 fact extractor (Tie C): reads the clang JSON AST of rkcommon/tasking/AsyncLoop.h in the working tree
(compiled with RKCOMMON_VERIF so that the scheduling points are present as position markers) and writes
coq/C03/gen/Facts.v -- for the loop functor, start(), stop() and the destructor the ORDERED micro-operations in
the vocabulary of coq/C03/FactsDefs.v, the member declarations as closed lists, and the constructor's
ownership / launch-resolution facts.  Anything it does not recognise becomes SUnknown / CUnknown / PUnknown /
TOther / a failed constructor fact, which makes the obligations of coq/C03/PropertiesFacts.v fail (fail closed).

Harmless rewrites absorbed: brace / paren noise, `x = v` vs `x.store(v)` (default or explicit seq_cst order),
implicit conversion vs `.load()`, `!x` vs `x == false`, lock_guard vs unique_lock (same extent),
notify_one vs notify_all (single waiter), a one-statement block vs the statement.

usage: factgen.py [--repo DIR] [--out Facts.v] [--json facts.json] [--work DIR]
"""
import json
import os
import sys

HERE = os.path.dirname(os.path.abspath(__file__))
sys.path.insert(0, os.path.join(os.path.dirname(os.path.dirname(HERE)), "tools", "sxast"))
import sxast  # noqa: E402
from sxast import inner, ex, st  # noqa: E402

INST = '''#define RKCOMMON_VERIF 1
#include "rkcommon/tasking/AsyncLoop.h"
namespace c03inst { struct Body { void operator()() const {} }; }
rkcommon::tasking::AsyncLoop *c03_make(c03inst::Body b, rkcommon::tasking::AsyncLoop::LaunchMethod m)
{ return new rkcommon::tasking::AsyncLoop(b, m); }
'''
FLAGS = {"threadShouldBeAlive": "FAlive", "shouldBeRunning": "FRun", "insideLoopBody": "FInside"}
STATE_BASES = (("mem", "loop", "this"), ("ref", "l", "VarDecl"))
MUTEX_TYPES = ("std::unique_lock<std::mutex>", "std::lock_guard<std::mutex>")


def find(n, pred, acc=None):
    acc = [] if acc is None else acc
    if isinstance(n, dict):
        if pred(n):
            acc.append(n)
        for c in n.get("inner") or []:
            find(c, pred, acc)
    return acc


def state_member(e, name=None):
    """loop->NAME / l->NAME: returns NAME"""
    if isinstance(e, tuple) and len(e) == 3 and e[0] == "mem" and isinstance(e[2], tuple) and e[2][:2] == ("op", "operator->") \
            and len(e[2]) == 3 and e[2][2] in STATE_BASES:
        return e[1] if name is None or e[1] == name else None
    return None


def seq_cst(args):
    return args == () or (len(args) == 1 and isinstance(args[0], tuple) and args[0][:2] == ("ref", "memory_order_seq_cst"))


def load_of(e):
    """a seq_cst load of a flag -> its Coq name"""
    if isinstance(e, tuple) and e and e[0] == "mcall" and len(e) >= 3 and e[1] in ("operator bool", "load") and seq_cst(tuple(e[3:])):
        return FLAGS.get(state_member(e[2]))
    return None


def cond(e):
    f = load_of(e)
    if f:
        return "(CLoad %s)" % f
    if isinstance(e, tuple) and e[:3] == ("un", "!", "pre") and load_of(e[3]):
        return "(CNot %s)" % load_of(e[3])
    if isinstance(e, tuple) and e[:2] == ("bin", "==") and load_of(e[2]) and e[3] == ("bool", False):
        return "(CNot %s)" % load_of(e[2])
    if isinstance(e, tuple) and e[:2] == ("bin", "==") and load_of(e[2]) and e[3] == ("bool", True):
        return "(CLoad %s)" % load_of(e[2])
    return "CUnknown"


def q(s):
    return '"%s"' % str(s).replace('"', "'")[:120]


def pexp(e):
    f = load_of(e)
    if f:
        return "(PLoad %s)" % f
    if isinstance(e, tuple) and e[:3] == ("un", "!", "pre") and load_of(e[3]):
        return "(PNotLoad %s)" % load_of(e[3])
    if isinstance(e, tuple) and e[:2] == ("bin", "||"):
        a, b = e[2], e[3]
        # (A || (point(p), false)) || B   =   A || (point p; B)
        if isinstance(a, tuple) and a[:2] == ("bin", "||") and isinstance(a[3], tuple) and a[3][:2] == ("bin", ",") \
                and isinstance(a[3][2], tuple) and a[3][2][:2] == ("call", "point") and a[3][3] == ("bool", False):
            return "(POr %s (PThen %s %s))" % (pexp(a[2]), q(a[3][2][2][1]), pexp(b))
        return "(POr %s %s)" % (pexp(a), pexp(b))
    return "PUnknown"


class Ctx:
    def __init__(self):
        self.lambdas = []      # raw LambdaExpr nodes inside the loop functor, document order
        self.notes = []


def wait_stmt(cx, args):
    """args of runningCond.wait(...): (lock, predicate lambda)"""
    if len(args) != 2 or args[0] != ("ref", "lock", "VarDecl") or args[1] != ("?", "LambdaExpr") or not cx.lambdas:
        return 'SUnknown "wait: unexpected arguments"'
    lam = cx.lambdas[0]
    body = [c for c in inner(lam) if c.get("kind") == "CompoundStmt"]
    b = st(body[0])[1] if body else []
    enter, valp, pred = "", "", "PUnknown"
    if len(b) == 2 and b[0][:1] == ("expr",) and b[0][1][:2] == ("call", "point"):
        enter = b[0][1][2][1]
        b = b[1:]
    if len(b) == 1 and b[0][0] == "ret" and b[0][1] is not None:
        r = b[0][1]
        if isinstance(r, tuple) and r[:2] == ("call", "value") and len(r) == 4 and r[2][0] == "str" and r[3][0] == "callx":
            valp = r[2][1]
            inl = find(body[0], lambda n: n.get("kind") == "LambdaExpr")
            ib = [c for c in inner(inl[0]) if c.get("kind") == "CompoundStmt"] if inl else []
            ibs = st(ib[0])[1] if ib else []
            if len(ibs) == 1 and ibs[0][0] == "ret" and ibs[0][1] is not None:
                pred = pexp(ibs[0][1])
        else:
            pred = pexp(r)
    return "SWait %s %s %s" % (q(enter), q(valp), pred)


def stmt(cx, s):
    while isinstance(s, tuple) and s and s[0] == "block" and len(s[1]) == 1 and s[1][0][0] != "decl":
        s = s[1][0]                      # a one-statement block (no declaration in it) is the statement
    k = s[0] if isinstance(s, tuple) and s else None
    if k == "expr":
        e = s[1]
        if e[:2] == ("call", "point") and len(e) == 3 and e[2][0] == "str":
            return "SPoint %s" % q(e[2][1])
        if e[:2] == ("op", "operator=") and len(e) == 4 and FLAGS.get(state_member(e[2])) and e[3][0] == "bool":
            return "SStore %s %s" % (FLAGS[state_member(e[2])], "true" if e[3][1] else "false")
        if e[:2] == ("mcall", "store") and len(e) >= 4 and FLAGS.get(state_member(e[2])) and e[3][0] == "bool" and seq_cst(tuple(e[4:])):
            return "SStore %s %s" % (FLAGS[state_member(e[2])], "true" if e[3][1] else "false")
        if e[0] == "mcall" and e[1] in ("notify_one", "notify_all") and len(e) == 3 and state_member(e[2], "runningCond"):
            return "SNotify"
        if e == ("call", "fcn"):
            return "SBody"
        if e == ("call", "yield"):
            return "SYield"
        if e[0] == "mcall" and e[1] == "wait" and state_member(e[2], "runningCond"):
            return wait_stmt(cx, tuple(e[3:]))
        if e[0] == "callx" and e[1] == ("?", "UnresolvedMemberExpr") and cx.wait_unresolved_ok:
            return wait_stmt(cx, tuple(e[2:]))
        return "SUnknown %s" % q(repr(e))
    if k == "decl":
        ty, ini = s[2], s[3]
        if "scope_point" in ty and isinstance(ini, tuple) and ini[0] == "construct" and len(ini) == 3 and ini[2][0] == "str":
            return "SScope %s" % q(ini[2][1])
        if ty in MUTEX_TYPES and isinstance(ini, tuple) and ini[0] == "construct" and len(ini) == 3 and state_member(ini[2], "runningMutex"):
            return "SLock"
        return "SUnknown %s" % q("declaration %s : %s" % (s[1], ty))
    if k == "if":
        c, t, e = s[1], s[2], s[3]
        if c == ("mcall", "joinable", ("mem", "backgroundThread", "this")) and e is None:
            tt = t
            while isinstance(tt, tuple) and tt[0] == "block" and len(tt[1]) == 1:
                tt = tt[1][0]
            if tt == ("expr", ("mcall", "join", ("mem", "backgroundThread", "this"))):
                return "SJoinIfJoinable"
        return "SIf %s %s %s" % (cond(c), block(cx, t), block(cx, e))
    if k == "while":
        return "SWhile %s %s" % (cond(s[1]), block(cx, s[2]))
    if k == "block":
        return "SBlock %s" % block(cx, s)
    if k == "ret" and s[1] is None:
        return "SReturn"
    return "SUnknown %s" % q(repr(s)[:100])


def block(cx, b):
    if b is None:
        return "BNil"
    items = b[1] if isinstance(b, tuple) and b and b[0] == "block" else [b]
    out = "BNil"
    for s in reversed(items):
        out = "(BCons (%s) %s)" % (stmt(cx, s), out)
    return out


def mtype(ty, ini):
    if ty == "std::atomic<bool>":
        if ini and ini[0][0] in ("construct", "initlist") and len(ini[0]) >= 2 and ini[0][-1][0] == "bool":
            return "TAtomicBool %s" % ("true" if ini[0][-1][1] else "false")
        return 'TOther "std::atomic<bool> without a constant initialiser"'
    return {"std::mutex": "TMutex", "std::condition_variable": "TCondVar", "std::thread": "TThread",
            "std::shared_ptr<AsyncLoopData>": "TSharedData"}.get(ty, "TOther %s" % q(ty))


METHODS = {"AUTO": "MAuto", "THREAD": "MThread", "TASK": "MTask"}


def enum_of(e):
    return METHODS.get(e[1]) if isinstance(e, tuple) and len(e) == 3 and e[0] == "ref" and e[2] == "EnumConstantDecl" else None


def single(s):
    while isinstance(s, tuple) and s and s[0] == "block" and len(s[1]) == 1:
        s = s[1][0]
    return s


def ctor_facts(pat, lam, notes):
    f = {"state_make_shared": False, "state_stored_in_loop": False, "capture_coowns_state": False, "capture_body_by_value": False,
         "auto_guard": False, "auto_threshold": 0, "auto_then": "MAuto", "auto_else": "MAuto",
         "d_test": "MAuto", "d_then": "TASK", "d_else": "TASK"}
    body = [c for c in inner(pat) if c.get("kind") == "CompoundStmt"]
    ss = [s for s in (st(body[0])[1] if body else []) if s != ("decls", [])]
    m = ("ref", "m", "ParmVarDecl")
    rest = []
    for s in ss:
        if s[0] == "decl" and s[1] == "l":
            f["state_make_shared"] = s[2] == "std::shared_ptr<AsyncLoopData>" and ("call", "make_shared") in (s[3] or ())
        elif s == ("expr", ("op", "operator=", ("mem", "loop", "this"), ("ref", "l", "VarDecl"))):
            f["state_stored_in_loop"] = True
        elif s[0] == "decl" and s[1] == "mainLoop":
            pass
        else:
            rest.append(s)
    # captures of the loop functor
    if lam is not None:
        rec = [c for c in inner(lam) if c.get("kind") == "CXXRecordDecl"]
        fields = [c.get("type", {}).get("qualType") for c in inner(rec[0]) if c.get("kind") == "FieldDecl"] if rec else []
        f["capture_coowns_state"] = len(fields) >= 1 and fields[0] == "std::shared_ptr<AsyncLoopData>"
        f["capture_body_by_value"] = len(fields) == 2 and fields[1] in ("LOOP_BODY_FCN", "c03inst::Body")
        notes.append("loop functor captures: %r" % (fields,))
    ok = len(rest) == 2
    if ok:
        a, d = rest
        sa = single(a[2]) if a[0] == "if" else None
        if a[0] == "if" and a[1] == ("bin", "==", m, ("ref", "AUTO", "EnumConstantDecl")) and a[3] is None and sa and sa[0] == "expr" \
                and sa[1][:3] == ("bin", "=", m) and sa[1][3][0] == "cond" and sa[1][3][1][:3] == ("bin", ">", ("call", "numTaskingThreads")) \
                and sa[1][3][1][3][0] == "int" and enum_of(sa[1][3][2]) and enum_of(sa[1][3][3]):
            f.update(auto_guard=True, auto_threshold=int(sa[1][3][1][3][1]), auto_then=enum_of(sa[1][3][2]), auto_else=enum_of(sa[1][3][3]))
        else:
            ok = False

        def how(x):
            x = single(x)
            if isinstance(x, tuple) and x[0] == "expr" and x[1][:3] == ("op", "operator=", ("mem", "backgroundThread", "this")):
                return "THREAD"
            if x == ("expr", ("call", "schedule", ("ref", "mainLoop", "VarDecl"))):
                return "TASK"
            return None
        if d[0] == "if" and d[1][:3] == ("bin", "==", m) and enum_of(d[1][3]) and how(d[2]) and d[3] is not None and how(d[3]):
            f.update(d_test=enum_of(d[1][3]), d_then=how(d[2]), d_else=how(d[3]))
        else:
            ok = False
    if not ok:
        notes.append("constructor tail not of the form `if (m == AUTO) m = numTaskingThreads() > K ? X : Y; if (m == D) <launch> else <launch>`: %r" % (rest,))
        f.update(auto_guard=False, d_test="MAuto", d_then="TASK", d_else="TASK")      # resolves everything to TASK: facts_ctor fails
    return f


def extract(repo, work):
    inc = os.path.join(os.path.dirname(os.path.dirname(HERE)), "build", "include")
    docs = sxast.dump(repo, work, INST, "AsyncLoop", "c03inst", extra=["-I" + inc])
    notes = []
    out = {"loop": 'BCons (SUnknown "loop functor not found") BNil', "start": 'BCons (SUnknown "not found") BNil',
           "stop": 'BCons (SUnknown "not found") BNil', "dtor": 'BCons (SUnknown "not found") BNil',
           "data_members": [], "class_members": [], "ctor": ctor_facts({}, None, [])}
    for d in docs:
        k, nm = d.get("kind"), d.get("name")
        if k == "CXXRecordDecl" and nm == "AsyncLoop" and d.get("completeDefinition"):
            for c in inner(d):
                if c.get("kind") == "FieldDecl":
                    out["class_members"].append((c.get("name"), mtype(c.get("type", {}).get("qualType"), [])))
                if c.get("kind") == "CXXRecordDecl" and c.get("name") == "AsyncLoopData" and c.get("completeDefinition"):
                    for fd in inner(c):
                        if fd.get("kind") == "FieldDecl":
                            out["data_members"].append((fd.get("name"), mtype(fd.get("type", {}).get("qualType"), [ex(i) for i in inner(fd)])))
        elif k == "FunctionTemplateDecl" and nm == "AsyncLoop":
            pats = [c for c in inner(d) if c.get("kind") == "CXXConstructorDecl" and any(x.get("kind") == "CompoundStmt" for x in inner(c))]
            if not pats:
                continue
            pat = pats[0]
            ml = find(pat, lambda n: n.get("kind") == "VarDecl" and n.get("name") == "mainLoop")
            lam = find(ml[0], lambda n: n.get("kind") == "LambdaExpr")[0] if ml and find(ml[0], lambda n: n.get("kind") == "LambdaExpr") else None
            out["ctor"] = ctor_facts(pat, lam, notes)
            if lam is not None:
                body = [c for c in inner(lam) if c.get("kind") == "CompoundStmt"][0]
                cx = Ctx()
                cx.lambdas = find(body, lambda n: n.get("kind") == "LambdaExpr")
                um = find(body, lambda n: n.get("kind") == "UnresolvedMemberExpr")
                # the (dependent-context) call `l->runningCond.wait(...)`: exactly one unresolved member call, named wait, on runningCond
                # clang 14 does not print the member name of an UnresolvedMemberExpr: read the token from the source text
                cx.wait_unresolved_ok = False
                if len(um) == 1:
                    end = um[0].get("range", {}).get("end", {})
                    src = open(os.path.join(repo, "rkcommon", "tasking", "AsyncLoop.h"), errors="replace").read()
                    tok = src[end.get("offset", 0):end.get("offset", 0) + end.get("tokLen", 0)]
                    base = [c for c in inner(um[0]) if c.get("kind") == "MemberExpr"]
                    cx.wait_unresolved_ok = tok == "wait" and bool(base) and state_member(ex(base[0]), "runningCond") is not None
                    notes.append("unresolved member call on runningCond: token %r" % tok)
                out["loop"] = block(cx, st(body))
        elif k in ("CXXDestructorDecl", "CXXMethodDecl") and nm in ("~AsyncLoop", "start", "stop"):
            body = [c for c in inner(d) if c.get("kind") == "CompoundStmt"]
            if body:
                cx = Ctx()
                cx.wait_unresolved_ok = False
                out[{"~AsyncLoop": "dtor", "start": "start", "stop": "stop"}[nm]] = block(cx, st(body[0]))
    out["notes"] = notes
    return out


def coq_list(xs):
    return "[" + "; ".join("(%s, %s)" % (q(n), t) for n, t in xs) + "]"


def coq_text(f):
    c = f["ctor"]
    b = lambda x: "true" if x else "false"  # noqa: E731
    return """(* GENERATED by props/C03/factgen.py from the clang AST of rkcommon/tasking/AsyncLoop.h -- do not edit *)
From Coq Require Import List Bool String ZArith.
From C03 Require Import Model FactsDefs.
Import ListNotations.
Local Open Scope string_scope.

Definition gen_loop : block := %s.

Definition gen_start : block := %s.

Definition gen_stop : block := %s.

Definition gen_dtor : block := %s.

Definition gen_data_members : list (string * mtype) := %s.
Definition gen_class_members : list (string * mtype) := %s.

Definition gen_ctor : ctor_facts := {|
  state_make_shared := %s; state_stored_in_loop := %s; capture_coowns_state := %s; capture_body_by_value := %s;
  auto_guard := %s; auto_threshold := %d; auto_then := %s; auto_else := %s;
  d_test := %s; d_then := %s; d_else := %s |}.
""" % (f["loop"], f["start"], f["stop"], f["dtor"], coq_list(f["data_members"]), coq_list(f["class_members"]),
       b(c["state_make_shared"]), b(c["state_stored_in_loop"]), b(c["capture_coowns_state"]), b(c["capture_body_by_value"]),
       b(c["auto_guard"]), c["auto_threshold"], c["auto_then"], c["auto_else"], c["d_test"], c["d_then"], c["d_else"])


def main(argv):
    repo, out, js, work = "/repo", None, None, "/tmp/c03ast"
    i = 0
    while i < len(argv):
        if argv[i] == "--repo":
            repo = argv[i + 1]; i += 2
        elif argv[i] == "--out":
            out = argv[i + 1]; i += 2
        elif argv[i] == "--json":
            js = argv[i + 1]; i += 2
        elif argv[i] == "--work":
            work = argv[i + 1]; i += 2
        else:
            i += 1
    f = extract(repo, work)
    txt = coq_text(f)
    if out:
        os.makedirs(os.path.dirname(out), exist_ok=True)
        if not os.path.exists(out) or open(out).read() != txt:
            open(out, "w").write(txt)
    else:
        print(txt)
    if js:
        json.dump(f, open(js, "w"), indent=1)
    return f


if __name__ == "__main__":
    main(sys.argv[1:])
