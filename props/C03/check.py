"""C03 -- AsyncLoop honours its start/stop/destroy protocol on every interleaving.

Coq (coq/C03): interleaving semantics of the closed system `loop thread || controller` (3 seq_cst atomics,
mutex, condition variable with spurious wake-ups, join; THREAD and TASK launch; arbitrary start/stop sequences
optionally ended by the destructor).  `explore` computes the reachable set, `check_sound` (proved once, by
induction on executions) makes it an inductive invariant, the property theorems are closed by vm_compute.

Tie to the code, on every run (needs the RKCOMMON_VERIF scheduling points in AsyncLoop.h):
  1. forced replay: the extracted model enumerates the edges of its reachable graph, covers each by a shortest
     path from the initial state; every such schedule is FORCED on the real AsyncLoop (both launch methods) and
     after every step the three flags, the parked point of both threads, asleep/woken (mutex probe), body
     activity and the returned-flags are compared with the model state;
  2. implementation-side exploration: breadth-first search over the real code's OWN state graph under the same
     controller (independent of the model) with the property oracles (body active after stop() returned,
     destructor/stop()/start() progress within 12 loop steps, deadlock, hang);  a hit is the VIOLATION with the
     schedule as replay;  the graph sizes must equal the model's;
  3. the Coq refuting schedule of the un-repaired code is forced as well (must be harmless on the current tree);
  4. unforced stress (start/stop cycles, body checks a "stop has returned" flag), plain and with random delays
     injected after every atomic access of AsyncLoop (works without hooks: fallback when the tree has none).
"""
import json, os, re
import vlib

ORACLE_TEXT = {
    "stop_safe": ("the loop body is executing although stop() has returned and start() has not been called since",
                  "after stop() returns the body is not executing and does not begin until start() is next called"),
    "dtor_safe": ("THREAD launch: the destructor has returned while the loop thread has not finished / the body is running",
                  "after the destructor returns no body invocation is running or begins (loop owns its thread)"),
    "start_progress": ("start() has returned but the loop thread, running alone, does not reach the body",
                       "after start() returns the body is executed again within bounded time (no lost wake-up)"),
    "dtor_terminates": ("the destructor stays blocked although the loop thread runs alone",
                        "destroying the AsyncLoop always terminates"),
    "stop_terminates": ("stop() keeps spinning although the loop thread runs alone (body returns)",
                        "stop() returns once the body has returned"),
    "deadlock": ("no thread can move and the system is not finished", "no deadlock"),
    "hang": ("after this schedule the pending call (stop() / destructor / join) never returns although all threads run freely", "stop() returns once the body has returned; destroying the AsyncLoop always terminates"),
    "stuck": ("a thread did not reach its next scheduling point (blocked where the model says it can move)",
              "every granted step reaches the next scheduling point"),
}


def tokens(line):
    return line.split()[2:]


def first_diff(a, b):
    xa, xb = a.split(" ; "), b.split(" ; ")
    for i in range(max(len(xa), len(xb))):
        x = xa[i] if i < len(xa) else "<missing>"
        y = xb[i] if i < len(xb) else "<missing>"
        if x != y:
            return i, x, y
    return None


def interleaved(toks):
    """non-trivial schedule: the loop thread moves while the controller is inside a call (or vice versa)"""
    inside, sw = False, 0
    for t in toks:
        if t in "spd":
            inside = True
        elif t == "L" and inside:
            sw += 1
    return sw >= 1 and any(t == "C" for t in toks)


def stress(ctx, exe, launch, cycles, seed, inject):
    rc, out, err = ctx.run_exe(exe, ["stress", launch, str(cycles), str(seed), str(inject)], timeout=200)
    m = re.search(r"STRESS launch=(\w) cycles=(\d+) inject=(\d) body_runs=(\d+) body_while_stopped=(\d+) lost_wakeups=(\d+)", out)
    cfg = {"mode": "stress", "launch": launch, "cycles": cycles, "stress_seed": seed, "inject_delays": inject,
           "rerun": "%s stress %s %d %d %d" % (exe, launch, cycles, seed, inject)}
    if not m:
        what = "stress run did not finish (rc=%s): %s" % (rc, (out + err)[-300:].strip())
        if "STRESS-HANG" in out or rc in (5, 124):
            ctx.violation("unforced start/stop/destroy stress hangs (stop() or the destructor does not return)",
                          dict(cfg, observed=what, required="stop() and the destructor terminate"))
        else:
            ctx.broken.append(what)
        return None
    runs, bad, lost = int(m.group(4)), int(m.group(5)), int(m.group(6))
    ctx.count(cycles)
    if bad:
        ctx.violation("unforced stress: the loop body ran %d time(s) while stop() had returned (launch %s, %s)"
                      % (bad, launch, "delays injected after atomic accesses" if inject else "no delays"),
                      dict(cfg, observed=m.group(0), required=ORACLE_TEXT["stop_safe"][1]))
    if lost:
        ctx.violation("unforced stress: after start() returned the body did not run within 2 s, %d time(s) (launch %s)" % (lost, launch),
                      dict(cfg, observed=m.group(0), required=ORACLE_TEXT["start_progress"][1]))
    return {"launch": launch, "cycles": cycles, "inject": inject, "body_runs": runs, "body_while_stopped": bad, "lost_wakeups": lost}


def run(ctx):
    if getattr(ctx, "replay", None):
        doc = json.load(open(ctx.replay))
        exe = ctx.cxx(["harness.cpp"], "harness", backend="omp", sanitize=None)
        if exe and doc.get("schedule"):
            rc, out, err = ctx.run_exe(exe, ["replay"], stdin="R %s %s\n" % (doc.get("launch", "T"), doc["schedule"]), timeout=60)
            print("replay of %s on %s:\n  %s" % (doc["schedule"], ctx.repo, out.strip().replace(" ; ", "\n  ")))
        elif exe and doc.get("mode") == "stress":
            rc, out, err = ctx.run_exe(exe, ["stress", doc["launch"], str(doc["cycles"]), str(doc["stress_seed"]), str(doc["inject_delays"])], timeout=200)
            print(out.strip())
        return

    ctx.coq_check(("Properties.v",))
    model = ctx.extract()
    exe = ctx.cxx(["harness.cpp"], "harness", backend="omp", sanitize=None)
    ctx.trusted += [
        "interleaving semantics given to the C++ primitives in coq/C03/Model.v: seq_cst std::atomic load/store = one atomic step of a "
        "sequentially consistent interleaving; std::mutex = mutual exclusion; condition_variable::wait(lock,pred) = while(!pred){atomically "
        "unlock+sleep; on notify or spuriously: relock}; notify_one lost when nobody sleeps; thread::join enabled once the thread function returned",
        "hand-written model (Tie B) tied to the code by forced-schedule replay: harness/C03/harness.cpp (scheduling controller, mutex probe for "
        "'asleep', private state via #define private public), ocaml/C03/driver.ml (edge enumeration, shortest paths), props/C03/check.py",
        "the scheduling points added to rkcommon/tasking/AsyncLoop.h under #ifdef RKCOMMON_VERIF (guard off: preprocessed source identical)",
        "g++ -O1, libstdc++ std::thread/mutex/condition_variable, OpenMP-backend tasking::schedule (detached std::thread) for TASK launch",
    ]
    ctx.assumptions += [
        "the loop body returns (body termination) and the OS scheduler is fair: the progress theorems are 'within K steps of the loop thread'",
        "TASK launch: the tasking backend eventually runs the scheduled loop task (C02's contract); AsyncLoop::AUTO picks one of the two modelled methods",
        "one controller thread: start()/stop()/~AsyncLoop are not called concurrently with each other (as the class documents no thread-safety)",
        "17 model edges per launch method (controller locks the mutex while a notified sleeper has not yet re-locked) cannot be forced: "
        "on the real code the woken thread re-locks on its own; they are covered by the Coq theorems only",
    ]
    if not model or not exe:
        return
    rc, out, err = ctx.run_exe(exe, ["probe"], timeout=20)
    hooks = "HOOKS=1" in out
    ctx.cov["hooks_present"] = hooks

    # ------------------------------------------------------------------ forced part
    if hooks:
        hdr, cases = {}, []
        for l in ("T", "K"):
            rc, out, err = vlib.sh2([model, "paths", l, "repaired"], timeout=120)
            lines = out.strip().split("\n")
            m = re.match(r"# states=(\d+) forcible_states=(\d+) edges=(\d+) forcible_edges=(\d+) paths=(\d+)", lines[0]) if lines else None
            if rc != 0 or not m:
                ctx.broken.append("model driver 'paths %s' failed: %s" % (l, (out + err)[-200:]))
                return
            hdr[l] = dict(zip(("states", "forcible_states", "edges", "forcible_edges", "paths"), map(int, m.groups())))
            cases += ["R %s %s" % (l, p) for p in lines[1:]]
        # seeded random walks on top of the edge cover (longer histories: several start/stop rounds)
        r = ctx.rng("walks")
        nwalk = ctx.pick(300, 5000)
        walks = []
        for i in range(nwalk):
            l = "TK"[i % 2]
            n = r.randint(20, 120)
            walks.append("W %s %d %d" % (l, r.randint(1, 10 ** 9), n))
        rcw, outw, errw = vlib.sh2([model, "walks", "repaired"], stdin="\n".join(walks) + "\n", timeout=120)
        wl = [x for x in outw.strip().split("\n") if x.startswith("R ")]
        if rcw != 0 or len(wl) != nwalk:
            ctx.broken.append("model driver 'walks' failed: %s" % (outw + errw)[-200:])
        cases += wl
        rc2, refute, _ = vlib.sh2([model, "refute", "T"], timeout=20)
        refute = refute.strip()
        ctx.cov["model_graph"] = hdr

        mism, crashes, mlines = vlib.differential(ctx, cases, model, [("AsyncLoop", exe, ["replay"])], model_args=["run", "repaired"], timeout=400)
        steps = sum(len(tokens(c)) for c in cases)
        ctx.count(steps)
        hist = {}
        for c in cases:
            for t in tokens(c):
                hist[t] = hist.get(t, 0) + 1
            if interleaved(tokens(c)):
                ctx.nontriv(c)
        ctx.cov["forced"] = {"schedules": len(cases), "edge_cover_schedules": len(cases) - len(wl), "random_walk_schedules": len(wl),
                             "steps_compared": steps, "token_histogram": hist, "mismatching_schedules": len(mism),
                             "model_edges_forced": {l: "%d of %d" % (hdr[l]["forcible_edges"], hdr[l]["edges"]) for l in hdr}}
        for c in cases[:2] + wl[:1]:
            ctx.sample({"schedule": c, "model_and_impl_final": mlines[cases.index(c)].split(" ; ")[-1] if mlines else None})
        forced_viol = False
        for label, (rc, errt, n) in crashes.items():
            sched = cases[n] if n < len(cases) else None
            ctx.violation("forcing a schedule on the real AsyncLoop hangs or crashes the harness (rc=%d)" % rc,
                          {"launch": sched.split()[1] if sched else None, "schedule": " ".join(tokens(sched)) if sched else None,
                           "stderr_tail": errt[-500:], "required": ORACLE_TEXT["hang"][1]}, found_input=sched is not None)
            forced_viol = True
        corr = []
        skipped = sum(1 for (i, label, il, ml) in mism if il == "SKIPPED")
        ctx.cov["forced"]["schedules_skipped_after_3_timeouts"] = skipped
        for (i, label, il, ml) in mism:
            if il == "SKIPPED":
                continue
            if ("CLEANUP-HANG" in il or "STUCK:" in il) and not forced_viol:
                kind = "hang" if "CLEANUP-HANG" in il else "stuck"
                ctx.violation("forced schedule on the real AsyncLoop: " + ORACLE_TEXT[kind][0],
                              {"launch": cases[i].split()[1], "schedule": " ".join(tokens(cases[i])), "observed": il.split(" ; ")[-2:],
                               "model_final_state": ml.split(" ; ")[-1], "required": ORACLE_TEXT[kind][1]})
                forced_viol = True
            d = first_diff(il, ml)
            if d is None:
                continue
            k, x, y = d
            if "!VIOL:" in x and not forced_viol:
                kind = x.split("!VIOL:")[1].split()[0]
                ctx.violation("forced schedule on the real AsyncLoop: " + ORACLE_TEXT.get(kind, (kind,))[0],
                              {"launch": cases[i].split()[1], "schedule": " ".join(tokens(cases[i])[:k + 1]), "observed": x,
                               "model_state": y, "required": ORACLE_TEXT.get(kind, ("", kind))[1]})
                forced_viol = True
            corr.append("schedule %r step %d: impl %r / model %r" % (cases[i], k + 1, x, y))
        ctx.cov["first_mismatches"] = corr[:5]

        # the refuting schedule of the Original system, forced on the current tree
        rc, out, err = ctx.run_exe(exe, ["replay"], stdin="R T %s\nR K %s\n" % (refute, refute), timeout=60)
        ctx.count(2 * len(refute.split()))
        rl = out.strip().split("\n")
        ctx.cov["refuting_schedule_on_this_tree"] = [x.split(" ; ")[-1] for x in rl]
        for l, x in zip("TK", rl):
            if "!VIOL:" in x and not forced_viol:
                k = [j for j, s in enumerate(x.split(" ; ")) if "!VIOL:" in s][0]
                ctx.violation("the 16-step schedule that refutes stop-safety of the un-repaired model reproduces on the real code: "
                              "the body runs after stop() returned",
                              {"launch": l, "schedule": " ".join(refute.split()[:k + 1]), "observed": x.split(" ; ")[k],
                               "required": ORACLE_TEXT["stop_safe"][1]})
                forced_viol = True

        # implementation-side exploration with the property oracles
        xs = {}
        for l in ("T", "K"):
            rc, out, err = ctx.run_exe(exe, ["explore", l, str(ctx.pick(3000, 20000))], timeout=400)
            for ln in out.split("\n"):
                if ln.startswith("XVIOL "):
                    kind, sched, detail = [s.strip() for s in ln[6:].split("|", 2)]
                    if kind == "stop_safe" and forced_viol:
                        continue
                    ctx.violation("exploration of the real AsyncLoop under the scheduling controller (launch %s): %s"
                                  % (l, ORACLE_TEXT.get(kind, (kind,))[0]),
                                  {"launch": l, "schedule": sched, "observed": detail, "oracle": kind,
                                   "required": ORACLE_TEXT.get(kind, ("", kind))[1]})
                m = re.search(r"XDONE states=(\d+) edges=(\d+) replays=(\d+) progress_checks=(\d+) complete=(\d) violations=(\d+)", ln)
                if m:
                    xs[l] = dict(zip(("states", "edges", "replays", "progress_checks", "complete", "violations"), map(int, m.groups())))
                    ctx.count(xs[l]["replays"])
            if l not in xs:
                if rc == 4 or "HANG" in out:
                    ctx.violation("exploration of the real AsyncLoop: tearing down hangs (destructor / join does not return)",
                                  {"launch": l, "observed": out[-400:], "required": ORACLE_TEXT["hang"][1]}, found_input=False)
                else:
                    ctx.broken.append("implementation exploration (launch %s) did not finish: rc=%s %s" % (l, rc, (out + err)[-200:]))
            elif not ctx.violations and (xs[l]["states"], xs[l]["edges"]) != (hdr[l]["forcible_states"], hdr[l]["forcible_edges"]):
                ctx.broken.append("correspondence: the real code's state graph under the controller has %d states / %d edges, the model's has %d / %d (launch %s)"
                                  % (xs[l]["states"], xs[l]["edges"], hdr[l]["forcible_states"], hdr[l]["forcible_edges"], l))
        ctx.cov["implementation_exploration"] = xs
        if corr and not ctx.violations:
            ctx.broken.append("correspondence model vs AsyncLoop under forced schedules: %d of %d schedules differ; first: %s"
                              % (len(corr), len(cases), corr[0][:400]))
    else:
        msg = ("this tree has no RKCOMMON_VERIF scheduling points in AsyncLoop.h (hook-1.patch not applied): forced replay of the model's "
               "schedules and the implementation-side exploration were NOT possible; only unforced and delay-injected stress was run")
        ctx.log("NOTE: " + msg)
        ctx.cov["forced"] = msg

    # ------------------------------------------------------------------ unforced stress
    st = []
    n_plain, n_inj = ctx.pick(2000, 100000), ctx.pick(1500, 20000)
    for l in ("T", "K"):
        for (n, inj) in ((n_plain, 0), (n_inj, 1)):
            if ctx.violations:   # a concrete failing schedule / stress run is already in hand
                break
            s = stress(ctx, exe, l, n, ctx.seed, inj)
            if s:
                st.append(s)
    ctx.cov["stress"] = st
    if ctx.thorough():
        tsan = ctx.cxx(["harness.cpp"], "harness_tsan", backend="omp", sanitize="tsan")
        if tsan:
            rc, out, err = ctx.run_exe(tsan, ["stress", "T", "3000", str(ctx.seed), "0"], timeout=400)
            ctx.cov["tsan_stress_rc"] = rc
            if rc == 97:
                ctx.broken.append("ThreadSanitizer reports a data race in AsyncLoop under stress: " + err[-600:])
        ctx.coq_thorough_chk(["C03.Properties"])
    ctx.rule = ("forced schedules = for every edge of the model's reachable graph (both launch methods) a shortest path from the initial state "
                "followed by that edge, plus seeded random walks of 20-120 steps; each replayed step by step on the real AsyncLoop with all "
                "observables compared; non-trivial = the loop thread takes at least one step while the controller is inside start()/stop()/"
                "the destructor; evaluations = forced steps + implementation-exploration replays + stress cycles")
