"""C03 -- AsyncLoop honours its start/stop/destroy protocol on every interleaving.

Coq (coq/C03): interleaving semantics of the closed system `loop thread || controller` (3 seq_cst atomics,
mutex, condition variable with spurious wake-ups, join; THREAD and TASK launch; arbitrary start/stop sequences
optionally ended by the destructor).  `explore` computes the reachable set, `check_sound` (proved once, by
induction on executions) makes it an inductive invariant, the property theorems are closed by vm_compute.

Tie to the code, on every run (needs the RKCOMMON_VERIF scheduling points in AsyncLoop.h):
  1. forced replay: the extracted model enumerates the edges of its reachable graph, covers each by a shortest
     path from the initial state; every such schedule is FORCED on the real AsyncLoop (both launch methods) and
     after every step the three flags, the parked point of both threads, asleep/woken (mutex probe), body
     activity and the returned-flags are compared with the model state;
  2. implementation-side exploration: breadth-first search over the real code's OWN state graph under the same
     controller (independent of the model) with the property oracles (body active after stop() returned,
     destructor/stop()/start() progress within 12 loop steps, deadlock, hang);  a hit is the VIOLATION with the
     schedule as replay;  the graph sizes must equal the model's;
  3. the Coq refuting schedule of the un-repaired code is forced as well (must be harmless on the current tree);
  4. unforced stress (start/stop cycles, body checks a "stop has returned" flag), plain and with random delays
     injected after every atomic access of AsyncLoop (works without hooks: fallback when the tree has none).
"""
import json, os, re, signal, subprocess, sys, threading, time
import vlib
sys.path.insert(0, os.path.dirname(os.path.abspath(__file__)))
import factgen  # noqa: E402

ORACLE_TEXT = {
    "stop_safe": ("the loop body is executing although stop() has returned and start() has not been called since",
                  "after stop() returns the body is not executing and does not begin until start() is next called"),
    "dtor_safe": ("THREAD launch: the destructor has returned while the loop thread has not finished / the body is running",
                  "after the destructor returns no body invocation is running or begins (loop owns its thread)"),
    "start_progress": ("start() has returned but the loop thread, running alone, does not reach the body",
                       "after start() returns the body is executed again within bounded time (no lost wake-up)"),
    "dtor_terminates": ("the destructor stays blocked although the loop thread runs alone",
                        "destroying the AsyncLoop always terminates"),
    "stop_terminates": ("stop() keeps spinning although the loop thread runs alone (body returns)",
                        "stop() returns once the body has returned"),
    "deadlock": ("no thread can move and the system is not finished", "no deadlock"),
    "hang": ("after this schedule the pending call (stop() / destructor / join) never returns although all threads run freely", "stop() returns once the body has returned; destroying the AsyncLoop always terminates"),
    "launch": ("the object did not take the launch method the constructor's resolution prescribes (backgroundThread.joinable() differs from "
               "resolve method numTaskingThreads)",
               "an explicit THREAD request always owns (and joins) its thread, an explicit TASK request never does, AUTO owns a thread iff "
               "numTaskingThreads() <= 4"),
    "stuck": ("a thread did not reach its next scheduling point (blocked where the model says it can move)",
              "every granted step reaches the next scheduling point"),
}


def tokens(line):
    return line.split()[2:]


def first_diff(a, b):
    xa, xb = a.split(" ; "), b.split(" ; ")
    for i in range(max(len(xa), len(xb))):
        x = xa[i] if i < len(xa) else "<missing>"
        y = xb[i] if i < len(xb) else "<missing>"
        if x != y:
            return i, x, y
    return None


def interleaved(toks):
    """non-trivial schedule: the loop thread moves while the controller is inside a call (or vice versa)"""
    inside, sw = False, 0
    for t in toks:
        if t in "spd":
            inside = True
        elif t == "L" and inside:
            sw += 1
    return sw >= 1 and any(t == "C" for t in toks)


# ------------------------------------------------------------------------------------------------ supervision
# The check has a global wall-clock budget; every child process gets min(its own cap, what is left) and is killed
# (whole process group, SIGKILL: the harness may sit in join()) at that deadline.  Whether a killed child was
# HANGING or merely SLOW is decided on its heartbeat (a progress counter printed once a second), not on time.
RESERVE = 12          # seconds kept for writing evidence
STALL = 45            # a killed child whose progress counter stood still this long was hanging


class Sup:
    def __init__(self, ctx):
        self.ctx = ctx
        self.hard = ctx.t0 + ctx.pick(8 * 60, 20 * 60)          # hard stop
        self.soft = ctx.t0 + ctx.pick(4 * 60, 12 * 60)          # no new optional stage after this
        self.hang_confirmed = False
        self.tight = False
        self.not_completed, self.skipped = [], []
        self._tl = threading.local()      # children are also run from worker threads
        ctx.cov["stages_not_completed"] = self.not_completed
        ctx.cov["stages_skipped"] = self.skipped

    @property
    def last(self):
        return getattr(self._tl, "last", None)

    @last.setter
    def last(self, v):
        self._tl.last = v

    def tighten(self):
        """a source fact is broken: the whole check must end within ~3 minutes"""
        self.hard = min(self.hard, self.ctx.t0 + 175)
        self.soft = min(self.soft, self.ctx.t0 + 110)
        self.tight = True

    def left(self):
        return self.hard - time.time() - RESERVE

    def go(self, stage, optional=True):
        """may this stage start?"""
        if self.ctx.violations:
            self.skipped.append("%s: skipped, a violation with a concrete input is already confirmed" % stage)
            return False
        if self.left() < 5 or (optional and time.time() > self.soft):
            self.skipped.append("%s: not run, the check's wall-clock budget is used up" % stage)
            return False
        return True

    def penv(self):
        """environment of a confirmation run: 4x patience normally; in the capped mode (a source fact is broken, ~3 min in all)
        a plain second run -- the verdicts are state-based either way"""
        return {"C03_PATIENCE": "1" if self.tight else "4"}

    def patient(self):
        """is a 4x-patience second opinion allowed?"""
        return not self.hang_confirmed and self.left() > 30

    def run(self, exe, args=(), stdin=None, timeout=600, env=None):
        ctx = self.ctx
        own = {"replay": 240, "explore": 200, "stress": 120, "launch": 120, "probe": 60}.get(args[0] if args else "", timeout)
        own *= ctx.pick(1, 4) * (2 if env and env.get("C03_PATIENCE") else 1)
        if self.tight:
            own = min(own, {"replay": 45, "explore": 30}.get(args[0] if args else "", own))
        cap = min(timeout, own, self.left())
        label = "%s %s%s" % (os.path.basename(exe), " ".join(args)[:60], (" [%s]" % ",".join("%s=%s" % kv for kv in sorted(env.items()))) if env else "")
        self.last = {"label": label, "killed": False, "stalled_s": 0}
        if cap < 2:
            self.not_completed.append("%s: not started, budget used up" % label)
            self.last["killed"] = True
            return 124, "", "[C03] not started: budget used up"
        e = dict(os.environ)
        e.update(ctx.SAN_ENV)
        e.update(env or {})
        e["C03_HEARTBEAT"] = "1"
        p = subprocess.Popen([exe] + list(args), stdin=subprocess.PIPE, stdout=subprocess.PIPE, stderr=subprocess.PIPE, env=e,
                             universal_newlines=True, errors="replace", start_new_session=True)
        killed = False
        try:
            out, err = p.communicate(stdin, timeout=cap)
        except subprocess.TimeoutExpired:
            killed = True
            try:
                os.killpg(p.pid, signal.SIGKILL)
            except OSError:
                pass
            out, err = p.communicate()
        rc = 124 if killed else p.returncode
        hb = [(int(a), int(b)) for a, b in re.findall(r"^HB (\d+) (\d+)$", err, re.M)]
        err = re.sub(r"^HB \d+ \d+\n", "", err, flags=re.M)
        if killed:
            stalled = 0
            if hb:
                moved = [ts for (ts, c), (_, c0) in zip(hb[1:], hb[:-1]) if c != c0]
                stalled = (hb[-1][0] - (moved[-1] if moved else hb[0][0])) / 1000.0
            self.last.update(killed=True, stalled_s=stalled)
            hanging = stalled >= STALL or self.hang_confirmed
            why = ("killed at its deadline (%.0f s); code under test hangs (no progress for %.0f s)" % (cap, stalled) if hanging else
                   "killed at its deadline (%.0f s) while still making progress -- slow machine, not a finding" % cap)
            self.not_completed.append("%s: %s" % (label, why))
            ctx.log("child %s" % self.not_completed[-1])
            if hanging and not ctx.violations and not self.hang_confirmed:
                ctx.broken.append("no verdict: %s made no progress for %.0f s and was killed" % (label, stalled))
                self.hang_confirmed = True
        return rc, out, err

    def killed(self):
        return bool(self.last and self.last["killed"])


PATIENT = {"C03_PATIENCE": "4"}   # second opinion: every sample count / budget of the harness x4
BIG = 3600                        # python-level time-outs are only a last resort: the harness decides on
                                  # thread state / progress, never on elapsed time alone


def stress_once(ctx, exe, launch, cycles, seed, inject, budget_ms, env=None):
    rc, out, err = ctx.run_exe(exe, ["stress", launch, str(cycles), str(seed), str(inject), str(budget_ms)], timeout=BIG, env=env)
    m = re.search(r"STRESS launch=(\w) cycles=(\d+) inject=(\d) body_runs=(\d+) body_while_stopped=(\d+) lost_wakeups=(\d+) wall_ms=(\d+)", out)
    return rc, out, err, m


def stress(ctx, exe, launch, cycles, seed, inject, budget_ms):
    """time-boxed: runs until `cycles` are done or budget_ms elapsed; reports how many were done"""
    rc, out, err, m = stress_once(ctx, exe, launch, cycles, seed, inject, budget_ms)
    cfg = {"mode": "stress", "launch": launch, "cycles": cycles, "stress_seed": seed, "inject_delays": inject, "budget_ms": budget_ms,
           "rerun": "%s stress %s %d %d %d %d" % (exe, launch, cycles, seed, inject, budget_ms)}
    suspicious = (not m) or int(m.group(6)) > 0
    if suspicious and ctx.sup.killed():
        return None
    if suspicious and not ctx.sup.patient():
        ctx.sup.not_completed.append("stress %s inject=%d: %s; not re-run (a hang is already confirmed / no budget)"
                                     % (launch, inject, (out.strip().split("\n") or ["no output"])[0][:200]))
        return None
    if suspicious:
        # no progress for 30 s / a loop thread seen blocked: confirm with 4x patience before reporting
        ctx.log("stress %s inject=%d: %s -- re-running this configuration with 4x patience"
                % (launch, inject, (out.strip().split("\n") or ["no output"])[0][:200]))
        first = out
        rc, out, err, m = stress_once(ctx, exe, launch, cycles, seed, inject, budget_ms, env=ctx.sup.penv())
        ctx.cov.setdefault("stress_reruns", []).append({"config": cfg, "first": first[-400:], "second": out[-400:]})
    if not m and ctx.sup.killed():
        return None
    if not m:
        what = "stress run did not finish, twice (rc=%s): %s" % (rc, (out + err)[-1200:].strip())
        if "STRESS-HANG" in out:
            ctx.sup.hang_confirmed = True
            ctx.violation("unforced start/stop/destroy stress: no progress at all for 120 s, confirmed on a second run "
                          "(stop() or the destructor does not return)",
                          dict(cfg, observed=what, required="stop() and the destructor terminate"))
        else:
            ctx.broken.append(what)
        return None
    done, runs, bad, lost = int(m.group(2)), int(m.group(4)), int(m.group(5)), int(m.group(6))
    ctx.count(done)
    if bad:
        ctx.violation("unforced stress: the loop body ran %d time(s) while stop() had returned (launch %s, %s)"
                      % (bad, launch, "delays injected after atomic accesses" if inject else "no delays"),
                      dict(cfg, observed=m.group(0), required=ORACLE_TEXT["stop_safe"][1]))
    if lost:
        ctx.violation("unforced stress: after start() returned the loop thread stayed blocked on its condition variable "
                      "(kernel state S, no CPU time) instead of running the body, %d time(s), confirmed on a second run (launch %s)" % (lost, launch),
                      dict(cfg, observed=m.group(0), required=ORACLE_TEXT["start_progress"][1]))
    return {"launch": launch, "cycles_requested": cycles, "cycles_done": done, "budget_ms": budget_ms, "wall_ms": int(m.group(7)),
            "inject": inject, "body_runs": runs, "body_while_stopped": bad, "lost_wakeups": lost}


FACT_THMS = ("facts_loop", "facts_start", "facts_stop", "facts_dtor", "facts_loop_order", "facts_start_order",
             "facts_stop_order_and_lock_free", "facts_dtor_order", "facts_wait_predicate", "facts_members",
             "facts_state_ownership", "facts_ctor")
FACT_LEMMA = {"loop_lemma": "facts_loop", "start_lemma": "facts_start", "stop_lemma": "facts_stop", "dtor_lemma": "facts_dtor",
              "loop_shape_lemma": "facts_loop_order", "start_shape_lemma": "facts_start_order",
              "stop_shape_lemma": "facts_stop_order_and_lock_free", "dtor_shape_lemma": "facts_dtor_order",
              "wait_pred_lemma": "facts_wait_predicate", "members_lemma": "facts_members", "ownership_lemma": "facts_state_ownership",
              "ctor_lemma": "facts_ctor"}
UNKNOWN_FACTS = {"loop": 'BCons (SUnknown "extraction failed") BNil', "start": 'BCons (SUnknown "extraction failed") BNil',
                 "stop": 'BCons (SUnknown "extraction failed") BNil', "dtor": 'BCons (SUnknown "extraction failed") BNil',
                 "data_members": [], "class_members": [],
                 "ctor": {"state_make_shared": False, "state_stored_in_loop": False, "capture_coowns_state": False, "capture_body_by_value": False,
                          "auto_guard": False, "auto_threshold": 0, "auto_then": "MAuto", "auto_else": "MAuto", "d_test": "MAuto",
                          "d_then": "TASK", "d_else": "TASK"}}


def source_facts(ctx):
    """Tie C: regenerate coq/C03/gen/Facts.v from the clang AST of the working tree's AsyncLoop.h"""
    gen_v = os.path.join(ctx.coqdir, "gen", "Facts.v")
    js = os.path.join(ctx.build, "facts.json")
    try:
        factgen.main(["--repo", ctx.repo, "--out", gen_v, "--json", js, "--work", os.path.join(ctx.build, "ast")])
        facts = json.load(open(js))
    except Exception as ex_:      # fail closed: facts nobody can prove
        ctx.log("fact extraction failed: %r" % (ex_,))
        os.makedirs(os.path.dirname(gen_v), exist_ok=True)
        txt = factgen.coq_text(UNKNOWN_FACTS)
        if not os.path.exists(gen_v) or open(gen_v).read() != txt:
            open(gen_v, "w").write(txt)
        facts = dict(UNKNOWN_FACTS, notes=["extraction failed: %r" % (ex_,)])
    unknown = re.findall(r'SUnknown "([^"]*)"', " ".join(str(facts.get(k)) for k in ("loop", "start", "stop", "dtor")))
    ctx.cov["source_facts"] = {"notes": facts.get("notes"), "unrecognised_statements": unknown[:6], "ctor": facts.get("ctor"),
                               "data_members": facts.get("data_members"), "class_members": facts.get("class_members")}
    return facts


def first_broken_fact(ctx, res):
    """name of the first failing lemma of FactsCheck.v (the build stops there), as the theorem of PropertiesFacts.v"""
    if all(res.get(t_) for t_ in FACT_THMS):
        return None
    log = getattr(ctx, "coq_log", "")
    m = re.search(r'File "\./(FactsCheck|FactsDefs|gen/Facts)\.v", line (\d+)', log)
    name = None
    if m and m.group(1) == "FactsCheck":
        line = int(m.group(2))
        src = open(os.path.join(ctx.coqdir, "FactsCheck.v")).read().split("\n")
        for ln in reversed(src[:line]):
            mm = re.match(r"\s*Lemma\s+(\w+)", ln)
            if mm:
                name = FACT_LEMMA.get(mm.group(1), mm.group(1))
                break
    elif m:
        name = "(coq/C03/%s.v does not compile)" % m.group(1)
    return name or "(facts file did not build)"


TIGHT_RE = (r"TIGHT method=(\w+) nthreads=(\d+) num_tasking_threads=(-?\d+) cycles_done=(\d+) body_runs=(\d+) ran_after_stop=(\d+) "
            r"first_bad_cycle=(-?\d+) counter_when_stop_returned=(\d+) counter_before_next_start=(\d+) counter_resampled=(\d+) "
            r"where=\[([^\]]*)\] lost_wakeups=(\d+) wall_ms=(\d+)")


def tight_once(ctx, exe, method, n, cycles, budget_ms, env=None):
    rc, out, err = ctx.run_exe(exe, ["stress", "tight", method, str(n), str(cycles), str(ctx.seed), str(budget_ms)], timeout=BIG, env=env)
    return rc, out, re.search(TIGHT_RE, out)


def tight_family(ctx, exe, boosted):
    """unforced stress with an (almost) empty body -- it only increments a counter -- and tight start/stop cycles, through the
    PUBLIC interface only (builds whatever the internals look like).  Reaches races whose window is inside one statement of the
    loop thread.  Oracle by counters: unchanged between 'stop() returned' and the next 'start() called' (sampled three times,
    re-sampled on a change); advancing after start().  Time-boxed; suspected findings are confirmed on a second run."""
    rows = []
    budget = ctx.pick(2500, 20000) if not boosted else ctx.pick(6000, 30000)
    for method, n in (("THREAD", 2), ("TASK", 2), ("THREAD", 8), ("TASK", 8)):
        if not ctx.sup.go("tight-cycle stress %s/%d" % (method, n), optional=False):
            continue
        rc, out, m = tight_once(ctx, exe, method, n, 10 ** 8, budget)
        if ctx.sup.killed():
            continue
        cfg = {"mode": "stress-tight", "method": method, "nthreads": n, "stress_seed": ctx.seed, "budget_ms": budget,
               "rerun": "%s stress tight %s %d 100000000 %d %d" % (exe, method, n, ctx.seed, budget)}
        suspicious = (not m) or int(m.group(6)) > 0 or int(m.group(12)) > 0
        first = m.group(0) if m else out.strip()[-400:]
        if suspicious and ctx.sup.patient():
            ctx.log("tight-cycle stress %s/%d: %s -- confirming on a second run (4x patience, 2x budget)" % (method, n, first[:260]))
            rc, out, m2 = tight_once(ctx, exe, method, n, 10 ** 8, budget * 2, env=ctx.sup.penv())
            ctx.cov.setdefault("stress_reruns", []).append({"config": cfg, "first": first, "second": m2.group(0) if m2 else out.strip()[-400:]})
            if ctx.sup.killed():
                continue
            if m and int(m.group(12)) > 0 and not (m2 and int(m2.group(12)) > 0) and not (m2 and int(m2.group(6)) > 0):
                ctx.broken.append("tight-cycle stress %s/%d: a lost wake-up (loop thread blocked after start() returned) was seen in one run (%s) "
                                  "but not in the confirmation run" % (method, n, first))
            if m and int(m.group(6)) > 0 and not (m2 and int(m2.group(6)) > 0):
                ctx.broken.append("tight-cycle stress %s/%d: the body counter moved after stop() had returned in one run (%s) but not in the "
                                  "confirmation run" % (method, n, first))
            m = m2
        if not m:
            if "STRESS-HANG" in out:
                ctx.sup.hang_confirmed = True
                ctx.violation("tight-cycle stress (%s launch, tasking system of %d threads): no progress at all for 120 s, confirmed on a second run"
                              % (method, n), dict(cfg, observed=out.strip()[-800:], required="start(), stop() and the destructor terminate"))
            elif rc != 124:
                ctx.broken.append("tight-cycle stress %s/%d gave no result (rc=%s): %s" % (method, n, rc, out[-200:]))
            continue
        done, runs, bad, lost = int(m.group(4)), int(m.group(5)), int(m.group(6)), int(m.group(12))
        ctx.count(done)
        rows.append({"method": method, "nthreads": n, "cycles_done": done, "body_runs": runs, "ran_after_stop": bad, "lost_wakeups": lost,
                     "budget_ms": budget, "wall_ms": int(m.group(13))})
        if done > 100 and runs > done:
            ctx.nontriv("tight %s %d" % (method, n))
        if bad:
            ctx.violation("tight start/stop cycles with an empty (counter-only) body, %s launch, tasking system of %d threads: the body ran after "
                          "stop() had returned -- first in cycle %s the counter was %s when stop() returned, %s before the next start() (%s), %s "
                          "when re-sampled 200 us later; confirmed on a second run"
                          % (method, n, m.group(7), m.group(8), m.group(9), m.group(11), m.group(10)),
                          dict(cfg, observed=m.group(0), first_run=first, required=ORACLE_TEXT["stop_safe"][1]))
        elif lost:
            x = re.search(r"back_to_back_checked=(\d+) first_lost_cycle=(-?\d+) lost_after_back_to_back=(\d) counter_stuck_at=(\d+)", out)
            detail = ("in cycle %s (%s), body counter stuck at %s" % (x.group(2), "start() called right after stop() returned, no pause"
                                                                      if x.group(3) == "1" else "paced cycle", x.group(4))) if x else ""
            ctx.violation("tight start/stop cycles with an empty (counter-only) body, %s launch, tasking system of %d threads: LOST WAKE-UP -- after "
                          "start() returned the counter did not advance and the loop thread stayed blocked in the kernel (state S, CPU time not "
                          "advancing, 50 consecutive samples) %s; confirmed on a second run" % (method, n, detail),
                          dict(cfg, observed=m.group(0) + (" " + x.group(0) if x else ""), first_run=first, required=ORACLE_TEXT["start_progress"][1]))
    ctx.cov["stress_tight"] = rows


LONG_RE = (r"LONG method=(\w+) nthreads=(\d+) num_tasking_threads=(-?\d+) owns_thread=(\d) durations_tested=(\d+) stop_called_mid_body=(\d+) "
           r"stop_returned_while_inside=(\d+) dtor_tested=(\d+) dtor_returned_while_inside=(\d+) first_bad_body_us=(-?\d+) "
           r"body_exit_after_return_us=(-?\d+) what=\[([^\]]*)\] wall_ms=(\d+)")


def long_family(ctx, exe):
    """body durations spanning decades (1 us .. 1.2 s); stop() -- and for a thread-owning loop the destructor -- is called while the
    body is inside (the body's own atomic says so).  Oracle on state only: when the call returns the body's flag says NOT inside.
    Public interface only."""
    rows = []
    max_us = ctx.pick(1200000, 3000000)
    for method, n in (("THREAD", 2), ("TASK", 8)):
        if not ctx.sup.go("long-body stress %s/%d" % (method, n), optional=False):
            continue
        args = ["stress", "long", method, str(n), str(max_us), str(ctx.seed), "8000"]
        rc, out, err = ctx.run_exe(exe, args, timeout=BIG)
        m = re.search(LONG_RE, out)
        if ctx.sup.killed():
            continue
        cfg = {"mode": "stress-long", "method": method, "nthreads": n, "max_body_us": max_us, "rerun": "%s %s" % (exe, " ".join(args))}
        first = m.group(0) if m else out.strip()[-400:]
        lostm = re.search(r"lost_wakeups=(\d+) lost_at_body_us=(-?\d+)", out)
        if ((not m) or int(m.group(7)) > 0 or int(m.group(9)) > 0 or (lostm and int(lostm.group(1)) > 0)) and ctx.sup.patient():
            ctx.log("long-body stress %s/%d: %s -- confirming on a second run" % (method, n, first[:300]))
            rc, out, err = ctx.run_exe(exe, args, timeout=BIG, env=ctx.sup.penv())
            m2 = re.search(LONG_RE, out)
            ctx.cov.setdefault("stress_reruns", []).append({"config": cfg, "first": first, "second": m2.group(0) if m2 else out.strip()[-400:]})
            if ctx.sup.killed():
                continue
            if m and (int(m.group(7)) or int(m.group(9))) and not (m2 and (int(m2.group(7)) or int(m2.group(9)))):
                ctx.broken.append("long-body stress %s/%d: a call returned while the body was inside in one run (%s) but not in the confirmation run"
                                  % (method, n, first))
            m = m2
        if not m:
            if "STRESS-HANG" in out:
                ctx.sup.hang_confirmed = True
                ctx.violation("long-body stress (%s launch, %d threads): no progress at all for 120 s, confirmed on a second run" % (method, n),
                              dict(cfg, observed=out.strip()[-800:], required="start(), stop() and the destructor terminate"))
            elif rc != 124:
                ctx.broken.append("long-body stress %s/%d gave no result (rc=%s): %s" % (method, n, rc, out[-200:]))
            continue
        ctx.count(int(m.group(5)) + int(m.group(8)))
        rows.append({"method": method, "nthreads": n, "owns_thread": int(m.group(4)), "durations_tested": int(m.group(5)),
                     "stop_called_mid_body": int(m.group(6)), "stop_returned_while_inside": int(m.group(7)), "dtor_tested": int(m.group(8)),
                     "dtor_returned_while_inside": int(m.group(9)), "wall_ms": int(m.group(13))})
        if int(m.group(6)) >= 4:
            ctx.nontriv("long %s %d" % (method, n))
        lostm = re.search(r"lost_wakeups=(\d+) lost_at_body_us=(-?\d+)", out)
        if lostm and int(lostm.group(1)) > 0 and not (int(m.group(7)) or int(m.group(9))):
            ctx.violation("%s launch, tasking system of %d threads, body of %s us: LOST WAKE-UP -- after start() returned the body never began "
                          "and the loop thread stayed blocked in the kernel (state S, no CPU time, 50 consecutive samples); confirmed on a second run"
                          % (method, n, lostm.group(2)),
                          dict(cfg, body_duration_us=int(lostm.group(2)), observed=m.group(0) + " " + lostm.group(0), first_run=first,
                               required=ORACLE_TEXT["start_progress"][1]))
        if int(m.group(7)) or int(m.group(9)):
            which = "stop()" if int(m.group(7)) else "~AsyncLoop()"
            ctx.violation("%s launch, tasking system of %d threads, body invocation of %s us in flight: %s; the body left %s us AFTER the call "
                          "returned (body's own inside-flag read right after the return; confirmed on a second run)"
                          % (method, n, m.group(10), m.group(12), m.group(11)),
                          dict(cfg, body_duration_us=int(m.group(10)), observed=m.group(0), first_run=first,
                               required=ORACLE_TEXT["stop_safe"][1] if which == "stop()" else ORACLE_TEXT["dtor_safe"][1]))
    ctx.cov["stress_long_body"] = rows


def stress_stage(ctx, exe, exe_st, boosted):
    """the unforced families.  boosted (a source fact is broken): larger boxes, in total <= 60 s"""
    if exe_st:
        tight_family(ctx, exe_st, boosted)
        long_family(ctx, exe_st)
    st = []
    n_plain, n_inj = ctx.pick(20000, 200000), ctx.pick(4000, 30000)
    budget = ctx.pick(5000, 60000)    # ms per configuration (time box; the number of cycles done is reported)
    if boosted:
        n_plain, n_inj, budget = n_plain * 10, n_inj * 10, ctx.pick(7000, 60000)
    for l in ("T", "K"):
        for (n, inj) in ((n_plain, 0), (n_inj, 1)):
            if not ctx.sup.go("stress launch %s inject=%d" % (l, inj), optional=False):
                continue
            s = stress(ctx, exe, l, n, ctx.seed, inj, budget)
            if s:
                st.append(s)
    ctx.cov["stress"] = st


METHODS, SIZES = ("THREAD", "TASK", "AUTO"), (0, 2, 8)     # 0 = tasking system not initialised


def launch_once(ctx, exe, method, n, env=None):
    e = {"C03_METHOD": method, "C03_NTHREADS": str(n)}
    e.update(env or {})
    rc, out, err = ctx.run_exe(exe, ["launch"], timeout=BIG, env=e)
    m = re.search(r"LAUNCH method=(\w+) requested_threads=(-?\d+) num_tasking_threads=(-?\d+) joinable=(\d) dtor_waited=(\d) "
                  r"body_finished_when_dtor_returned=(-?\d+) body_begins_after_dtor=(-?\d+) loop_gone=(-?\d+)", out)
    ctx.c03_err = err
    return rc, out, m


def launch_memory_safety(ctx, exe_asan):
    """TASK-resolved launches under ASan+UBSan, TBB backend: start, destroy while the body is in flight, keep the process alive while the
    loop task winds down; the harness holds NO reference to the shared state (C03_NOHOLD), so a loop task that does not co-own that
    state touches freed memory"""
    rows = []
    for method, n in (("TASK", 0), ("TASK", 2), ("TASK", 8), ("AUTO", 8), ("THREAD", 2)):
        if not ctx.sup.go("memory-safety launch scenario %s/%d" % (method, n), optional=False):
            continue
        rc, out, m = launch_once(ctx, exe_asan, method, n, {"C03_NOHOLD": "1"})
        err = getattr(ctx, "c03_err", "")
        if ctx.sup.killed():
            continue
        ctx.count(1)
        rows.append({"method": method, "nthreads": n, "rc": rc, "sanitizer_report": "AddressSanitizer" in err or "runtime error" in err})
        if rc in (99, 98) or "ERROR: AddressSanitizer" in err:
            head = [ln.strip() for ln in err.split("\n") if "ERROR: AddressSanitizer" in ln or "runtime error" in ln or re.match(r"\s+#[0-6] ", ln)][:9]
            ctx.violation("requested launch %s, tasking system of %d threads (TBB, ASan): the loop task touches the AsyncLoop's shared state after "
                          "~AsyncLoop has freed it (the task outlives the object and does not co-own the state)" % (method, n),
                          {"mode": "launch", "backend": "tbb-asan", "method": method, "nthreads": n, "nohold": 1, "observed": head,
                           "rerun": "C03_NOHOLD=1 C03_METHOD=%s C03_NTHREADS=%d %s launch" % (method, n, exe_asan),
                           "required": "destroying the AsyncLoop is safe on both launch methods: the non-joined loop task may finish later but only "
                                       "touches state it co-owns (no use after free)"})
        elif not m:
            ctx.broken.append("memory-safety launch scenario %s/%d gave no result: rc=%s %s" % (method, n, rc, (out + err)[-300:]))
    ctx.cov["launch_memory_safety_asan_tbb"] = rows


def launch_matrix(ctx, model, exes):
    """destroy-while-the-body-is-in-flight (no stop() before) for every requested method x tasking-system size x backend:
    which launch did the object take (vs. the model's resolve), and did ~AsyncLoop wait for the body when it owns its thread"""
    rows = []
    for backend, exe in exes:
        for method in METHODS:
            for n in SIZES:
                if not ctx.sup.go("launch scenario %s/%s/%d" % (backend, method, n), optional=False):
                    continue
                rc, out, m = launch_once(ctx, exe, method, n)
                if not m and "LAUNCH-HANG" in out:
                    ctx.sup.hang_confirmed = True
                    ctx.violation("requested launch %s on a tasking system of %d threads (%s backend), destroyed while a body invocation was in "
                                  "flight: %s" % (method, n, backend, out.strip().split("\n")[0][:400]),
                                  {"mode": "launch", "backend": backend, "method": method, "nthreads": n, "observed": out.strip()[-600:],
                                   "rerun": "C03_METHOD=%s C03_NTHREADS=%d %s launch" % (method, n, exe), "required": ORACLE_TEXT["hang"][1]})
                    continue
                if not m and (ctx.sup.killed() or not ctx.sup.patient()):
                    continue
                if not m:
                    ctx.log("launch scenario %s/%s/%d gave no result (%s) -- re-running with 4x patience" % (backend, method, n, out.strip()[:200]))
                    rc, out, m = launch_once(ctx, exe, method, n, PATIENT)
                cfg = {"mode": "launch", "backend": backend, "method": method, "nthreads": n,
                       "rerun": "C03_METHOD=%s C03_NTHREADS=%d %s launch" % (method, n, exe)}
                if not m and ctx.sup.killed():
                    continue
                if not m:
                    if "LAUNCH-STUCK" in out:
                        ctx.violation("launch %s on a tasking system of %d threads (%s): the body never ran after start() returned, twice" % (method, n, backend),
                                      dict(cfg, observed=out.strip()[-300:], required=ORACLE_TEXT["start_progress"][1]))
                    else:
                        ctx.broken.append("launch scenario %s/%s/%d did not finish (rc=%s): %s" % (backend, method, n, rc, out[-200:]))
                    continue
                N, joinable, waited, fin, after, gone = (int(m.group(k)) for k in (3, 4, 5, 6, 7, 8))
                rc2, exp, _ = vlib.sh2([model, "resolve", method, str(N)], timeout=BIG)
                exp = exp.strip()
                ctx.count(1)
                row = dict(cfg, num_tasking_threads=N, model_resolve=exp, joinable=joinable, dtor_waited_for_body=waited,
                           body_finished_when_dtor_returned=fin, body_begins_after_dtor=after)
                row.pop("rerun")
                rows.append(row)
                owns = exp == "T"
                problems = []
                if bool(joinable) != owns:
                    problems.append("the object %s a joinable thread although resolve %s %d = %s"
                                    % ("owns" if joinable else "does NOT own", method, N, "THREAD" if owns else "TASK"))
                if owns and fin != 1:
                    problems.append("~AsyncLoop returned while the in-flight body invocation was still running")
                if owns and after > 0:
                    problems.append("%d body invocation(s) began after ~AsyncLoop returned" % after)
                if problems:
                    ctx.violation("requested launch %s, numTaskingThreads() = %d (%s backend), destroyed while a body invocation was in flight: %s"
                                  % (method, N, backend, "; ".join(problems)),
                                  dict(cfg, num_tasking_threads=N, observed=m.group(0),
                                       required=ORACLE_TEXT["launch"][1] + "; " + ORACLE_TEXT["dtor_safe"][1]))
                elif owns:
                    ctx.nontriv("launch %s %s %d" % (backend, method, n))
    ctx.cov["launch_matrix"] = rows
    ctx.cov["launch_matrix_note"] = ("resolved-TASK rows: the destructor does not join (body_finished_when_dtor_returned = 0 is allowed; "
                                     "the property constrains only the thread-owning case)")


def forced_config(ctx, exe, method, n, cases, mlines):
    """forced replay of `cases` on an object constructed with (method, n tasking threads); returns persistent mismatches"""
    env = {"C03_METHOD": method, "C03_NTHREADS": str(n)}
    rc, il, err = vlib.run_lines(ctx, exe, ["replay"], cases, timeout=BIG, env=env)
    bad = [i for i in range(len(cases)) if (il[i] if i < len(il) else "<no output>") != mlines[i]]
    out = []
    if bad and not ctx.sup.patient():
        return [(i, il[i] if i < len(il) else "<no output>", mlines[i]) for i in bad if (il[i] if i < len(il) else "") != "SKIPPED"]
    if bad:
        rc, il2, err = vlib.run_lines(ctx, exe, ["replay"], [cases[i] for i in bad], timeout=BIG, env=dict(env, **PATIENT))
        for k, i in enumerate(bad):
            x = il2[k] if k < len(il2) else "<no output: harness died>"
            if x != mlines[i] and x != "SKIPPED":
                out.append((i, x, mlines[i]))
    return out


def explore_config(ctx, exe, method, n, letter, maxstates, budget):
    env = {"C03_METHOD": method, "C03_NTHREADS": str(n)}
    xargs = ["explore", letter, str(maxstates), str(budget)]
    rc, out, err = ctx.run_exe(exe, xargs, timeout=BIG, env=env)
    if ("XVIOL " in out or "XDONE" not in out) and ctx.sup.patient() and not ctx.sup.killed():
        first = out
        rc, out, err = ctx.run_exe(exe, xargs, timeout=BIG, env=dict(env, **PATIENT))
        k1 = set(re.findall(r"XVIOL (\w+)", first))
        out = "\n".join(ln for ln in out.split("\n") if not ln.startswith("XVIOL ") or ln.split()[1] in k1)
    return rc, out


def run(ctx):
    if getattr(ctx, "replay", None):
        ctx.sup = Sup(ctx)
        doc = json.load(open(ctx.replay))
        exe = ctx.cxx(["harness.cpp"], "harness", backend="omp", sanitize=None)
        if exe and doc.get("schedule"):
            env = {"C03_METHOD": doc["method"], "C03_NTHREADS": str(doc["nthreads"])} if doc.get("method") else None
            if doc.get("backend") == "tbb":
                exe = ctx.cxx(["harness.cpp"], "harness_tbb", backend="tbb", sanitize=None)
            rc, out, err = ctx.run_exe(exe, ["replay"], stdin="R %s %s\n" % (doc.get("launch", "T"), doc["schedule"]), timeout=BIG, env=env)
            print("replay of %s on %s:\n  %s" % (doc["schedule"], ctx.repo, out.strip().replace(" ; ", "\n  ")))
        elif doc.get("mode") == "launch":
            exe2 = (exe if doc.get("backend") == "omp" else
                    ctx.cxx(["harness.cpp"], "harness_tbb_asan", backend="tbb", sanitize="asan") if doc.get("backend") == "tbb-asan" else
                    ctx.cxx(["harness.cpp"], "harness_tbb", backend="tbb", sanitize=None))
            rc, out, m = launch_once(ctx, exe2, doc["method"], doc["nthreads"], {"C03_NOHOLD": "1"} if doc.get("nohold") else None)
            print(out.strip() + "\n" + getattr(ctx, "c03_err", "")[:1500])
        elif doc.get("mode") == "stress-long":
            exe3 = ctx.cxx(["stress.cpp"], "stress_tbb", backend="tbb", sanitize=None, opt="-O2")
            rc, out, err = ctx.run_exe(exe3, ["stress", "long", doc["method"], str(doc["nthreads"]), str(doc["max_body_us"]), "1", "8000"], timeout=BIG)
            print(out.strip())
        elif doc.get("mode") == "stress-tight":
            exe3 = ctx.cxx(["stress.cpp"], "stress_tbb", backend="tbb", sanitize=None, opt="-O2")
            rc, out, err = ctx.run_exe(exe3, ["stress", "tight", doc["method"], str(doc["nthreads"]), "100000000", str(doc["stress_seed"]),
                                             str(doc["budget_ms"])], timeout=BIG)
            print(out.strip())
        elif exe and doc.get("mode") == "stress":
            rc, out, err = ctx.run_exe(exe, ["stress", doc["launch"], str(doc["cycles"]), str(doc["stress_seed"]), str(doc["inject_delays"]),
                                             str(doc.get("budget_ms", 600000))], timeout=BIG)
            print(out.strip())
        return

    ctx.sup = Sup(ctx)
    facts = source_facts(ctx)
    res = ctx.coq_check(("Properties.v", "PropertiesFacts.v"))
    broken_fact = first_broken_fact(ctx, res)
    ctx.cov["source_fact_broken"] = broken_fact
    if broken_fact:
        ctx.broken[:] = [b_ for b_ in ctx.broken if not b_.startswith("theorem facts_")]
        ctx.broken.insert(0, "source fact %s (coq/C03/PropertiesFacts.v) no longer holds for the AsyncLoop.h of this tree: the extracted "
                             "micro-operations do not denote the model's transitions (unrecognised statements: %s)"
                          % (broken_fact, ctx.cov["source_facts"]["unrecognised_statements"]))
        ctx.log("SOURCE FACT BROKEN: %s -- the micro-operations extracted from AsyncLoop.h no longer denote the model's transitions; "
                "unrecognised: %s; notes: %s; searching for a concrete failing schedule"
                % (broken_fact, ctx.cov["source_facts"]["unrecognised_statements"], facts.get("notes")))
        _viol = ctx.violation

        def violation_with_fact(what, replay, found_input=True, signature=None):
            replay = dict(replay, broken_source_fact=broken_fact)
            return _viol(what + "  [source fact broken: %s]" % broken_fact, replay, found_input=found_input, signature=signature)
        ctx.violation = violation_with_fact
    model = ctx.extract()
    exe, exe_tbb, exe_asan, exe_st = ctx.cxx_many([dict(sources=["harness.cpp"], out="harness", backend="omp", sanitize=None),
                                                   dict(sources=["harness.cpp"], out="harness_tbb", backend="tbb", sanitize=None),
                                                   dict(sources=["harness.cpp"], out="harness_tbb_asan", backend="tbb", sanitize="asan"),
                                                   dict(sources=["stress.cpp"], out="stress_tbb", backend="tbb", sanitize=None, opt="-O2")])
    ctx.trusted += [
        "interleaving semantics given to the C++ primitives in coq/C03/Model.v: seq_cst std::atomic load/store = one atomic step of a "
        "sequentially consistent interleaving; std::mutex = mutual exclusion; condition_variable::wait(lock,pred) = while(!pred){atomically "
        "unlock+sleep; on notify or spuriously: relock}; notify_one lost when nobody sleeps; thread::join enabled once the thread function returned",
        "hand-written model (Tie B) tied to the code by forced-schedule replay: harness/C03/harness.cpp (scheduling controller, mutex probe for "
        "'asleep', private state via #define private public), ocaml/C03/driver.ml (edge enumeration, shortest paths), props/C03/check.py",
        "the scheduling points added to rkcommon/tasking/AsyncLoop.h under #ifdef RKCOMMON_VERIF (guard off: preprocessed source identical)",
        "fact extractor props/C03/factgen.py + tools/sxast/sxast.py over `clang++ -std=c++11 -DRKCOMMON_VERIF -fsyntax-only -Xclang -ast-dump=json` of "
        "the working tree's AsyncLoop.h (statement patterns -> coq/C03/gen/Facts.v); the meaning given to each micro-operation is "
        "coq/C03/FactsDefs.v (compile/exec), whose agreement with Model.step_loop/step_ctl is PropertiesFacts.v",
        "g++ -O1, libstdc++ std::thread/mutex/condition_variable; tasking::schedule of the OpenMP backend (detached std::thread) and of the TBB "
        "backend (task_arena::enqueue), tasking::initTaskingSystem / numTaskingThreads of both",
    ]
    ctx.assumptions += [
        "the loop body returns (body termination) and the OS scheduler is fair: the progress theorems are 'within K steps of the loop thread'",
        "TASK launch: the tasking backend eventually runs the scheduled loop task (C02's contract); the constructor's choice between the two "
        "modelled launches is Model.resolve (method, numTaskingThreads()), compared with backgroundThread.joinable() on 3 methods x 3 sizes x 2 backends",
        "one controller thread: start()/stop()/~AsyncLoop are not called concurrently with each other (as the class documents no thread-safety)",
        "17 model edges per launch method (controller locks the mutex while a notified sleeper has not yet re-locked) cannot be forced: "
        "on the real code the woken thread re-locks on its own; they are covered by the Coq theorems only",
    ]
    ctx.run_exe = ctx.sup.run          # every child from here on: global budget, process-group kill, heartbeat
    boosted = broken_fact is not None   # a source fact is broken: the stress families get a larger budget before giving up
    if not model or not exe or not exe_tbb or not exe_asan:
        # the harness that reaches into AsyncLoop's private state no longer builds against this tree (recorded as broken by
        # ctx.cxx): the public-interface stress family still does
        ctx.log("harness.cpp does not build against this tree -- forced schedules impossible; running the public-interface stress family")
        ctx.cov["forced"] = "NOT POSSIBLE: harness/C03/harness.cpp (private state, hooks) does not compile against this tree"
        if exe_st:
            ctx.sup.tighten()
            tight_family(ctx, exe_st, True)
            long_family(ctx, exe_st)
        return
    if boosted:
        # the correspondence is known to be broken; what is left to do is to find a concrete failing input: the cheap,
        # time-boxed unforced families first (<= 60 s), then the forced stages with what remains of a 3-minute budget
        ctx.sup.tighten()
        stress_stage(ctx, exe, exe_st, True)
    rc, out, err = ctx.run_exe(exe, ["probe"], timeout=BIG)
    hooks = "HOOKS=1" in out
    ctx.cov["hooks_present"] = hooks

    # ------------------------------------------------------------------ forced part
    if hooks and ctx.sup.go("forced replay of the model's schedules (OpenMP backend)", optional=False):
        hdr, cases = {}, []
        for l in ("T", "K"):
            rc, out, err = vlib.sh2([model, "paths", l, "repaired"], timeout=BIG)
            lines = out.strip().split("\n")
            m = re.match(r"# states=(\d+) forcible_states=(\d+) edges=(\d+) forcible_edges=(\d+) paths=(\d+)", lines[0]) if lines else None
            if rc != 0 or not m:
                ctx.broken.append("model driver 'paths %s' failed: %s" % (l, (out + err)[-200:]))
                return
            hdr[l] = dict(zip(("states", "forcible_states", "edges", "forcible_edges", "paths"), map(int, m.groups())))
            cases += ["R %s %s" % (l, p) for p in lines[1:]]
        # seeded random walks on top of the edge cover (longer histories: several start/stop rounds)
        r = ctx.rng("walks")
        nwalk = ctx.pick(300, 5000)
        walks = []
        for i in range(nwalk):
            l = "TK"[i % 2]
            n = r.randint(20, 120)
            walks.append("W %s %d %d" % (l, r.randint(1, 10 ** 9), n))
        rcw, outw, errw = vlib.sh2([model, "walks", "repaired"], stdin="\n".join(walks) + "\n", timeout=BIG)
        wl = [x for x in outw.strip().split("\n") if x.startswith("R ")]
        if rcw != 0 or len(wl) != nwalk:
            ctx.broken.append("model driver 'walks' failed: %s" % (outw + errw)[-200:])
        cases += wl
        rc2, refute, _ = vlib.sh2([model, "refute", "T"], timeout=BIG)
        refute = refute.strip()
        ctx.cov["model_graph"] = hdr

        mism, crashes, mlines = vlib.differential(ctx, cases, model, [("AsyncLoop", exe, ["replay"])], model_args=["run", "repaired"], timeout=BIG)
        first_killed = ctx.sup.killed()
        if first_killed:
            crashes = {}          # the supervisor has recorded it (slow / hanging); lines not produced are not findings
            mism = [m_ for m_ in mism if not m_[2].startswith("<no output")]
        if (mism or crashes) and ctx.sup.patient():
            # second opinion before anything is reported, 4x patience: first the schedules that really differ (at most 40);
            # those the harness skipped after 3 time-outs only if the first group turns out to be spurious
            real = sorted({i for (i, lab, il, ml) in mism if il != "SKIPPED"})[:(8 if ctx.sup.tight else 40)]
            rest = sorted({i for (i, lab, il, ml) in mism if il == "SKIPPED"})
            if crashes:
                n0 = min(n for (_, _, n) in crashes.values())
                rest = sorted(set(rest) | set(range(n0, len(cases))))
            ctx.cov["forced_reruns"] = {"schedules": len(real), "first_pass_examples": [m_[2][-160:] for m_ in mism[:3]]}
            mism2, crashes2 = [], {}
            for grp in (real, rest):
                if not grp or (grp is rest and mism2):
                    continue
                ctx.log("forced replay: re-running %d differing / not-run schedule(s) with 4x patience" % len(grp))
                rc2_, il2, err2_ = vlib.run_lines(ctx, exe, ["replay"], [cases[i] for i in grp], timeout=BIG, env=PATIENT)
                killed2 = ctx.sup.killed()
                for k, i in enumerate(grp):
                    il = il2[k] if k < len(il2) else ("SKIPPED" if killed2 else "<no output: harness died>")
                    if il != mlines[i]:
                        mism2.append((i, "AsyncLoop", il, mlines[i]))
                if rc2_ != 0 and not killed2:
                    crashes2["AsyncLoop"] = (rc2_, err2_[-3000:], grp[len(il2)] if len(il2) < len(grp) else len(cases))
            mism, crashes = mism2, crashes2
        steps = sum(len(tokens(c)) for c in cases)
        ctx.count(steps)
        hist = {}
        for c in cases:
            for t in tokens(c):
                hist[t] = hist.get(t, 0) + 1
            if interleaved(tokens(c)):
                ctx.nontriv(c)
        ctx.cov["forced"] = {"schedules": len(cases), "edge_cover_schedules": len(cases) - len(wl), "random_walk_schedules": len(wl),
                             "steps_compared": steps, "token_histogram": hist, "mismatching_schedules": len(mism),
                             "model_edges_forced": {l: "%d of %d" % (hdr[l]["forcible_edges"], hdr[l]["edges"]) for l in hdr}}
        for c in cases[:2] + wl[:1]:
            ctx.sample({"schedule": c, "model_and_impl_final": mlines[cases.index(c)].split(" ; ")[-1] if mlines else None})
        forced_viol = False
        for label, (rc, errt, n) in crashes.items():
            sched = cases[n] if n < len(cases) else None
            ctx.sup.hang_confirmed = True
            ctx.violation("forcing a schedule on the real AsyncLoop hangs or crashes the harness (rc=%d)" % rc,
                          {"launch": sched.split()[1] if sched else None, "schedule": " ".join(tokens(sched)) if sched else None,
                           "stderr_tail": errt[-500:], "required": ORACLE_TEXT["hang"][1]}, found_input=sched is not None)
            forced_viol = True
        corr = []
        skipped = sum(1 for (i, label, il, ml) in mism if il == "SKIPPED")
        ctx.cov["forced"]["schedules_skipped_after_3_timeouts"] = skipped
        for (i, label, il, ml) in mism:
            if il == "SKIPPED":
                continue
            if ("CLEANUP-HANG" in il or "STUCK:" in il) and not forced_viol:
                kind = "hang" if "CLEANUP-HANG" in il else "stuck"
                ctx.sup.hang_confirmed = True
                ctx.violation("forced schedule on the real AsyncLoop: " + ORACLE_TEXT[kind][0],
                              {"launch": cases[i].split()[1], "schedule": " ".join(tokens(cases[i])), "observed": il.split(" ; ")[-2:],
                               "model_final_state": ml.split(" ; ")[-1], "required": ORACLE_TEXT[kind][1]})
                forced_viol = True
            d = first_diff(il, ml)
            if d is None:
                continue
            k, x, y = d
            if "!VIOL:" in x and not forced_viol:
                kind = x.split("!VIOL:")[1].split()[0]
                ctx.violation("forced schedule on the real AsyncLoop: " + ORACLE_TEXT.get(kind, (kind,))[0],
                              {"launch": cases[i].split()[1], "schedule": " ".join(tokens(cases[i])[:k + 1]), "observed": x,
                               "model_state": y, "required": ORACLE_TEXT.get(kind, ("", kind))[1]})
                forced_viol = True
            corr.append("schedule %r step %d: impl %r / model %r" % (cases[i], k + 1, x, y))
        ctx.cov["first_mismatches"] = corr[:5]

        # the refuting schedule of the Original system, forced on the current tree
        out = ""
        if ctx.sup.go("refuting schedule of the Original model", optional=False):
            rc, out, err = ctx.run_exe(exe, ["replay"], stdin="R T %s\nR K %s\n" % (refute, refute), timeout=BIG)
            ctx.count(2 * len(refute.split()))
        rl = [x for x in out.strip().split("\n") if x]
        ctx.cov["refuting_schedule_on_this_tree"] = [x.split(" ; ")[-1] for x in rl]
        for l, x in zip("TK", rl):
            if "!VIOL:" in x and not forced_viol:
                k = [j for j, s in enumerate(x.split(" ; ")) if "!VIOL:" in s][0]
                ctx.violation("the 16-step schedule that refutes stop-safety of the un-repaired model reproduces on the real code: "
                              "the body runs after stop() returned",
                              {"launch": l, "schedule": " ".join(refute.split()[:k + 1]), "observed": x.split(" ; ")[k],
                               "required": ORACLE_TEXT["stop_safe"][1]})
                forced_viol = True

        # implementation-side exploration with the property oracles
        xs = {}
        for l in ("T", "K"):
            if not ctx.sup.go("implementation exploration (OpenMP backend, launch %s)" % l):
                continue
            xargs = ["explore", l, str(ctx.pick(3000, 20000)), str(ctx.pick(150000, 600000))]
            rc, out, err = ctx.run_exe(exe, xargs, timeout=BIG)
            if ("XVIOL " in out or "XDONE" not in out) and ctx.sup.patient() and not ctx.sup.killed():
                # second opinion with 4x patience; only what shows up again is reported
                ctx.log("exploration (launch %s) reported %s -- re-running with 4x patience"
                        % (l, sorted(set(re.findall(r"XVIOL (\w+)", out))) or "no result"))
                first = out
                rc, out, err = ctx.run_exe(exe, xargs, timeout=BIG, env=PATIENT)
                ctx.cov.setdefault("exploration_reruns", []).append({"launch": l, "first": first[-500:], "second": out[-500:]})
                k1 = set(re.findall(r"XVIOL (\w+)", first))
                out = "\n".join(ln for ln in out.split("\n") if not ln.startswith("XVIOL ") or ln.split()[1] in k1)
            for ln in out.split("\n"):
                if ln.startswith("XVIOL "):
                    kind, sched, detail = [s.strip() for s in ln[6:].split("|", 2)]
                    if kind == "stop_safe" and forced_viol:
                        continue
                    ctx.violation("exploration of the real AsyncLoop under the scheduling controller (launch %s): %s"
                                  % (l, ORACLE_TEXT.get(kind, (kind,))[0]),
                                  {"launch": l, "schedule": sched, "observed": detail, "oracle": kind,
                                   "required": ORACLE_TEXT.get(kind, ("", kind))[1]})
                m = re.search(r"XDONE states=(\d+) edges=(\d+) replays=(\d+) progress_checks=(\d+) complete=(\d) violations=(\d+)", ln)
                if m:
                    xs[l] = dict(zip(("states", "edges", "replays", "progress_checks", "complete", "violations"), map(int, m.groups())))
                    ctx.count(xs[l]["replays"])
            if l not in xs and ctx.sup.killed():
                pass
            elif l not in xs:
                if rc == 4 or "HANG" in out:
                    ctx.sup.hang_confirmed = True
                    ctx.violation("exploration of the real AsyncLoop: tearing down hangs (destructor / join does not return)",
                                  {"launch": l, "observed": out[-400:], "required": ORACLE_TEXT["hang"][1]}, found_input=False)
                else:
                    ctx.broken.append("implementation exploration (launch %s) did not finish: rc=%s %s" % (l, rc, (out + err)[-200:]))
            elif not xs[l]["complete"]:
                ctx.log("exploration (launch %s) stopped at its time budget after %d states -- graph sizes not compared" % (l, xs[l]["states"]))
                ctx.cov.setdefault("incomplete", []).append("implementation exploration launch %s: time budget reached after %d states" % (l, xs[l]["states"]))
            elif not ctx.violations and (xs[l]["states"], xs[l]["edges"]) != (hdr[l]["forcible_states"], hdr[l]["forcible_edges"]):
                ctx.broken.append("correspondence: the real code's state graph under the controller has %d states / %d edges, the model's has %d / %d (launch %s)"
                                  % (xs[l]["states"], xs[l]["edges"], hdr[l]["forcible_states"], hdr[l]["forcible_edges"], l))
        ctx.cov["implementation_exploration"] = xs

        # the same forced schedules / exploration on the TBB backend, for every requested method x tasking-system size;
        # the model system is (resolve method n)
        from concurrent.futures import ThreadPoolExecutor
        cover = {l: [c for c in cases[:len(cases) - len(wl)] if c.split()[1] == l] for l in ("T", "K")}
        cover_m = {l: [mlines[i] for i, c in enumerate(cases[:len(cases) - len(wl)]) if c.split()[1] == l] for l in ("T", "K")}
        cfgs = []
        for method in METHODS:
            for n in SIZES:
                rc_, exp, _ = vlib.sh2([model, "resolve", method, str(n)], timeout=BIG)
                cfgs.append((method, n, exp.strip()))
        if not ctx.sup.go("forced replay on the TBB backend (9 method x size configurations)"):
            cfgs = []
        with ThreadPoolExecutor(max_workers=3) as ex:
            res = list(ex.map(lambda c: forced_config(ctx, exe_tbb, c[0], c[1], cover[c[2]], cover_m[c[2]]), cfgs))
        tb = {}
        for (method, n, l), bad in zip(cfgs, res):
            nst = sum(len(tokens(c)) for c in cover[l])
            ctx.count(nst)
            tb["%s/%d" % (method, n)] = {"model_launch": l, "schedules": len(cover[l]), "steps_compared": nst, "mismatching": len(bad)}
            if bad:
                i, x, y = bad[0]
                d = first_diff(x, y) or (0, x, y)
                k, sx, sy = d
                kind = sx.split("!VIOL:")[1].split()[0] if "!VIOL:" in sx else ("hang" if "CLEANUP-HANG" in x else None)
                rep_ = {"backend": "tbb", "method": method, "nthreads": n, "launch": l, "schedule": " ".join(tokens(cover[l][i])[:k + 1]),
                        "observed": sx, "model_state": sy}
                if kind:
                    ctx.violation("forced schedule on the real AsyncLoop (TBB backend, requested launch %s, tasking system of %d threads): %s"
                                  % (method, n, ORACLE_TEXT.get(kind, (kind,))[0]), dict(rep_, required=ORACLE_TEXT.get(kind, ("", kind))[1]))
                else:
                    corr.append("TBB %s/%d schedule %r step %d: impl %r / model %r" % (method, n, cover[l][i], k + 1, sx, sy))
        xcfgs = cfgs if ctx.thorough() else [c for c in cfgs if (c[0], c[1]) in (("THREAD", 8), ("AUTO", 8), ("TASK", 2))]
        if xcfgs and not ctx.sup.go("implementation exploration on the TBB backend"):
            xcfgs = []
        with ThreadPoolExecutor(max_workers=3) as ex:
            xres = list(ex.map(lambda c: explore_config(ctx, exe_tbb, c[0], c[1], c[2], ctx.pick(3000, 20000), ctx.pick(600000, 3000000)), xcfgs))
        for (method, n, l), (rc, out) in zip(xcfgs, xres):
            key = "%s/%d" % (method, n)
            for ln in out.split("\n"):
                if ln.startswith("XVIOL "):
                    kind, sched, detail = [s.strip() for s in ln[6:].split("|", 2)]
                    ctx.violation("exploration of the real AsyncLoop under the scheduling controller (TBB backend, requested launch %s, "
                                  "tasking system of %d threads): %s" % (method, n, ORACLE_TEXT.get(kind, (kind,))[0]),
                                  {"backend": "tbb", "method": method, "nthreads": n, "launch": l, "schedule": sched, "observed": detail,
                                   "oracle": kind, "required": ORACLE_TEXT.get(kind, ("", kind))[1]})
                m = re.search(r"XDONE states=(\d+) edges=(\d+) replays=(\d+) progress_checks=(\d+) complete=(\d) violations=(\d+)", ln)
                if m:
                    tb[key]["exploration"] = dict(zip(("states", "edges", "replays", "progress_checks", "complete", "violations"), map(int, m.groups())))
                    ctx.count(int(m.group(3)))
                    if int(m.group(5)) and not ctx.violations and (int(m.group(1)), int(m.group(2))) != (hdr[l]["forcible_states"], hdr[l]["forcible_edges"]):
                        ctx.broken.append("correspondence (TBB %s): real state graph %s/%s vs model %d/%d"
                                          % (key, m.group(1), m.group(2), hdr[l]["forcible_states"], hdr[l]["forcible_edges"]))
            if "XDONE" not in out and rc != 124:
                ctx.broken.append("implementation exploration on TBB %s did not finish: rc=%s %s" % (key, rc, out[-200:]))
        ctx.cov["forced_tbb_by_method_and_size"] = tb
        if corr and not ctx.violations:
            ctx.broken.append("correspondence model vs AsyncLoop under forced schedules: %d of %d schedules differ; first: %s"
                              % (len(corr), len(cases), corr[0][:400]))
    elif not hooks:
        msg = ("this tree has no RKCOMMON_VERIF scheduling points in AsyncLoop.h (hook-1.patch not applied): forced replay of the model's "
               "schedules and the implementation-side exploration were NOT possible; only unforced and delay-injected stress was run")
        ctx.log("NOTE: " + msg)
        ctx.cov["forced"] = msg

    # ------------------------------------------------------------------ launch-method resolution (no hooks needed)
    launch_matrix(ctx, model, [("tbb", exe_tbb), ("omp", exe)])
    launch_memory_safety(ctx, exe_asan)

    # ------------------------------------------------------------------ unforced stress
    if not boosted:
        stress_stage(ctx, exe, exe_st, False)
    if ctx.thorough():
        tsan = ctx.cxx(["harness.cpp"], "harness_tsan", backend="omp", sanitize="tsan") if ctx.sup.go("TSan stress") else None
        if tsan:
            rc, out, err = ctx.run_exe(tsan, ["stress", "T", "3000", str(ctx.seed), "0", "120000"], timeout=BIG)
            ctx.cov["tsan_stress_rc"] = rc
            if rc == 97:
                ctx.broken.append("ThreadSanitizer reports a data race in AsyncLoop under stress: " + err[-600:])
        ctx.coq_thorough_chk(["C03.Properties", "C03.PropertiesFacts"])
    ctx.rule = ("forced schedules = for every edge of the model's reachable graph (both launch methods) a shortest path from the initial state "
                "followed by that edge, plus seeded random walks of 20-120 steps; each replayed step by step on the real AsyncLoop with all "
                "observables compared; non-trivial = the loop thread takes at least one step while the controller is inside start()/stop()/"
                "the destructor; evaluations = forced steps + implementation-exploration replays + stress cycles")
