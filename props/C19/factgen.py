#!/usr/bin/env python3
"""C19 fact extractor: reads the clang JSON AST of rkcommon/utility/TimeStamp.{h,cpp} and Observer.h in the
working tree and writes coq/C19/gen/Facts.v — per member function the list of statements it recognises, in the
vocabulary of coq/C19/FactsDefs.v (anything it does not recognise becomes SUnknown / TUnknown / ROther / false,
which makes the Coq obligations of PropertiesFacts.v fail).

usage: factgen.py [--repo DIR] [--out Facts.v] [--json facts.json] [--work DIR]
"""
import json
import os
import sys

HERE = os.path.dirname(os.path.abspath(__file__))
sys.path.insert(0, os.path.join(os.path.dirname(os.path.dirname(HERE)), "tools", "sxast"))
import sxast  # noqa: E402
from sxast import inner, ex, body_of, ctor_inits  # noqa: E402

INST = '#include "rkcommon/utility/Observer.h"\n#include "rkcommon/utility/TimeStamp.cpp"\n'
OMETHS = ["ODtorObservable", "ONotify", "ORegister", "ORemove", "OCtorObserver", "ODtorObserver", "OWasNotified"]


def unwrap(s):
    """drop single-argument constructions (iterator conversions, copies) everywhere"""
    if isinstance(s, tuple):
        if s and s[0] == "construct" and len(s) == 3:
            return unwrap(s[2])
        return tuple(unwrap(x) for x in s)
    if isinstance(s, list):
        return [unwrap(x) for x in s]
    return s


def subst(s, name, val):
    if isinstance(s, tuple):
        if len(s) == 3 and s[0] == "ref" and s[1] == name and s[2] == "VarDecl":
            return val
        return tuple(subst(x, name, val) for x in s)
    if isinstance(s, list):
        return [subst(x, name, val) for x in s]
    return s


def stmts(b):
    """flatten a body into a statement list; reference aliases (auto &o = observers;) are substituted"""
    if b is None:
        return None
    out = list(b[1]) if b[0] == "block" else [b]
    res = []
    for i, s in enumerate(out):
        if isinstance(s, tuple) and s and s[0] == "decl" and s[2].rstrip().endswith("&") and s[3] is not None:
            out[i + 1:] = [subst(x, s[1], s[3]) for x in out[i + 1:]]
            continue
        res.append(s)
    return [unwrap(x) for x in res]


def single(s):
    """the statement of a one-statement block"""
    while isinstance(s, tuple) and s and s[0] == "block" and len(s[1]) == 1:
        s = s[1][0]
    return s


THIS_VALUE = ("mem", "value", "this")


def is_param(s):
    return isinstance(s, tuple) and len(s) == 3 and s[0] == "ref" and s[2] == "ParmVarDecl"


# ------------------------------------------------------------------ TimeStamp
def ts_stmt(s):
    s = single(s)
    if s[0] == "expr":
        e = s[1]
        if e[0] == "op" and e[1] == "operator=" and len(e) == 4 and e[2] == THIS_VALUE:
            if e[3] == ("call", "nextValue"):
                return "TSetValueNext"
            r = e[3]
            if r[0] == "mcall" and r[1] == "load" and len(r) == 3 and r[2][0] == "mem" and r[2][1] == "value" and is_param(r[2][2]):
                return "TSetValueLoadOther"
        if e[0] == "mcall" and e[1] == "store" and e[2] == THIS_VALUE and len(e) == 4:
            if e[3] == ("call", "nextValue"):
                return "TSetValueNext"
            r = e[3]
            if r[0] == "mcall" and r[1] == "load" and len(r) == 3 and r[2][0] == "mem" and r[2][1] == "value" and is_param(r[2][2]):
                return "TSetValueLoadOther"
    if s == ("ret", ("un", "*", "pre", "this")):
        return "TRetThis"
    return "TUnknown"


def rmw_of(body):
    if not body or len(body) != 1 or body[0][0] != "ret" or body[0][1] is None:
        return "ROther"
    e = body[0][1]
    g = ("ref", "global", "VarDecl")
    if e == ("op", "operator++", g, ("int", "0")):
        return "RPostInc"
    if e == ("op", "operator++", g):
        return "RPreInc"
    if e[0] == "mcall" and e[1] == "fetch_add" and e[2] == g and e[3:4] == (("int", "1"),) \
            and (len(e) == 4 or (len(e) == 5 and e[4][0] == "ref" and e[4][1].startswith("memory_order"))):
        return "RFetchAdd1"
    return "ROther"


def extract_ts(docs, notes):
    f = {"ts_global_static": False, "ts_global_atomic": False, "ts_global_const_init": False, "ts_value_atomic": False, "ts_value_init_next": False,
         "ts_default_ctor_defaulted": False, "ts_next": "ROther", "ts_copy_ctor_inits_value": True,
         "ts_renew": ["TUnknown"], "ts_copy_ctor": ["TUnknown"], "ts_move_ctor": ["TUnknown"],
         "ts_copy_assign": ["TUnknown"], "ts_move_assign": ["TUnknown"], "ts_conv_returns_value": False}
    atomic = ("std::atomic<size_t>", "std::atomic<unsigned long>", "std::atomic<std::size_t>")
    for d in docs:
        k, nm = d.get("kind"), d.get("name")
        if k == "CXXRecordDecl" and nm == "TimeStamp" and d.get("completeDefinition"):
            for c in inner(d):
                ty = c.get("type", {}).get("qualType", "")
                if c.get("kind") == "FieldDecl" and c.get("name") == "value":
                    f["ts_value_atomic"] = ty in atomic
                    ini = [ex(x) for x in inner(c) if not x.get("kind", "").endswith("Comment")]
                    f["ts_value_init_next"] = bool(ini) and unwrap(ini[0]) == ("call", "nextValue")
                if c.get("kind") == "VarDecl" and c.get("name") == "global":
                    f["ts_global_static"] = c.get("storageClass") == "static"
                    f["ts_global_atomic"] = ty in atomic
                if c.get("kind") == "CXXConstructorDecl" and ty.startswith("void ()"):
                    f["ts_default_ctor_defaulted"] = c.get("explicitlyDefaulted") == "default"
                if c.get("kind") == "CXXMethodDecl" and c.get("name") == "nextValue" and c.get("storageClass") != "static":
                    notes.append("nextValue is not static")
            continue
        if k == "VarDecl" and nm == "global" and d.get("type", {}).get("qualType", "") in atomic:
            # the out-of-class definition: std::atomic<size_t> TimeStamp::global{0};
            ini = [unwrap(ex(x)) for x in inner(d) if not x.get("kind", "").endswith("Comment")]
            ok = (not ini) or ini[0] in (("int", "0"),) or (ini[0][0] == "int") or ini[0] == ("initlist",) \
                or (ini[0][0] == "construct" and len(ini[0]) == 2) or (ini[0][0] == "initlist" and len(ini[0]) == 2 and ini[0][1][0] == "int")
            f["ts_global_const_init"] = bool(ok)
            if not ok:
                notes.append("initialiser of TimeStamp::global: %r" % (ini,))
            continue
        b = stmts(body_of(d)) if k in ("CXXMethodDecl", "CXXConstructorDecl", "CXXConversionDecl") else None
        if b is None:
            continue
        ty = d.get("type", {}).get("qualType", "")
        if k == "CXXMethodDecl" and nm == "nextValue":
            f["ts_next"] = rmw_of(b)
            if f["ts_next"] == "ROther":
                notes.append("nextValue body: %r" % (b,))
        elif k == "CXXMethodDecl" and nm == "renew":
            f["ts_renew"] = [ts_stmt(s) for s in b]
        elif k == "CXXConstructorDecl" and "&" in ty:
            key = "ts_move_ctor" if "&&" in ty else "ts_copy_ctor"
            f[key] = [ts_stmt(s) for s in b]
            explicit = [w for (w, i) in ctor_inits(d) if w == "value" and i != ("definit",)]
            if key == "ts_copy_ctor":
                f["ts_copy_ctor_inits_value"] = bool(explicit)
            elif bool(explicit) != f["ts_copy_ctor_inits_value"]:
                f["ts_move_ctor"] = ["TUnknown"]
        elif k == "CXXMethodDecl" and nm == "operator=":
            f["ts_move_assign" if "&&" in ty.split("(", 1)[1] else "ts_copy_assign"] = [ts_stmt(s) for s in b]
        elif k == "CXXConversionDecl":
            if len(b) == 1 and b[0][0] == "ret" and b[0][1] is not None:
                e = b[0][1]
                f["ts_conv_returns_value"] = (e[0] == "mcall" and e[1] in ("operator unsigned long", "load") and e[2] == THIS_VALUE and len(e) == 3) \
                    or e == THIS_VALUE
    for kk in ("ts_renew", "ts_copy_ctor", "ts_move_ctor", "ts_copy_assign", "ts_move_assign"):
        if "TUnknown" in f[kk]:
            notes.append("%s not recognised" % kk)
    return f


# ------------------------------------------------------------------ Observable / Observer
OBSERVERS = ("mem", "observers", "this")
OBSERVEE = ("mem", "observee", "this")
STAR_THIS = ("un", "*", "pre", "this")


def addr_param(s):
    return isinstance(s, tuple) and s[:3] == ("un", "&", "pre") and is_param(s[3])


def conv(s):
    """TimeStamp -> size_t conversion: returns the TimeStamp expression or None"""
    if isinstance(s, tuple) and s[0] == "mcall" and s[1] == "operator unsigned long" and len(s) == 3:
        return s[2]
    return None


def o_stmt(meth, s, facts):
    s = single(s)
    k = s[0] if isinstance(s, tuple) else s
    if meth == "ONotify":
        if s == ("expr", ("mcall", "renew", ("mem", "lastNotified", "this"))):
            return "SRenewNotified"
    if meth == "ODtorObservable":
        if k == "forrange" and s[2] == OBSERVERS and s[1] and s[1][1].replace(" ", "").endswith("Observer*"):
            body = single(s[3])
            if body == ("expr", ("bin", "=", ("mem", "observee", ("ref", s[1][0], "VarDecl")), "nullptr")):
                return "SForAllRegsNullObservee"
        if k == "for" and s[1] and s[1][0] == "decl" and unwrap(s[1][3]) == ("int", "0"):
            i = ("ref", s[1][1], "VarDecl")
            cond_ok = s[2] in (("bin", "<", i, ("mcall", "size", OBSERVERS)), ("bin", "!=", i, ("mcall", "size", OBSERVERS)))
            inc_ok = s[3] in (("un", "++", "pre", i), ("un", "++", "post", i))
            body = single(s[4])
            if cond_ok and inc_ok and body == ("expr", ("bin", "=", ("mem", "observee", ("op", "operator[]", OBSERVERS, i)), "nullptr")):
                return "SForAllRegsNullObservee"
    if meth == "ORegister":
        if k == "expr" and s[1][:3] == ("mcall", "push_back", OBSERVERS) and len(s[1]) == 4 and addr_param(s[1][3]):
            return "SPushArg"
    if meth == "ORemove":
        if k == "expr" and s[1][:3] == ("mcall", "erase", OBSERVERS) and len(s[1]) == 5:
            rem, end = s[1][3], s[1][4]
            if end == ("mcall", "end", OBSERVERS) and rem[:2] == ("call", "remove") and len(rem) == 5 \
                    and rem[2] == ("mcall", "begin", OBSERVERS) and rem[3] == ("mcall", "end", OBSERVERS) and addr_param(rem[4]):
                return "SEraseRemoveArg"
    if meth == "OCtorObserver":
        if s == ("expr", ("mcall", "registerObserver", OBSERVEE, STAR_THIS)):
            return "SCallRegisterThis"
    if meth == "ODtorObserver":
        if k == "if" and s[3] is None and s[1] in (OBSERVEE, ("bin", "!=", OBSERVEE, "nullptr"), ("bin", "!=", "nullptr", OBSERVEE)):
            if single(s[2]) == ("expr", ("mcall", "removeObserver", OBSERVEE, STAR_THIS)):
                return "SIfObserveeCallRemoveThis"
    if meth == "OWasNotified":
        if k == "if" and s[3] is None and s[1] in (("un", "!", "pre", OBSERVEE), ("bin", "==", OBSERVEE, "nullptr"), ("bin", "==", "nullptr", OBSERVEE)) \
                and single(s[2]) == ("ret", ("bool", False)):
            return "SIfNoObserveeRetFalse"
        if k == "decl" and s[1] == "notified" and s[2] == "bool" and s[3] is not None and s[3][:2] == ("bin", "<"):
            a, b = conv(s[3][2]), conv(s[3][3])
            if a is not None and b is not None:
                facts["of_lt_via_size_t"] = True
            a = a if a is not None else s[3][2]
            b = b if b is not None else s[3][3]
            if a == ("mem", "lastObserved", "this") and b == ("mem", "lastNotified", OBSERVEE):
                return "SLetNotifiedLt"
        if k == "if" and s[3] is None and s[1] == ("ref", "notified", "VarDecl") \
                and single(s[2]) == ("expr", ("mcall", "renew", ("mem", "lastObserved", "this"))):
            return "SIfNotifiedRenewObserved"
        if s == ("ret", ("ref", "notified", "VarDecl")):
            return "SRetNotified"
    return "SUnknown"


def extract_obs(docs_b, docs_o, notes):
    tbl = {m: ["SUnknown"] for m in OMETHS}
    f = {"of_notified_is_timestamp": False, "of_observers_is_vector": False, "of_observable_ctor_defaulted": False,
         "of_observed_is_timestamp": False, "of_observee_init_arg": False, "of_observee_default_null": False,
         "of_lt_via_size_t": False}
    seen = set()
    for d in docs_b + docs_o:
        if d.get("id") in seen:
            continue
        seen.add(d.get("id"))
        k, nm = d.get("kind"), d.get("name")
        if k == "CXXRecordDecl" and d.get("completeDefinition"):
            for c in inner(d):
                ty = c.get("type", {}).get("qualType", "")
                ini = [unwrap(ex(x)) for x in inner(c) if not x.get("kind", "").endswith("Comment")] if c.get("kind") == "FieldDecl" else []
                if nm == "Observable":
                    if c.get("kind") == "FieldDecl" and c.get("name") == "lastNotified":
                        f["of_notified_is_timestamp"] = ty.endswith("TimeStamp") and not ini
                    if c.get("kind") == "FieldDecl" and c.get("name") == "observers":
                        f["of_observers_is_vector"] = ty.replace(" ", "") in ("std::vector<Observer*>", "std::vector<rkcommon::utility::Observer*>") and not ini
                    if c.get("kind") == "CXXConstructorDecl" and ty.startswith("void ()"):
                        f["of_observable_ctor_defaulted"] = c.get("explicitlyDefaulted") == "default"
                if nm == "Observer":
                    if c.get("kind") == "FieldDecl" and c.get("name") == "lastObserved":
                        f["of_observed_is_timestamp"] = ty.endswith("TimeStamp") and not ini
                    if c.get("kind") == "FieldDecl" and c.get("name") == "observee":
                        f["of_observee_default_null"] = ini in ([("initlist", "nullptr")], ["nullptr"])
            continue
        if k in ("CXXMethodDecl", "CXXConstructorDecl", "CXXDestructorDecl"):
            b = stmts(body_of(d))
            if b is None:
                continue
            mn = d.get("mangledName", "")
            # class of the member from its mangled name: _ZN8rkcommon7utility10Observable... / ...8Observer...
            cls = "Observable" if "7utility10Observable" in mn else ("Observer" if "7utility8Observer" in mn else None)
            meth = None
            if cls == "Observable" and k == "CXXDestructorDecl":
                meth = "ODtorObservable"
            elif cls == "Observable" and nm == "notifyObservers":
                meth = "ONotify"
            elif cls == "Observable" and nm == "registerObserver":
                meth = "ORegister"
            elif cls == "Observable" and nm == "removeObserver":
                meth = "ORemove"
            elif cls == "Observer" and k == "CXXConstructorDecl" and "Observable &" in d.get("type", {}).get("qualType", ""):
                meth = "OCtorObserver"
                inits = dict((w, unwrap(i)) for (w, i) in ctor_inits(d))
                f["of_observee_init_arg"] = addr_param(inits.get("observee")) and \
                    (inits.get("lastObserved") is None or (inits["lastObserved"][0] == "construct" and len(inits["lastObserved"]) == 2))
            elif cls == "Observer" and k == "CXXDestructorDecl":
                meth = "ODtorObserver"
            elif cls == "Observer" and nm == "wasNotified":
                meth = "OWasNotified"
            if meth:
                tbl[meth] = [o_stmt(meth, s, f) for s in b] or ["SUnknown"]
                if "SUnknown" in tbl[meth]:
                    notes.append("%s: not recognised: %r" % (meth, [s for s in b if o_stmt(meth, s, f) == "SUnknown"][:2]))
    return tbl, f


INV_INST = INST + """#include <utility>
namespace c19inv { using namespace rkcommon::utility;
// forces clang to declare the implicit special members (and shows which exist)
inline void use(Observable &a, Observer &b, TimeStamp &t) {
  Observable c(a); Observable d(std::move(a)); c = d; c = std::move(d);
  Observer e(b); Observer f(std::move(b)); e = f; e = std::move(f);
  TimeStamp u(t); TimeStamp v(std::move(t)); u = v; u = std::move(v); size_t s = u; (void)s; bool lt = u < v; (void)lt; } }
"""


def inventory(repo, work):
    """every member (incl. implicitly declared special members, fields, friends) of TimeStamp, Observable, Observer"""
    inv = {}
    for filt in ("rkcommon::utility::TimeStamp", "rkcommon::utility::Observable", "rkcommon::utility::Observer"):
        docs = sxast.dump(repo, work, INV_INST, filt, "c19_inv")
        inv.update(sxast.inventory(docs, classes=("TimeStamp", "Observable", "Observer")))
    # namespace-level functions / operators declared by the three files (none today: `<` on stamps is the built-in one after
    # the conversion to size_t)
    docs = sxast.dump(repo, work, INV_INST, "rkcommon::utility::", "c19_inv")
    for d in docs:
        if d.get("kind") in ("FunctionDecl", "FunctionTemplateDecl"):
            f = ((d.get("loc") or {}).get("includedFrom") or {}).get("file", "") + " " + str((d.get("loc") or {}).get("file", ""))
            ps = " ".join((p.get("type") or {}).get("qualType", "") for p in inner(d) if p.get("kind") == "ParmVarDecl")
            if "TimeStamp" in ps or "Observ" in ps:
                inv["%s %s" % (d.get("name"), (d.get("type") or {}).get("qualType", ""))] = {"kind": d.get("kind")}
    return inv


def coq_bool(b):
    return "true" if b else "false"


def coq_text(ts, tbl, of):
    L = ["(* GENERATED by props/C19/factgen.py from the working tree - do not edit, not under version control. *)",
         "From Coq Require Import List NArith.", "From C19 Require Import Model FactsDefs.", "Import ListNotations.", ""]
    lst = lambda l: "[" + "; ".join(l) + "]"     # noqa: E731
    L.append("Definition gen_ts : tsfacts :=\n  mkTs %s %s %s %s %s %s %s %s\n       %s %s %s\n       %s %s %s." % (
        coq_bool(ts["ts_global_static"]), coq_bool(ts["ts_global_atomic"]), coq_bool(ts.get("ts_global_const_init")), coq_bool(ts["ts_value_atomic"]),
        coq_bool(ts["ts_value_init_next"]), coq_bool(ts["ts_default_ctor_defaulted"]), ts["ts_next"],
        coq_bool(ts["ts_copy_ctor_inits_value"]), lst(ts["ts_renew"]), lst(ts["ts_copy_ctor"]), lst(ts["ts_move_ctor"]),
        lst(ts["ts_copy_assign"]), lst(ts["ts_move_assign"]), coq_bool(ts["ts_conv_returns_value"])))
    L.append("")
    L.append("Definition gen_tbl (m : ometh) : list ostmt :=\n  match m with")
    for m in OMETHS:
        L.append("  | %s => %s" % (m, lst(tbl[m])))
    L.append("  end.\n")
    L.append("Definition gen_of : ofacts :=\n  mkOf %s." % " ".join(coq_bool(of[k]) for k in (
        "of_notified_is_timestamp", "of_observers_is_vector", "of_observable_ctor_defaulted", "of_observed_is_timestamp",
        "of_observee_init_arg", "of_observee_default_null", "of_lt_via_size_t")))
    return "\n".join(L) + "\n"


def main(argv):
    import argparse
    ap = argparse.ArgumentParser()
    ap.add_argument("--repo", default=os.environ.get("VERIF_REPO", "/repo"))
    ap.add_argument("--out", default=None)
    ap.add_argument("--json", default=None)
    ap.add_argument("--work", default="/tmp/c19facts")
    a = ap.parse_args(argv)
    notes = []
    # a private include dir with the generated version header some trees need
    docs_ts = sxast.dump(a.repo, a.work, INST, "TimeStamp", "c19_inst")
    docs_b = sxast.dump(a.repo, a.work, INST, "Observable", "c19_inst")
    docs_o = sxast.dump(a.repo, a.work, INST, "Observer", "c19_inst")
    ts = extract_ts(docs_ts, notes)
    # second opinion from the compiler: does TimeStamp.cpp need a global constructor (dynamic initialisation)?
    import subprocess
    p = subprocess.run(["clang++", "-std=c++11", "-fsyntax-only", "-Wglobal-constructors", "-I" + a.repo, "-I" + a.work,
                        os.path.join(a.repo, "rkcommon/utility/TimeStamp.cpp")], stdout=subprocess.PIPE, stderr=subprocess.STDOUT,
                       universal_newlines=True, timeout=120)
    if p.returncode != 0 or "global constructor" in p.stdout:
        ts["ts_global_const_init"] = False
        notes.append("TimeStamp.cpp: " + ([l for l in p.stdout.splitlines() if "global constructor" in l or "error" in l] or [p.stdout[-300:]])[0][:300])
    tbl, of = extract_obs(docs_b, docs_o, notes)
    text = coq_text(ts, tbl, of)
    if a.out:
        os.makedirs(os.path.dirname(os.path.abspath(a.out)), exist_ok=True)
        old = open(a.out).read() if os.path.exists(a.out) else None
        if old != text:
            open(a.out, "w").write(text)
    else:
        sys.stdout.write(text)
    if a.json:
        json.dump({"ts": ts, "table": tbl, "of": of, "notes": notes}, open(a.json, "w"), indent=1)
    return 0


if __name__ == "__main__":
    sys.exit(main(sys.argv[1:]))
