"""C19 — Observers see each notification once; time stamps are unique and increasing.
Tie B: hand-written Gallina model (coq/C19/Model.v) with the theorems of coq/C19/Properties.v;
correspondence = extracted model vs the real Observable/Observer/TimeStamp classes on the same
histories (ASan+UBSan), plus a multi-threaded TimeStamp run checked against the property text."""
import json, os, re, sys, time
import vlib
sys.path.insert(0, os.path.dirname(os.path.abspath(__file__)))
import factgen  # noqa: E402

REPO_SRC = ["rkcommon/utility/TimeStamp.cpp"]
NB, NO = 2, 4


# ------------------------------------------------ validity of a history (C++ lifetime rules)
class Abs:
    """Who is alive (independent of any stamp)."""
    def __init__(self):
        self.b = set(); self.o = set()

    def valid(self, tok):
        f = tok.split(":")
        k = f[0]
        if k == "nb": return int(f[1]) not in self.b
        if k in ("db", "n"): return int(f[1]) in self.b
        if k == "no": return int(f[1]) not in self.o and int(f[2]) in self.b
        if k in ("do", "p"): return int(f[1]) in self.o
        return False

    def apply(self, tok):
        f = tok.split(":")
        k = f[0]
        if k == "nb": self.b.add(int(f[1]))
        elif k == "db": self.b.discard(int(f[1]))
        elif k == "no": self.o.add(int(f[1]))
        elif k == "do": self.o.discard(int(f[1]))


def valid_H(ops):
    a = Abs()
    for t in ops:
        if not a.valid(t): return False
        a.apply(t)
    return True


def valid_T(items):
    ex = set()
    for it in items:
        t, rest = it.split(".", 1)
        f = rest.split(":")
        key = (int(t), int(f[1]))
        if f[0] == "f": ex.add(key)
        elif f[0] == "r":
            if key not in ex: return False
        else:
            src = (int(f[2]), int(f[3]))
            if src not in ex: return False
            if f[0] in ("cc", "mc"):
                if src == key: return False
                ex.add(key)
            elif key not in ex: return False
    return True


# ---------------------------------------------------- independent property oracle (python)
# The property text, with no stamps: a notification marks every observer currently attached to
# that observable; a poll reports and clears the mark; destroying the observable detaches its
# observers for good (they report false); destroying an observer unregisters it.
def oracle_H(ops, priv=True, feats=None):
    regs, obs, outs = {}, {}, []          # regs[b] = observers in registration order; obs[o] = [b|None, mark]
    since = {}                            # notifications since last poll per observer (for the feature counts)
    for tok in ops:
        f = tok.split(":")
        k = f[0]
        out = "ok"
        if k == "nb": regs[int(f[1])] = []
        elif k == "db":
            b = int(f[1])
            if feats is not None and regs[b]: feats["observable_destroyed_first"] = 1
            for o in regs[b]: obs[o] = [None, False]
            del regs[b]
        elif k == "no":
            o, b = int(f[1]), int(f[2])
            obs[o] = [b, False]; regs[b].append(o); since[o] = 0
            if feats is not None and feats.get("_notified_%d" % b): feats["_late_%d" % o] = 1
        elif k == "do":
            o = int(f[1])
            if obs[o][0] is not None:
                regs[obs[o][0]].remove(o)
                if feats is not None: feats["observer_destroyed_first"] = 1
            elif feats is not None: feats["orphan_destroyed"] = 1
            del obs[o]
        elif k == "n":
            b = int(f[1])
            for o in regs[b]:
                obs[o][1] = True; since[o] = since.get(o, 0) + 1
            if feats is not None: feats["_notified_%d" % b] = 1
        elif k == "p":
            o = int(f[1])
            out = "true" if obs[o][1] else "false"
            if feats is not None:
                feats["poll_" + out] = feats.get("poll_" + out, 0) + 1
                if obs[o][1] and since.get(o, 0) >= 2: feats["coalesced"] = 1
                if obs[o][0] is None: feats["orphan_polled"] = 1
                if not obs[o][1] and feats.pop("_late_%d" % o, None): feats["late_observer_clean"] = 1
                if sum(1 for x in obs.values() if x[0] == obs[o][0] and x[0] is not None) >= 2 and obs[o][1]:
                    feats["shared_observable_true"] = 1
            obs[o][1] = False; since[o] = 0
        if priv:
            bs = " ".join("[" + ",".join(str(o) for o in regs[b]) + "]" if b in regs else "-" for b in range(NB))
            os_ = " ".join(("-" if o not in obs else
                            ("n." if obs[o][0] is None else "%d%s" % (obs[o][0], "+" if obs[o][1] else ".")))
                           for o in range(NO))
            out += "|" + bs + "|" + os_
        outs.append(out)
    return " ; ".join(outs)


def oracle_T(items):
    val, outs, nxt = {}, [], 0
    for it in items:
        t, rest = it.split(".", 1)
        f = rest.split(":")
        key = (int(t), int(f[1]))
        if f[0] in ("f", "r"):
            val[key] = nxt; nxt += 1          # any value larger than all before
        else:
            val[key] = val[(int(f[2]), int(f[3]))]
        vs = sorted(set(val.values()))
        outs.append(" ".join("%d.%d=%d" % (k[0], k[1], vs.index(val[k])) for k in sorted(val)))
    return " ; ".join(outs)


def oracle(case, priv=True):
    t = case.split()
    return oracle_H(t[1:], priv) if t[0] == "H" else oracle_T(t[1:])


def valid_case(kind, ops):
    return valid_H(ops) if kind == "H" else valid_T(ops)


_reg = re.compile(r"\[([0-9X,]*)\]")


def norm_hard(h):
    """Registration order inside an Observable is not part of the property: sort it."""
    return _reg.sub(lambda m: "[" + ",".join(sorted(m.group(1).split(","))) + "]" if m.group(1) else "[]", h)


def hard(line):
    return line.split(" ## ")[0]


# ------------------------------------------------------------------ generators
def gen_H(r, maxlen, nb=NB, no=NO):
    a = Abs()
    ops = []
    n = r.randint(1, maxlen)
    while len(ops) < n:
        c = r.random()
        if c < 0.30: cand = ["p:%d" % o for o in a.o]
        elif c < 0.55: cand = ["n:%d" % b for b in a.b]
        elif c < 0.72: cand = ["no:%d:%d" % (o, b) for o in range(no) if o not in a.o for b in a.b]
        elif c < 0.81: cand = ["do:%d" % o for o in a.o]
        elif c < 0.92: cand = ["nb:%d" % b for b in range(nb) if b not in a.b]
        else: cand = ["db:%d" % b for b in a.b]
        if not cand: continue
        t = r.choice(cand)
        a.apply(t); ops.append(t)
    return "H " + " ".join(ops)


def gen_T(r, maxlen):
    nt, nv = r.randint(1, 3), r.randint(1, 3)
    ex, items = [], []
    n = r.randint(1, maxlen)
    while len(items) < n:
        t, x = r.randrange(nt), r.randrange(nv)
        c = r.random()
        if c < 0.30 or not ex:
            items.append("%d.f:%d" % (t, x))
            if (t, x) not in ex: ex.append((t, x))
        elif c < 0.55:
            t, x = r.choice(ex); items.append("%d.r:%d" % (t, x))
        elif c < 0.78:
            s = r.choice(ex)
            if s == (t, x): continue
            items.append("%d.%s:%d:%d:%d" % (t, r.choice(["cc", "mc"]), x, s[0], s[1]))
            if (t, x) not in ex: ex.append((t, x))
        else:
            d, s = r.choice(ex), r.choice(ex)
            items.append("%d.%s:%d:%d:%d" % (d[0], r.choice(["ca", "ma"]), d[1], s[0], s[1]))
    return "T " + " ".join(items)


ALPHA_1 = ["nb:0", "db:0", "no:0:0", "no:1:0", "do:0", "do:1", "n:0", "p:0", "p:1"]
ALPHA_2 = ["nb:0", "nb:1", "db:0", "db:1", "no:0:0", "no:1:0", "no:1:1", "do:0", "do:1", "n:0", "n:1", "p:0", "p:1"]


def exhaustive_H(alpha, length):
    """All valid histories of length 1..length over the alphabet (depth-first)."""
    out = []

    def rec(prefix, b, o):
        if prefix: out.append("H " + " ".join(prefix))
        if len(prefix) == length: return
        for t in alpha:
            f = t.split(":")
            k = f[0]
            x = int(f[1])
            if k == "nb":
                if x in b: continue
                rec(prefix + [t], b | {x}, o)
            elif k == "db":
                if x not in b: continue
                rec(prefix + [t], b - {x}, o)
            elif k == "n":
                if x not in b: continue
                rec(prefix + [t], b, o)
            elif k == "no":
                if x in o or int(f[2]) not in b: continue
                rec(prefix + [t], b, o | {x})
            elif k == "do":
                if x not in o: continue
                rec(prefix + [t], b, o - {x})
            elif k == "p":
                if x not in o: continue
                rec(prefix + [t], b, o)
    rec([], frozenset(), frozenset())
    return out


# ------------------------------------------------------------------ running the real code
def run_impl(ctx, exe, cases, max_crashes=4):
    """Run the harness over all cases; after a sanitizer abort / crash continue behind the case
    that died.  Returns (lines, crashes) with crashes = [(case_index, rc, stderr_tail)]."""
    lines, crashes, start = [], [], 0
    while start < len(cases):
        rc, out, err = vlib.run_lines(ctx, exe, ["lines"], cases[start:], timeout=1500)
        if rc == 0 and len(out) == len(cases) - start:
            lines += out
            break
        good = out[:len(cases) - start]
        # the line of the dying case may be partially written or missing
        if len(good) and rc != 0 and len(good) > 0 and " ## " not in good[-1]:
            good = good[:-1]
        lines += good
        idx = start + len(good)
        if idx >= len(cases):
            crashes.append((len(cases) - 1, rc, err[-3000:]))
            break
        crashes.append((idx, rc, err[-3000:]))
        lines.append("<crash rc=%d>" % rc)
        start = idx + 1
        if len(crashes) >= max_crashes:
            lines += ["<not run>"] * (len(cases) - start)
            break
    return lines, crashes


def single(ctx, exe, line):
    rc, out, err = ctx.run_exe(exe, ["lines"], stdin=line + "\n", timeout=60)
    return rc, out.strip("\n"), err


def source_facts(ctx):
    """(c) regenerate coq/C19/gen/Facts.v from the working tree (clang AST of TimeStamp.{h,cpp}, Observer.h)."""
    gen_v = os.path.join(ctx.coqdir, "gen", "Facts.v")
    facts_js = os.path.join(ctx.build, "facts.json")
    try:
        factgen.main(["--repo", ctx.repo, "--out", gen_v, "--json", facts_js, "--work", os.path.join(ctx.build, "ast")])
        facts = json.load(open(facts_js))
    except Exception as ex:   # noqa
        ctx.broken.append("fact extraction failed: %r" % (ex,))
        facts = {"ts": {}, "table": {}, "of": {}, "notes": [repr(ex)[:500]]}
        os.makedirs(os.path.dirname(gen_v), exist_ok=True)
        ts = {k: False for k in ("ts_global_static", "ts_global_atomic", "ts_global_const_init", "ts_value_atomic", "ts_value_init_next",
                                 "ts_default_ctor_defaulted", "ts_copy_ctor_inits_value", "ts_conv_returns_value")}
        ts.update({"ts_next": "ROther"}, **{k: ["TUnknown"] for k in ("ts_renew", "ts_copy_ctor", "ts_move_ctor", "ts_copy_assign", "ts_move_assign")})
        open(gen_v, "w").write(factgen.coq_text(ts, {m: ["SUnknown"] for m in factgen.OMETHS},
                                                {k: False for k in ("of_notified_is_timestamp", "of_observers_is_vector", "of_observable_ctor_defaulted",
                                                                    "of_observed_is_timestamp", "of_observee_init_arg", "of_observee_default_null", "of_lt_via_size_t")}))
    ctx.cov["source_facts"] = {"timestamp": facts.get("ts"), "members": facts.get("table"), "fields": facts.get("of"), "notes": facts.get("notes")}
    return facts


# ------------------------------------------------------------------ inventory closure
# Every declaration of utility/Observer.h, utility/TimeStamp.h, utility/TimeStamp.cpp (clang AST, re-read on every run; implicit special
# members included) -> the theorems / source-derived obligations about it and the harness operations that execute it, or the reason it lies
# outside the property.  Harness operations: H:<op> history tokens, T:<op> TimeStamp program tokens, threads / static / counter runs.
_U = "rkcommon::utility::"
_ALL_T = ["T:f", "T:r", "T:cc", "T:mc", "T:ca", "T:ma"]
_COPY_OUT = ("copying / moving an Observable or Observer is not an operation of the property's histories (create, destroy, notify, poll); the "
             "implicitly declared operation does not maintain the registry - reported as a possible finding, repro build/handoff/C19/copy_repro.cpp")
COVER = {
    "class TimeStamp": {"by": ["facts_timestamp_counter"], "ops": _ALL_T},
    "class Observable": {"by": ["facts_members"], "ops": ["H:nb"]},
    "class Observer": {"by": ["facts_members"], "ops": ["H:no"]},
    "TimeStamp::TimeStamp void () noexcept(false) [=default]": {"by": ["timestamp_fresh_or_renewed", "stamps_fresh", "facts_timestamp_ops"], "ops": ["T:f", "H:nb", "H:no", "threads", "static"]},
    "TimeStamp::TimeStamp void (const %sTimeStamp &)" % _U: {"by": ["timestamp_copy_carries_source", "facts_timestamp_ops"], "ops": ["T:cc", "threads"]},
    "TimeStamp::TimeStamp void (%sTimeStamp &&)" % _U: {"by": ["timestamp_copy_carries_source", "facts_timestamp_ops"], "ops": ["T:mc", "threads"]},
    "TimeStamp::operator= %sTimeStamp &(const %sTimeStamp &)" % (_U, _U): {"by": ["timestamp_copy_carries_source", "facts_timestamp_ops"], "ops": ["T:ca", "threads"]},
    "TimeStamp::operator= %sTimeStamp &(%sTimeStamp &&)" % (_U, _U): {"by": ["timestamp_copy_carries_source", "facts_timestamp_ops"], "ops": ["T:ma", "threads"]},
    "TimeStamp::operator unsigned long size_t () const": {"by": ["facts_timestamp_counter", "facts_members"], "ops": _ALL_T + ["H:p", "threads"]},
    "TimeStamp::renew void ()": {"by": ["timestamp_fresh_or_renewed", "facts_timestamp_ops"], "ops": ["T:r", "H:n", "H:p", "threads"]},
    "TimeStamp::nextValue size_t () static": {"by": ["facts_next_is_fetch_add", "timestamp_concurrent_distinct", "timestamp_counter_exact"], "ops": ["T:f", "T:r", "threads", "counter"]},
    "TimeStamp::~TimeStamp void () noexcept [implicit] [=default]": {"by": ["facts_timestamp_counter"], "ops": _ALL_T + ["H:db", "H:do"]},
    "field TimeStamp::value std::atomic<size_t>": {"by": ["facts_timestamp_counter"], "ops": _ALL_T},
    "static-field TimeStamp::global std::atomic<size_t>": {"by": ["facts_timestamp_counter"], "ops": ["counter", "threads", "static"]},
    "Observable::Observable void () [=default]": {"by": ["facts_members", "facts_step", "stamps_fresh"], "ops": ["H:nb", "static"]},
    "Observable::~Observable void () noexcept virtual": {"by": ["facts_table_match", "facts_step", "observer_orphan", "no_use_after_free", "no_dangling"], "ops": ["H:db"]},
    "Observable::notifyObservers void ()": {"by": ["facts_table_match", "facts_step", "was_notified_exactly_when", "notifications_coalesce"], "ops": ["H:n", "static"]},
    "Observable::registerObserver void (%sObserver &)" % _U: {"by": ["facts_table_match", "facts_step", "no_dangling"], "ops": ["H:no"]},
    "Observable::removeObserver void (%sObserver &)" % _U: {"by": ["facts_table_match", "facts_step", "no_dangling", "no_use_after_free"], "ops": ["H:do"]},
    "Observable::Observable void (const %sObservable &) noexcept(false) [implicit] [=default]" % _U: {"out": _COPY_OUT},
    "Observable::operator= %sObservable &(const %sObservable &) noexcept(false) [implicit] [=default]" % (_U, _U): {"out": _COPY_OUT},
    "field Observable::lastNotified %sTimeStamp" % _U: {"by": ["facts_members"], "ops": ["H:n"]},
    "field Observable::observers std::vector<Observer *>": {"by": ["facts_members", "no_dangling"], "ops": ["H:no", "H:do", "H:db"]},
    "friend-of Observable: %sObserver" % _U: {"by": ["facts_table_match"], "ops": ["H:no", "H:do"]},
    "Observer::Observer void (%sObservable &)" % _U: {"by": ["facts_table_match", "facts_members", "facts_step", "late_observer_starts_clean"], "ops": ["H:no", "static"]},
    "Observer::~Observer void () noexcept": {"by": ["facts_table_match", "facts_step", "no_use_after_free"], "ops": ["H:do"]},
    "Observer::wasNotified bool ()": {"by": ["facts_table_match", "facts_step", "observer_spec", "was_notified_exactly_when", "notification_seen_once"], "ops": ["H:p", "static"]},
    "Observer::Observer void (const %sObserver &) noexcept(false) [implicit] [=default]" % _U: {"out": _COPY_OUT},
    "Observer::operator= %sObserver &(const %sObserver &) noexcept(false) [implicit] [=default]" % (_U, _U): {"out": _COPY_OUT},
    "field Observer::lastObserved %sTimeStamp" % _U: {"by": ["facts_members"], "ops": ["H:p", "H:no"]},
    "field Observer::observee %sObservable *" % _U: {"by": ["facts_members", "observer_orphan"], "ops": ["H:p", "H:db", "H:do"]},
    "friend-of Observer: %sObservable" % _U: {"by": ["facts_table_match"], "ops": ["H:db"]},
}


def inventory_check(ctx, counts):
    try:
        inv = factgen.inventory(ctx.repo, os.path.join(ctx.build, "ast"))
    except Exception as ex:   # noqa
        ctx.broken.append("inventory: extraction failed: %r" % (ex,))
        return
    problems, report = factgen.sxast.cover_check(inv, COVER, counts)
    for pb in problems[:8]:
        ctx.broken.append(pb)
    ctx.cov["inventory"] = {"declarations": len(inv), "covered": sum(1 for v in report.values() if isinstance(v, int)),
                            "out_of_scope": sum(1 for v in report.values() if not isinstance(v, int)), "problems": problems,
                            "executed": report}


class Stage:
    """One stage of the check: an exception inside it is recorded (ctx.broken names the stage) and the run goes on."""
    def __init__(self, ctx, name):
        self.ctx, self.name = ctx, name

    def __enter__(self):
        return self

    def __exit__(self, et, ev, tb):
        if et is not None and issubclass(et, Exception):
            import traceback
            self.ctx.log("stage %s raised:\n%s" % (self.name, "".join(traceback.format_exception(et, ev, tb))[-2000:]))
            self.ctx.broken.append("stage '%s' of the check raised %s: %s" % (self.name, et.__name__, str(ev)[:200]))
            return True
        return False


BUDGET_S = 210      # wall-clock budget of one run: searches / shrinkers stop (keeping what they have) when it is used up


FACT_THMS = ("facts_table_match", "facts_members", "facts_step", "facts_timestamp_counter", "facts_next_is_fetch_add", "facts_timestamp_ops")


def run(ctx):
    t_start = time.time()
    over_budget = lambda: time.time() - t_start > BUDGET_S      # noqa: E731
    facts, res, model = {"notes": ["not run"]}, {}, None
    with Stage(ctx, "fact extraction"):
        facts = source_facts(ctx)
    with Stage(ctx, "Coq build"):
        res = ctx.coq_check(("Properties.v", "PropertiesFactsObs.v", "PropertiesFactsTS.v"))
    bad_facts = [t for t in FACT_THMS if not res.get(t)]
    if bad_facts:
        ctx.log("source-derived obligations that no longer hold: %s; extractor notes: %s; extracted: %s"
                % (bad_facts, facts.get("notes"), json.dumps({"ts": facts.get("ts"), "table": facts.get("table"), "of": facts.get("of")})[:1500]))
    ctx.cov["source_obligations_broken"] = bad_facts
    with Stage(ctx, "extraction / OCaml model build"):
        model = ctx.extract(snippets=["conv_N.ml"])
    if not model:
        ctx.log("no executable model: the real code is judged by the independent python oracle alone; model-vs-code comparison skipped")
    priv = True
    nbroken = len(ctx.broken)
    jobs = [dict(sources=["harness.cpp"], out="harness", repo_sources=REPO_SRC, sanitize="asan", flags=["-DC19_PRIV"]),
            dict(sources=["harness.cpp"], out="threads", repo_sources=REPO_SRC, sanitize=None, opt="-O2", flags=["-DC19_PRIV", "-DC19_COUNTER"])]
    # static-initialisation scenario: the harness translation unit before / after TimeStamp.cpp in link order
    ts_cpp = os.path.join(ctx.repo, REPO_SRC[0])
    jobs.append(dict(sources=["harness.cpp"], out="static_first", repo_sources=REPO_SRC, sanitize="asan", flags=["-DC19_PRIV", "-DC19_STATIC_INIT"]))
    jobs.append(dict(sources=[ts_cpp, "harness.cpp"], out="static_last", repo_sources=[], sanitize="asan", flags=["-DC19_PRIV", "-DC19_STATIC_INIT"]))
    if ctx.thorough():
        jobs.append(dict(sources=["harness.cpp"], out="threads_tsan", repo_sources=REPO_SRC, sanitize="tsan", opt="-O1"))
    exes = ctx.cxx_many(jobs)
    exe, thr = exes[0], exes[1]
    static_exes = [("harness objects initialised BEFORE TimeStamp.cpp (harness first in link order)", exes[2]),
                   ("harness objects initialised AFTER TimeStamp.cpp (TimeStamp.cpp first in link order)", exes[3])]
    tsan = exes[4] if ctx.thorough() else None
    counter_exe = thr
    if thr is None:
        # the counter probe reaches into TimeStamp::global: if that no longer compiles, build the threads test without it
        ctx.broken[:] = [b for b in ctx.broken if b != "harness build threads"]
        thr = ctx.cxx(["harness.cpp"], "threads", repo_sources=REPO_SRC, sanitize=None, opt="-O2")
        ctx.log("the counter probe (presets the private static TimeStamp::global) does not compile against this tree: skipped")
    if exe is None:
        # the private members may have been renamed: fall back to the public interface only
        ctx.broken[:] = [b for b in ctx.broken if b != "harness build harness"]
        exe = ctx.cxx(["harness.cpp"], "harness_pub", repo_sources=REPO_SRC, sanitize="asan")
        if exe:
            ctx.log("private-state dump does not compile against this tree; comparing wasNotified results only")
            priv = False
    spriv = True
    if static_exes[0][1] is None or static_exes[1][1] is None:
        # same for the static-initialisation scenario: rebuild it on the public interface
        ctx.broken[:] = [b for b in ctx.broken if b not in ("harness build static_first", "harness build static_last")]
        pub = ctx.cxx_many([dict(sources=["harness.cpp"], out="static_first_pub", repo_sources=REPO_SRC, sanitize="asan", flags=["-DC19_STATIC_INIT"]),
                            dict(sources=[ts_cpp, "harness.cpp"], out="static_last_pub", repo_sources=[], sanitize="asan", flags=["-DC19_STATIC_INIT"])])
        static_exes = [(static_exes[0][0], pub[0]), (static_exes[1][0], pub[1])]
        spriv = False
    ctx.cov["private_state_dump"] = priv
    hist, tstat, sstat, probes = {}, {"runs": 0, "values": 0}, {"runs": 0}, {"runs": 0, "skipped": 0}
    bad = None

    if exe:
      with Stage(ctx, "histories on the real code"):
            if getattr(ctx, "replay", None):
                doc = json.load(open(ctx.replay))
                if doc.get("case"):
                    rc, out, err = single(ctx, exe, doc["case"])
                    ctx.log("replay case: %s\n  observed: %s (rc=%d)\n  required: %s" % (doc["case"], hard(out), rc, oracle(doc["case"], priv)))
                    if rc != 0: ctx.log(err[-1500:])

            # ------------------------------------------------------------ cases
            r = ctx.rng("cases")
            cases = []
            corpus = os.path.join(ctx.verif, "corpus", "C19", "cases.txt")
            if os.path.exists(corpus):
                for l in open(corpus):
                    l = l.strip()
                    if l and not l.startswith("#"):
                        t = l.split()
                        if valid_case(t[0], t[1:]): cases.append(l)
                        else: ctx.log("corpus case ignored (violates the lifetime rules): " + l)
            ncorp = len(cases)
            nrand = ctx.pick(6000, 60000)
            for i in range(nrand):
                cases.append(gen_H(r, 40))
            nrt = ctx.pick(2000, 20000)
            for i in range(nrt):
                cases.append(gen_T(r, 30))
            nfeat = len(cases)
            exh1 = exhaustive_H(ALPHA_1, ctx.pick(8, 9))
            exh2 = exhaustive_H(ALPHA_2, ctx.pick(7, 8))
            cases += exh1 + exh2
            ctx.log("cases: corpus %d, random histories %d, random TimeStamp programs %d, exhaustive %d + %d"
                    % (ncorp, nrand, nrt, len(exh1), len(exh2)))

            mlines = None
            if model:
                rc, mlines, merr = vlib.run_lines(ctx, model, [] if priv else ["nopriv"], cases, timeout=1500)
                if rc != 0 or len(mlines) != len(cases):
                    ctx.broken.append("model driver failed rc=%s lines=%d/%d %s" % (rc, len(mlines), len(cases), merr[-300:]))
                    mlines = None
            if mlines is None:
                # no model lines: the python oracle (the property text) is the reference for every case
                mlines = [oracle(c, priv) + " ## " for c in cases]
            ilines, crashes = run_impl(ctx, exe, cases)
            ctx.count(len(cases))

            # ------------------------------------------------------------ coverage / oracle cross-check
            hist, feats_tot, lens = {}, {}, {}
            oracle_bad = 0
            for c, ml in zip(cases[:nfeat], mlines[:nfeat]):
                t = c.split()
                for tok in t[1:]:
                    k = t[0] + ":" + (tok.split(":")[0] if t[0] == "H" else tok.split(".")[1].split(":")[0])
                    hist[k] = hist.get(k, 0) + 1
                lens[min(40, (len(t) - 1) // 10 * 10)] = lens.get(min(40, (len(t) - 1) // 10 * 10), 0) + 1
                if t[0] == "H":
                    feats = {}
                    exp = oracle_H(t[1:], priv, feats)
                    for k, v in feats.items():
                        if not k.startswith("_"): feats_tot[k] = feats_tot.get(k, 0) + (v if k.startswith("poll_") else 1)
                    # non-trivial: some poll saw a notification, some poll saw none, and an observable was
                    # destroyed or notifications coalesced
                    if feats.get("poll_true") and feats.get("poll_false") and (
                            feats.get("coalesced") or feats.get("observable_destroyed_first") or feats.get("late_observer_clean")):
                        ctx.nontriv(c)
                else:
                    exp = oracle_T(t[1:])
                    if len(set(ml.split(" ## ")[0].split(" ; ")[-1].split())) >= 3: ctx.nontriv(c)
                if norm_hard(hard(ml)) != norm_hard(exp):
                    oracle_bad += 1
                    if oracle_bad <= 3:
                        ctx.broken.append("python oracle and Coq model disagree on %r: model=%r oracle=%r" % (c, hard(ml)[:300], exp[:300]))
            for c in exh1 + exh2:
                if c.count(" p:") >= 2 and " n:" in c: ctx.nontriv(c)
            ctx.cov["op_histogram"] = hist
            ctx.cov["history_features"] = feats_tot
            ctx.cov["length_histogram"] = {str(k): v for k, v in sorted(lens.items())}
            ctx.cov["case_mix"] = {"corpus": ncorp, "random_histories": nrand, "random_timestamp_programs": nrt,
                                   "exhaustive_1obl_2obs": len(exh1), "exhaustive_2obl_2obs": len(exh2)}
            ctx.rule = ("valid histories (C++ lifetime rules respected) over 2 observables / 4 observers, random of length <= 40 plus ALL valid "
                        "histories up to length %d over a 9-op alphabet (1 observable, 2 observers) and up to length %d over a 13-op alphabet "
                        "(2 observables, 2 observers); sequentialised TimeStamp programs of up to 3 virtual threads; non-trivial = a history with "
                        "a poll that saw a notification and one that saw none plus coalescing / late observer / observable destroyed first "
                        "(random), or >= 2 polls and a notification (exhaustive); TimeStamp program with >= 3 distinct live values"
                        % (ctx.pick(8, 9), ctx.pick(7, 8)))
            for c in cases[ncorp:ncorp + 2] + cases[ncorp + nrand:ncorp + nrand + 1]:
                i = cases.index(c)
                ctx.sample({"case": c, "model": hard(mlines[i])[:400], "impl": hard(ilines[i])[:400]})

            # ------------------------------------------------------------ compare
            def fails_factory(kind):
                def fails(ops):
                    if over_budget() or not ops or not valid_case(kind, ops): return False
                    line = kind + " " + " ".join(ops)
                    rc, out, err = single(ctx, exe, line)
                    return rc != 0 or norm_hard(hard(out)) != norm_hard(oracle(line, priv))
                return fails

            for (idx, rc, err) in crashes:
                c = cases[idx]
                kind, ops = c.split()[0], c.split()[1:]
                small = vlib.shrink_list(ops, fails_factory(kind))
                line = kind + " " + " ".join(small)
                rc2, out, err2 = single(ctx, exe, line)
                san = re.search(r"(ERROR: AddressSanitizer: [^\n]*|runtime error: [^\n]*)", err2 or err)
                ctx.violation("the real code crashed / tripped a sanitizer on a valid history (rc=%d): %s" % (rc2 if rc2 else rc, san.group(1) if san else "abort"),
                              {"case": line, "original_case": c, "observed": hard(out), "required": oracle(line, priv) + "  (no crash, no sanitizer report)",
                               "stderr_tail": (err2 or err)[-2500:]})
            hard_mism, soft_mism, order_mism = [], 0, 0
            crashed = set(i for (i, _, _) in crashes)
            for i, (il, ml) in enumerate(zip(ilines, mlines)):
                if il == ml or i in crashed or il == "<not run>":
                    continue
                hi, hm = hard(il), hard(ml)
                if hi == hm: soft_mism += 1
                elif norm_hard(hi) == norm_hard(hm): order_mism += 1
                else: hard_mism.append(i)
            ctx.cov["mismatches"] = len(hard_mism)
            ctx.cov["stamp_offset_differences_informational"] = soft_mism
            ctx.cov["registration_order_differences_informational"] = order_mism
            if soft_mism or order_mism:
                ctx.log("note: %d cases differ from the model only in absolute stamp offsets, %d only in registration order "
                        "(not part of the property; not an alarm)" % (soft_mism, order_mism))
            reported = 0
            broken_corr = 0
            for i in sorted(hard_mism, key=lambda i: len(cases[i])):
                if reported >= 2 or broken_corr >= 2: break
                c = cases[i]
                kind, ops = c.split()[0], c.split()[1:]
                exp = oracle(c, priv)
                if norm_hard(hard(ilines[i])) != norm_hard(exp):
                    small = vlib.shrink_list(ops, fails_factory(kind))
                    line = kind + " " + " ".join(small)
                    rc2, out, err2 = single(ctx, exe, line)
                    what = "Observer/Observable history" if kind == "H" else "TimeStamp program"
                    ctx.violation("%s: the real code contradicts the property text" % what,
                                  {"case": line, "observed": hard(out), "required": oracle(line, priv), "original_case": c,
                                   "model": hard(mlines[i]) if small == ops else None,
                                   "legend": "H step: result|registered observers per observable|per observer <observee><+ pending/. not>, X = dangling; "
                                             "T step: dense rank of each live variable's value"})
                    reported += 1
                else:
                    broken_corr += 1
                    ctx.broken.append("correspondence C19 model vs real code on case %r: impl=%r model=%r (impl satisfies the property oracle)"
                                      % (c, hard(ilines[i])[:200], hard(mlines[i])[:200]))

    if any(e for _, e in static_exes):
      with Stage(ctx, "static-initialisation scenario"):
            # ------------------------------------------------------------ objects created, notified and polled before main()
            GLOB_OK = "pre:increasing,010 main:increasing,101010"
            rs = ctx.rng("static")
            scases = [("H", 0), ("H nb:0 no:0:0 n:0 p:0 n:0 n:0 no:1:0 p:0 p:0 p:1 db:0 p:0", 3), ("H nb:0 no:0:0 no:1:0 n:0 p:0 p:1 p:0", 4),
                      ("H nb:1 n:1 no:2:1 p:2 n:1 p:2 p:2", 7)]
            for _ in range(ctx.pick(20, 120)):
                c = gen_H(rs, 16)
                scases.append((c, rs.randint(0, len(c.split()) - 1)))

            def run_static(sexe, ops, k):
                rc, out, err = ctx.run_exe(sexe, ["static"], env={"C19_PRE": " ".join(ops[:k]), "C19_POST": " ".join(ops[k:])}, timeout=60)
                line = out.strip("\n")
                parts = line.split(" ## ")
                return rc, (parts[0] if parts else ""), (parts[2] if len(parts) > 2 else ""), err

            def static_bad(sexe, ops, k):
                if over_budget() or not valid_H(ops):
                    return False
                rc, hd, gl, err = run_static(sexe, ops, min(k, len(ops)))
                exp = oracle_H(ops, spriv) if ops else ""
                return rc != 0 or gl != GLOB_OK or norm_hard(hd) != norm_hard(exp)
            sstat = {"runs": 0}
            for (what, sexe) in static_exes:
                if not sexe:
                    continue
                found = None
                for (c, k) in scases:
                    ops = c.split()[1:]
                    sstat["runs"] += 1
                    ctx.count(1)
                    if static_bad(sexe, ops, k):
                        found = (ops, k)
                        break
                    if k and len(ops) > k:
                        ctx.nontriv("static %s %d %s" % (c, k, what[:30]))
                if found:
                    ops, k = found
                    pre, post = ops[:k], ops[k:]
                    # shrink: first the part run in main, then the part run before main
                    if static_bad(sexe, [], 0):
                        pre, post = [], []             # the namespace-scope objects alone show it
                    else:
                        post = vlib.shrink_list(post, lambda q: static_bad(sexe, pre + q, len(pre)))
                        pre = vlib.shrink_list(pre, lambda q: static_bad(sexe, q + post, len(q)))
                    ops = pre + post
                    rc, hd, gl, err = run_static(sexe, ops, len(pre))
                    ctx.violation("objects with static storage duration / a history begun before main(): the real code contradicts the property text (%s)" % what,
                                  {"case": "H " + " ".join(ops), "executed_before_main": " ".join(pre), "executed_in_main": " ".join(post), "link_order": what,
                                   "observed": hd, "required": oracle_H(ops, spriv) if ops else "",
                                   "namespace_scope_objects_observed": gl, "namespace_scope_objects_required": GLOB_OK,
                                   "legend": "namespace-scope TimeStamp, Observable, two Observers, TimeStamp; pre: their stamps in creation order, then poll A / notify / poll A / poll A "
                                             "before main; main: a fresh and a renewed stamp larger than all earlier ones, then poll B, B / notify x2 / poll A, A, B, B",
                                   "rc": rc, "stderr_tail": err[-1200:],
                                   "rerun": "C19_PRE='%s' C19_POST='%s' %s static" % (" ".join(pre), " ".join(post), sexe)})
            ctx.cov["static_init_scenario"] = sstat
    if thr:
      with Stage(ctx, "threads test"):
            # ------------------------------------------------------------ threads
            configs = [(2, 100000), (3, 100000), (4, 100000), (8, 100000), (16, 100000)]
            rounds = ctx.pick(2, 6)
            tstat = {"runs": 0, "values": 0}
            bad = None
            for rd in range(rounds):
                for (n, it) in configs:
                    rc, out, err = ctx.run_exe(thr, ["threads", str(n), str(it)], timeout=300)
                    tstat["runs"] += 1
                    m = re.search(r"OK threads=\d+ values=(\d+)", out)
                    if rc == 0 and m:
                        tstat["values"] += int(m.group(1)); ctx.count(1); ctx.nontriv("threads %d %d %d" % (n, it, rd))
                    elif bad is None:
                        bad = (n, it, rc, out.strip()[:500], err[-1500:])
            if tsan:
                for (n, it) in [(2, 20000), (4, 20000), (8, 10000), (16, 5000)]:
                    rc, out, err = ctx.run_exe(tsan, ["threads", str(n), str(it)], timeout=600)
                    tstat["runs"] += 1
                    if rc == 0 and out.startswith("OK"):
                        ctx.count(1); tstat["tsan_runs"] = tstat.get("tsan_runs", 0) + 1
                    elif bad is None:
                        bad = (n, it, rc, out.strip()[:500], "[TSan build] " + err[-1500:])
            ctx.cov["threads_test"] = tstat
    if True:
      with Stage(ctx, "counter probes"):
            # ------------------------------------------------------------ counter probes (private static TimeStamp::global preset)
            # the counter is a 64-bit size_t: a value narrowed on its way out of nextValue() repeats / decreases when the counter
            # passes 2^31, 2^32 ...; wrap-around at 2^64 itself is outside the property's reach (model counter unbounded)
            probes = {"runs": 0, "skipped": 0}
            if counter_exe and not bad:
                for start in ((1 << 31) - 8, (1 << 32) - 8, (1 << 63) - 8, (1 << 16) - 8):
                    for (n, it) in ((1, 16), (2, 16)):
                        rc, out, err = ctx.run_exe(counter_exe, ["counter", str(start), str(n), str(it)], timeout=120)
                        probes["runs"] += 1
                        o = out.strip()
                        if o.startswith("SKIP"):
                            probes["skipped"] += 1
                        elif rc == 0 and o.startswith("OK"):
                            m = re.search(r"min=(\d+) max=(\d+)", o)
                            if m and int(m.group(1)) >= start:
                                ctx.count(1); ctx.nontriv("counter %d %d %d" % (start, n, it))
                            elif bad is None:
                                bad = (n, it, rc, "stamps handed out after the counter was set to %d: %s (values below the counter)" % (start, o), err[-800:], start)
                        elif bad is None:
                            bad = (n, it, rc, o[:500] or "rc=%d" % rc, err[-1500:], start)
                if bad and len(bad) == 6:
                    ctx.violation("TimeStamp with the global counter at %d (%s): %s" % (bad[5], "2^%d - 8" % ((bad[5] + 8).bit_length() - 1) if (bad[5] + 8) & (bad[5] + 7) == 0 else bad[5], bad[3]),
                                  {"counter_start": bad[5], "threads": bad[0], "iterations_per_thread": bad[1], "rc": bad[2], "observed": bad[3], "stderr_tail": bad[4],
                                   "required": "every stamp created or renewed is larger than all earlier ones of its thread and distinct from all others, also when the "
                                               "64-bit counter passes 2^31 / 2^32 / 2^63",
                                   "rerun": "%s counter %d %d %d" % (counter_exe, bad[5], bad[0], bad[1])})
                    bad = None
            ctx.cov["counter_probes"] = probes
            if bad:
                ctx.violation("TimeStamp under concurrent creation/renewal/copy contradicts the property text: %s" % (bad[3] or "rc=%d" % bad[2]),
                              {"threads": bad[0], "iterations_per_thread": bad[1], "rc": bad[2], "observed": bad[3], "stderr_tail": bad[4],
                               "required": "all fresh/renewed values pairwise distinct, strictly increasing per thread, copies equal their source, no data race",
                               "rerun": "%s threads %d %d" % (thr, bad[0], bad[1])})
    counts = dict(hist)
    counts["threads"] = tstat.get("runs", 0)
    counts["static"] = sstat.get("runs", 0)
    counts["counter"] = probes.get("runs", 0) - probes.get("skipped", 0)
    inventory_check(ctx, counts)
    ctx.trusted += ["fact extractor props/C19/factgen.py + tools/sxast/sxast.py over `clang++ -std=c++11 -fsyntax-only -Xclang -ast-dump=json` of the working tree's "
                    "TimeStamp.{h,cpp} and Observer.h (statement patterns -> coq/C19/gen/Facts.v; the meaning given to each statement is coq/C19/FactsDefs.v)",
                    "correspondence harness harness/C19/harness.cpp + generators/oracle in props/C19/check.py (g++ -O1, ASan+UBSan; threads test -O2"
                    + ("; TSan build" if tsan else "") + ")",
                    "modelled, not verified: std::vector push_back / std::remove+erase, operator new/delete (the harness keeps every object on the heap "
                    "so ASan sees stale pointers), std::atomic<size_t> post-increment as one indivisible fetch-add (the threads run observes it)"]
    ctx.assumptions += ["the counter is an unbounded N in the model: wrap-around of size_t after 2^64 stamps is outside the property's reach and not modelled "
                        "(the harness presets the real counter to 2^16-8, 2^31-8, 2^32-8, 2^63-8 to see that nothing narrower than 64 bits is in the way)",
                        "histories respect the C++ lifetime rules (no call on a destroyed object, no double delete); Observer/Observable are not copied "
                        "(their implicit copy operations are outside the property's alphabet)",
                        "Observable/Observer operations are sequential (the classes are not thread-safe and the property does not ask for it); "
                        "only TimeStamp is exercised from several threads"]
    if ctx.thorough():
        ctx.coq_thorough_chk(["C19.Properties", "C19.PropertiesFactsObs", "C19.PropertiesFactsTS"])
