#!/usr/bin/env python3
"""C12 lockset extractor: member-field access table of TransactionalBuffer.h and
TransactionalValue.h, regenerated from the working tree on every run.

For every method body (in-class or out-of-class definition) of every class in the two
headers, each occurrence of a non-mutex data member is recorded with
  write   anything that is not recognisably a plain read (conservative),
  atomic  the member's declared type mentions std::atomic,
  lock    the mutex *member* locked by a lock_guard / unique_lock / scoped_lock object
          (or a manual m.lock() ... m.unlock()) in scope at the access, "" if none.
Output: a Coq file defining `table : list access` (coq/C12/gen/Locks.v), and, as a
python module, the table plus an independent evaluation of the lockset rule that names
the conflicting pair (used for the replay file).

usage: lockgen.py [--repo DIR] [--out FILE]
"""
import os
import re
import sys

HEADERS = ["rkcommon/containers/TransactionalBuffer.h", "rkcommon/utility/TransactionalValue.h"]
CONST_CALLS = {"size", "empty", "capacity", "load", "cbegin", "cend", "count", "length", "max_size"}
READ_CONTEXT = {"if", "while", "switch", "return", "for", "sizeof", ""}
GUARD_RE = re.compile(r"(?:std\s*::\s*)?(lock_guard|unique_lock|scoped_lock)\s*(?:<[^;(){}]*>)?\s+(\w+)\s*[({]\s*(?:this\s*->\s*)?(\w+)\s*[)}]")


def strip_comments(src):
    """Blank out comments and string/char literals, keeping offsets and newlines."""
    out = list(src)
    i, n = 0, len(src)
    while i < n:
        if src.startswith("//", i):
            j = src.find("\n", i)
            j = n if j < 0 else j
            for k in range(i, j):
                out[k] = " "
            i = j
        elif src.startswith("/*", i):
            j = src.find("*/", i + 2)
            j = n if j < 0 else j + 2
            for k in range(i, j):
                if out[k] != "\n":
                    out[k] = " "
            i = j
        elif src[i] in "\"'":
            q = src[i]
            j = i + 1
            while j < n and src[j] != q:
                j += 2 if src[j] == "\\" else 1
            for k in range(i + 1, min(j, n)):
                if out[k] != "\n":
                    out[k] = " "
            i = j + 1
        else:
            i += 1
    return "".join(out)


def match_close(s, i, open_c="{", close_c="}"):
    """s[i] == open_c; return index of the matching close_c (or -1)."""
    d = 0
    for j in range(i, len(s)):
        if s[j] == open_c:
            d += 1
        elif s[j] == close_c:
            d -= 1
            if d == 0:
                return j
    return -1


def find_classes(s):
    """[(name, body_start, body_end)] for every class/struct definition."""
    res = []
    for m in re.finditer(r"\b(struct|class)\s+(\w+)\s*(?:final\s*)?(?::[^;{]*)?\{", s):
        # skip "template <class T>" / "typename" uses: those have no '{' directly, the regex
        # requires one, but "enum class X {" must be skipped
        pre = s[max(0, m.start() - 6):m.start()]
        if re.search(r"enum\s*$", pre):
            continue
        b = m.end() - 1
        e = match_close(s, b)
        if e > 0:
            res.append((m.group(2), b, e))
    return res


def split_members(s, b, e):
    """Top-level pieces of a class body: ('stmt', text, pos) for 'xxx;' and
    ('def', head, pos, body_start, body_end) for 'head { body }'."""
    items = []
    i = b + 1
    start = i
    while i < e:
        c = s[i]
        if c == ";":
            items.append(("stmt", s[start:i], start))
            start = i + 1
        elif c == "{":
            head = s[start:i]
            j = match_close(s, i)
            if j < 0:
                break
            if "(" in head:                         # in-class method definition
                items.append(("def", head, start, i, j))
                i = j
                k = i + 1
                while k < e and s[k].isspace():
                    k += 1
                start = k + 1 if k < e and s[k] == ";" else i + 1
                i = start - 1
            else:                                   # brace initialiser of a data member / nested type
                i = j
        elif c == "(":
            j = match_close(s, i, "(", ")")
            i = j if j > 0 else i
        i += 1
    return items


def parse_fields(s, b, e):
    """{name: type} for the data members declared in the class body."""
    fields = {}
    for it in split_members(s, b, e):
        if it[0] != "stmt":
            continue
        t = re.sub(r"\b(public|private|protected)\s*:", " ", it[1]).strip()
        if not t or "(" in t:
            continue
        if re.match(r"(using|typedef|friend|static_assert|enum|struct|class|template)\b", t):
            continue
        t = re.sub(r"\{[^{}]*\}\s*$", "", t)        # brace initialiser
        t = re.sub(r"=[^=<>]*$", "", t).strip()     # = initialiser
        m = re.search(r"(\w+)\s*(?:\[[^\]]*\])?$", t)
        if not m:
            continue
        name = m.group(1)
        typ = t[:m.start()].strip()
        if not typ:
            continue
        fields[name] = typ
    return fields


def line_of(s, pos):
    return s.count("\n", 0, pos) + 1


def method_name(cls, raw):
    raw = re.sub(r"\s+", "", raw)
    if raw == cls:
        return "<ctor>"
    if raw == "~" + cls:
        return "<dtor>"
    return raw


def find_methods(s, classes):
    """[(cls, method, return_type_text, body_start, body_end, prelude_text)]"""
    res = []
    names = {c[0] for c in classes}
    # in-class definitions
    for (cls, b, e) in classes:
        for it in split_members(s, b, e):
            if it[0] != "def":
                continue
            head = it[1]
            m = re.search(r"(operator\s*[^\s(]+|~?\w+)\s*\(", head)
            if not m:
                continue
            p = head.find("(", m.start())
            pe = match_close(head, p, "(", ")")
            res.append((cls, method_name(cls, m.group(1)), head[:m.start()], it[3], it[4],
                        head[pe + 1:] if pe > 0 else ""))
    # out-of-class definitions  Class<...>::name(...) quals { body }
    for cls in names:
        for m in re.finditer(r"\b%s\s*(?:<[^<>;{}()]*>)?\s*::\s*(operator\s*[^\s(]+|~?\w+)\s*\(" % re.escape(cls), s):
            p = m.end() - 1
            pe = match_close(s, p, "(", ")")
            if pe < 0:
                continue
            k = pe + 1
            while k < len(s) and s[k] not in "{;":
                if s[k] == "(":
                    k = match_close(s, k, "(", ")")
                    if k < 0:
                        break
                k += 1
            if k < 0 or k >= len(s) or s[k] != "{":
                continue
            be = match_close(s, k)
            if be < 0:
                continue
            # return type: text back to the previous ';' '}' or '>' of a template header
            q = m.start()
            r0 = max(s.rfind(";", 0, q), s.rfind("}", 0, q))
            ret = s[r0 + 1:q]
            ret = re.sub(r"template\s*<[^<>]*>", " ", ret)
            res.append((cls, method_name(cls, m.group(1)), ret, k, be, s[pe + 1:k]))
    return res


def enclosing_call(s, pos, lo):
    """Name of the call whose argument list contains pos (scanning back to lo), '' if a
    plain parenthesis, None if pos is not inside parentheses."""
    d = 0
    i = pos - 1
    while i >= lo:
        c = s[i]
        if c == ")":
            d += 1
        elif c == "(":
            if d == 0:
                j = i - 1
                while j >= lo and s[j].isspace():
                    j -= 1
                if j >= lo and s[j] == ">":           # f<...>(
                    dd = 0
                    while j >= lo:
                        if s[j] == ">":
                            dd += 1
                        elif s[j] == "<":
                            dd -= 1
                            if dd == 0:
                                break
                        j -= 1
                    j -= 1
                    while j >= lo and s[j].isspace():
                        j -= 1
                k = j
                while k >= lo and (s[k].isalnum() or s[k] in "_:"):
                    k -= 1
                return s[k + 1:j + 1]
            d -= 1
        elif c in ";{}" and d == 0:
            return None
        i -= 1
    return None


def classify(s, pos, end, lo, ret_type):
    """True if the access at s[pos:end] must be treated as a write."""
    after = s[end:end + 40].lstrip()
    before = s[max(lo, pos - 40):pos].rstrip()
    if re.match(r"(=(?!=)|\+=|-=|\*=|/=|%=|&=|\|=|\^=|<<=|>>=|\+\+|--)", after):
        return True
    if before.endswith("++") or before.endswith("--"):
        return True
    if before.endswith("&") and not before.endswith("&&"):
        # address-of (a binary & would have an operand before it; stay conservative)
        return True
    m = re.match(r"(\.|->)\s*(\w+)", after)
    if m:
        return m.group(2) not in CONST_CALLS
    if after.startswith("["):
        return True
    call = enclosing_call(s, pos, lo)
    if call is not None and call not in READ_CONTEXT:
        return True                                   # argument of a call: may bind by reference / be moved from
    if re.search(r"\breturn$", before):
        rt = ret_type
        if ("&" in rt or "*" in rt) and not re.search(r"\bconst\b", rt):
            return True                               # hands out a mutable reference
    return False


def analyse(repo):
    rows = []
    info = {"files": [], "fields": {}}
    for h in HEADERS:
        path = os.path.join(repo, h)
        try:
            raw = open(path, errors="replace").read()
        except OSError:
            info["files"].append((h, "missing"))
            continue
        info["files"].append((h, "ok"))
        s = strip_comments(raw)
        classes = find_classes(s)
        fields_of = {c[0]: parse_fields(s, c[1], c[2]) for c in classes}
        info["fields"].update({c: dict(f) for c, f in fields_of.items()})
        for (cls, meth, ret, b, e, prelude) in find_methods(s, classes):
            fields = fields_of.get(cls, {})
            mutexes = {f for f, t in fields.items() if "mutex" in t}
            data = {f: t for f, t in fields.items() if f not in mutexes}
            if not data:
                continue
            # constructor initialiser list
            for m in re.finditer(r"\b(\w+)\s*[({]", prelude):
                if m.group(1) in data:
                    rows.append(dict(cls=cls, method=meth, line=line_of(s, b), field=m.group(1), write=True,
                                     atomic="atomic" in data[m.group(1)], lock="", file=h))
            guards = []          # (mutex member, depth at declaration, guard variable or None)
            depth = 0
            i = b
            ident = re.compile(r"[A-Za-z_]\w*")
            while i <= e:
                c = s[i]
                if c == "{":
                    depth += 1
                    i += 1
                    continue
                if c == "}":
                    depth -= 1
                    guards = [g for g in guards if g[1] <= depth]
                    i += 1
                    continue
                if not (c.isalpha() or c == "_"):
                    i += 1
                    continue
                gm = GUARD_RE.match(s, i)
                if gm and gm.end() <= e:
                    if gm.group(3) in mutexes:
                        guards.append((gm.group(3), depth, gm.group(2)))
                    i = gm.end()
                    continue
                m = ident.match(s, i)
                w = m.group(0)
                j = m.end()
                prev = s[max(b, i - 12):i].rstrip()
                own = not (prev.endswith(".") or prev.endswith("::") or
                           (prev.endswith("->") and not re.search(r"\bthis\s*->$", prev)))
                nxt = re.match(r"\s*\.\s*(\w+)\s*\(", s[j:j + 40])
                if own and w in mutexes and nxt:
                    if nxt.group(1) == "lock":
                        guards.append((w, depth, None))
                    elif nxt.group(1) == "unlock":
                        guards = [g for g in guards if not (g[0] == w and g[2] is None)]
                elif nxt and nxt.group(1) in ("unlock", "release") and any(g[2] == w for g in guards):
                    guards = [g for g in guards if g[2] != w]
                elif own and w in data:
                    rows.append(dict(cls=cls, method=meth, line=line_of(s, i), field=w,
                                     write=classify(s, i, j, b, ret), atomic="atomic" in data[w],
                                     lock=guards[-1][0] if guards else "", file=h))
                i = j
    return rows, info


# ------------------------------------------------ the rule, evaluated independently of Coq
ROLES = {("TransactionalBuffer", "push_back"): "P", ("TransactionalBuffer", "consume"): "C",
         ("TransactionalBuffer", "size"): "C", ("TransactionalBuffer", "empty"): "C",
         ("TransactionalValue", "operator="): "P", ("TransactionalValue", "update"): "C",
         ("TransactionalValue", "get"): "C", ("TransactionalValue", "ref"): "C"}


def concurrent(cls, r1, r2):
    if r1 == "P" and r2 == "P":
        return cls == "TransactionalBuffer"
    if r1 == "C" and r2 == "C":
        return False
    return True


def conflicts(rows):
    """Returns (unknown_methods, conflicting pairs) under the documented role assignment."""
    unknown = sorted({(r["cls"], r["method"]) for r in rows
                      if r["method"] not in ("<ctor>", "<dtor>") and (r["cls"], r["method"]) not in ROLES})
    bad = []
    for a in rows:
        for b in rows:
            ra, rb = ROLES.get((a["cls"], a["method"])), ROLES.get((b["cls"], b["method"]))
            if ra is None or rb is None:
                continue
            if a["cls"] != b["cls"] or a["field"] != b["field"] or not (a["write"] or b["write"]):
                continue
            if not concurrent(a["cls"], ra, rb):
                continue
            ok = (a["atomic"] and b["atomic"]) or (a["lock"] != "" and a["lock"] == b["lock"])
            if not ok and (b, a) not in bad:
                bad.append((a, b))
    return unknown, bad


def coq_str(x):
    return '"' + x.replace('"', '""') + '"'


def to_coq(rows, repo):
    out = ["(* GENERATED by props/C12/lockgen.py from the working tree - do not edit, not under version control. *)",
           "From Coq Require Import String NArith List.",
           "From C12 Require Import Model.",
           "Import ListNotations.",
           "Local Open Scope string_scope.",
           "",
           "Definition table : list access := ["]
    items = []
    for r in rows:
        items.append("  {| a_class := %s; a_method := %s; a_line := %d%%N; a_field := %s;\n"
                     "     a_write := %s; a_atomic := %s; a_lock := %s |}"
                     % (coq_str(r["cls"]), coq_str(r["method"]), r["line"], coq_str(r["field"]),
                        "true" if r["write"] else "false", "true" if r["atomic"] else "false", coq_str(r["lock"])))
    out.append(";\n".join(items))
    out.append("].")
    return "\n".join(out) + "\n"


def generate(repo, out):
    """Write the Coq table if its content changed; returns (rows, info, changed)."""
    rows, info = analyse(repo)
    txt = to_coq(rows, repo)
    os.makedirs(os.path.dirname(out), exist_ok=True)
    old = open(out).read() if os.path.exists(out) else None
    if old != txt:
        with open(out, "w") as f:
            f.write(txt)
    return rows, info, old != txt


def main():
    repo = os.environ.get("VERIF_REPO", "/repo")
    out = None
    a = sys.argv[1:]
    while a:
        if a[0] == "--repo":
            repo = a[1]; a = a[2:]
        elif a[0] == "--out":
            out = a[1]; a = a[2:]
        else:
            a = a[1:]
    if out:
        rows, info, changed = generate(repo, out)
    else:
        rows, info = analyse(repo)
        sys.stdout.write(to_coq(rows, repo))
    for r in rows:
        sys.stderr.write("%-20s %-10s %s:%-3d %-13s %s %s lock=%s\n" % (
            r["cls"], r["method"], os.path.basename(r["file"]), r["line"], r["field"],
            "W" if r["write"] else "R", "atomic" if r["atomic"] else "plain ", r["lock"] or "-"))
    unk, bad = conflicts(rows)
    for u in unk:
        sys.stderr.write("unknown method (no role): %s::%s\n" % u)
    for a_, b_ in bad:
        sys.stderr.write("CONFLICT %s::%s: %s line %d (%s, lock=%s) vs %s line %d (%s, lock=%s)\n" % (
            a_["cls"], a_["field"], a_["method"], a_["line"], "W" if a_["write"] else "R", a_["lock"] or "-",
            b_["method"], b_["line"], "W" if b_["write"] else "R", b_["lock"] or "-"))


if __name__ == "__main__":
    main()
