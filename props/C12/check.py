"""C12 - TransactionalBuffer / TransactionalValue lose, duplicate and race on nothing.

Coq (coq/C12): interleaving models (any number of producers; TransactionalValue at statement
granularity with an explicit mutex), theorems in Properties.v / PropertiesTVal.v, and the lockset
theorems of LocksetProp.v about the access table regenerated from the two headers on every run.
Tie: (1) props/C12/lockgen.py -> coq/C12/gen/Locks.v -> LocksetProp.v recompiled every run;
(2) sequential differential of operation histories, extracted model vs real code (ASan+UBSan);
(3) multi-threaded stress runs of the real code under TSan (both tiers) and ASan whose recorded
consumer histories are judged by the extracted acceptance functions tb_accept / tb_accept_obs /
tv_accept, next to the harness' own independent oracle."""
import itertools
import os
import re
import shutil
import sys
import time
from concurrent.futures import ThreadPoolExecutor

import vlib

sys.path.insert(0, os.path.dirname(os.path.abspath(__file__)))
import lockgen  # noqa: E402
import lockgen_ast  # noqa: E402

KINDS = ["pod", "str", "vec"]
PROP_FILES = ("Properties.v", "PropertiesTVal.v", "LocksetProp.v")


# ------------------------------------------------------------------------------ inventory closure
# Every declaration of the two anchored headers (class members as written, namespace-level functions; regenerated from the clang
# AST on every run) -> theorems + harness operations that cover it, or an explicit out-of-scope reason.  The check fails closed
# on a declaration missing here, an entry whose declaration vanished/changed, and a covered entry with zero executions.
_B = "TransactionalBuffer"
_V = "TransactionalValue"
BK = ("pod", "str", "vec")                 # payload kinds every covered buffer member must be executed with
VK = ("pod", "str", "vec", "het")          # ... value member (het = TransactionalValue<std::string> fed const char*)
_B_ALL = [_B + "::push_back(const T&)", _B + "::push_back(T&&)", _B + "::consume()", _B + "::size()", _B + "::empty()"]
_V_ALL = [_V + "::operator=(const OtherType&)", _V + "::update()", _V + "::get()", _V + "::ref()"]
COVER = {
    (_B, "field", "buffer", "std::vector<T>"): dict(thms=["tbuf_linear", "lockset_race_free", "tbuf_methods_atomic"], ops=_B_ALL, kinds=BK),
    (_B, "field", "bufferMutex", "std::mutex"): dict(thms=["lockset_race_free", "tbuf_methods_atomic"], ops=_B_ALL, kinds=BK),
    (_B, "method", "<ctor>", "void () =default"): dict(thms=["tbuf_linear", "tbuf_accept_complete"], ops=[_B + "::<ctor>()"], kinds=BK),
    (_B, "method", "consume", "std::vector<T> ()"): dict(thms=["tbuf_linear", "tbuf_exactly_once", "tbuf_complete", "tbuf_accept_sound", "tbuf_quiescent_round"],
                                                        ops=[_B + "::consume()"], kinds=BK),
    (_B, "method", "empty", "bool () const"): dict(thms=["tbuf_obs_linear", "tbuf_round_consistent", "tbuf_quiescent_round"], ops=[_B + "::empty()"], kinds=BK),
    (_B, "method", "push_back", "void (T &&)"): dict(thms=["tbuf_linear", "tbuf_membership"], ops=[_B + "::push_back(T&&)"], kinds=BK),
    (_B, "method", "push_back", "void (const T &)"): dict(thms=["tbuf_linear", "tbuf_membership"], ops=[_B + "::push_back(const T&)"], kinds=BK),
    (_B, "method", "size", "size_t () const"): dict(thms=["tbuf_obs_linear", "tbuf_size_bounded", "tbuf_quiescent_round"], ops=[_B + "::size()"], kinds=BK),
    (_V, "field", "currentValue", "T"): dict(thms=["tval_order", "tval_ref_write", "lockset_race_free"], ops=[_V + "::get()", _V + "::ref()", _V + "::update()"], kinds=VK),
    (_V, "field", "mutex", "std::mutex"): dict(thms=["lockset_race_free", "tval_granularity"], ops=[_V + "::operator=(const OtherType&)", _V + "::update()"], kinds=VK),
    (_V, "field", "newValue", "std::atomic<bool>"): dict(thms=["lockset_race_free", "tval_granularity", "tval_update_true_iff_newer"],
                                                        ops=[_V + "::operator=(const OtherType&)", _V + "::update()"], kinds=VK),
    (_V, "field", "queuedValue", "T"): dict(thms=["tval_order", "lockset_race_free"], ops=[_V + "::operator=(const OtherType&)", _V + "::update()"], kinds=VK),
    (_V, "method", "<ctor>", "template void (const OtherType &)"): dict(thms=["tval_ctor_value", "tval_order"], ops=[_V + "::<ctor>(const OtherType&)"], kinds=VK),
    (_V, "method", "<ctor>", "void () =default"): dict(thms=["tval_update_idempotent"], ops=[_V + "::<ctor>()"], kinds=VK),
    (_V, "method", "<dtor>", "void () =default"): dict(thms=[], ops=[_V + "::<ctor>()", _V + "::<ctor>(const OtherType&)"], kinds=VK,
                                                      note="every constructed object is destroyed at scope exit under ASan; counted as constructions"),
    (_V, "method", "get", "T ()"): dict(thms=["tval_order", "tval_ctor_value", "tval_assign_then_update"], ops=[_V + "::get()"], kinds=VK),
    (_V, "method", "operator=", "TransactionalValue<T> &(const TransactionalValue<T> &)"): dict(
        skip="cannot be called: its body calls the non-const ref() on the const argument, so any instantiation is ill-formed "
             "(fact `copy_assignment_instantiable=0`, compile probe on every run); assignment from a value goes through the member template",
        probe="copy_assignment_instantiable", expect=0),
    (_V, "method", "operator=", "template TransactionalValue<T> &(const OtherType &)"): dict(
        thms=["tval_order", "tval_assign_then_update", "tval_quiescent_update", "tval_last_value"], ops=[_V + "::operator=(const OtherType&)"], kinds=VK),
    (_V, "method", "ref", "T &()"): dict(thms=["tval_ref_write", "tval_order"], ops=[_V + "::ref()", _V + "::ref()=write"], kinds=VK),
    (_V, "method", "update", "bool ()"): dict(thms=["tval_update_true_iff_newer", "tval_update_idempotent", "tval_quiescent_update", "tval_last_value"],
                                             ops=[_V + "::update()"], kinds=VK),
}
# implicitly-declared special members and signature facts, per instantiation (harness `facts`: type traits of the compiled templates).
# Both classes hold a std::mutex: neither is copyable or movable.  TransactionalValue declares a destructor and a copy assignment,
# so no move operations are declared; the traits report its copy/move assignment as *declared* (see the probe above for what it is worth).
EXPECT_FACTS = {
    _B: dict(default_constructible=1, copy_constructible=0, move_constructible=0, copy_assignable_declared=0, move_assignable_declared=0,
             destructible=1, consume_returns_vector_by_value=1, size_returns_size_t=1, empty_returns_bool=1),
    _V: dict(default_constructible=1, copy_constructible=0, move_constructible=0, copy_assignable_declared=1, move_assignable_declared=1,
             destructible=1, constructible_from_value=1, assignable_from_value=1, get_returns_copy=1, ref_returns_mutable_reference=1,
             update_returns_bool=1),
}
FACT_MEMBER = {"copy_constructible": "implicit copy constructor (deleted: std::mutex member)", "move_constructible": "implicit move constructor (not available)",
               "copy_assignable_declared": "copy assignment", "move_assignable_declared": "move assignment", "default_constructible": "default constructor",
               "destructible": "destructor"}
INSTANTIATIONS = ["pod-struct", "int", "std::string", "std::vector<int>"]

PROBE_TU = """#include "rkcommon/utility/TransactionalValue.h"
void probe(rkcommon::utility::TransactionalValue<int> &a, const rkcommon::utility::TransactionalValue<int> &b) { a = b; }
"""


def inventory(ctx, iface, h_asan, inv_dir):
    """Returns the evidence dict; appends to ctx.broken on any gap."""
    inv = {}
    counts = {}
    for f in os.listdir(inv_dir):
        for ln in open(os.path.join(inv_dir, f)):
            k, _, n = ln.rpartition(" ")
            try:
                counts[k] = counts.get(k, 0) + int(n)
            except ValueError:
                pass
    # compile probe(s)
    probes = {}
    tu = os.path.join(ctx.build, "probe_copy_assign.cpp")
    open(tu, "w").write(PROBE_TU)
    rc, out = vlib.sh(["g++", "-std=c++11", "-fsyntax-only", "-I" + ctx.repo, tu], timeout=120)
    probes["copy_assignment_instantiable"] = 1 if rc == 0 else 0
    thms = set(ctx.cov.get("theorems", []))
    label = lambda t: "%s::%s [%s] %s" % (t[0], t[2], t[1], t[3])
    for t in iface:
        t = tuple(t)
        e = COVER.get(t)
        if e is None:
            ctx.broken.append("inventory: declaration not in the COVER table (new member / overload / changed signature): " + label(t))
            inv[label(t)] = {"status": "NOT IN TABLE"}
            continue
        if "skip" in e:
            rec = {"out_of_scope": e["skip"]}
            if "probe" in e:
                rec["probe"] = {e["probe"]: probes.get(e["probe"])}
                if probes.get(e["probe"]) != e["expect"]:
                    ctx.broken.append("inventory: %s is listed as not callable, but the compile probe %s now gives %s: it must be brought into the model and harness"
                                      % (label(t), e["probe"], probes.get(e["probe"])))
            inv[label(t)] = rec
            continue
        ex = {}
        for op in e["ops"]:
            for k in e["kinds"]:
                ex["%s@%s" % (op, k)] = counts.get("%s@%s" % (op, k), 0)
        zero = [k for k, n in ex.items() if n == 0]
        if zero:
            ctx.broken.append("inventory: covered declaration %s was not executed in this run: %s" % (label(t), ", ".join(zero[:4])))
        missing_thm = [n for n in e["thms"] if n not in thms]
        if missing_thm:
            ctx.broken.append("inventory: %s names theorems that do not exist: %s" % (label(t), missing_thm))
        inv[label(t)] = {"theorems": e["thms"], "executions": ex}
        if e.get("note"):
            inv[label(t)]["note"] = e["note"]
    for t in COVER:
        if t not in [tuple(x) for x in iface]:
            ctx.broken.append("inventory: COVER entry whose declaration vanished or changed signature: " + label(t))
    # implicit special members / signature facts per instantiation
    rc, out, err = ctx.run_exe(h_asan, ["facts"], timeout=60)
    seen = {}
    for ln in out.splitlines():
        w = ln.split()
        if len(w) > 2 and w[0] == "fact":
            seen[w[1]] = {kv.split("=")[0]: int(kv.split("=")[1]) for kv in w[2:]}
    facts = {}
    for cls, exp in EXPECT_FACTS.items():
        for ins in INSTANTIATIONS:
            name = "%s<%s>" % (cls, ins)
            got = seen.get(name)
            if got is None:
                ctx.broken.append("inventory: no facts for instantiation " + name)
                continue
            facts[name] = got
            for k, v in exp.items():
                if got.get(k) != v:
                    ctx.broken.append("inventory: fact changed for %s: %s (%s) is %s, the models assume %s"
                                      % (name, k, FACT_MEMBER.get(k, "signature"), got.get(k), v))
            for k in got:
                if k not in exp:
                    ctx.broken.append("inventory: unexpected fact %s for %s" % (k, name))
    return {"declarations": inv, "special_members_and_signatures": facts, "probes": probes,
            "instantiations_executed": sorted({k.split("@")[1] for k, n in counts.items() if n}), "raw_counts": counts}


# ------------------------------------------------------------ independent oracle (python), sequential
def oracle_seq(case):
    t = case.split()
    outs = []
    if t[0] == "B":
        np_ = int(t[2])
        nxt = [0] * max(np_, 0)
        buf = []
        for op in t[3:]:
            if op[0] in "pm":
                p = int(op[1:])
                if 0 <= p < np_:
                    buf.append((p, nxt[p])); nxt[p] += 1; outs.append("ok")
                else:
                    outs.append("badop")
            elif op == "c":
                outs.append("[" + " ".join("%d.%d" % e for e in buf) + "]"); buf = []
            elif op == "s":
                outs.append(str(len(buf)))
            elif op == "e":
                outs.append("true" if not buf else "false")
            else:
                outs.append("badop")
    else:
        cur = 0 if t[2] == "-" else int(t[2])
        queued, new = None, False
        for op in t[3:]:
            if op[0] == "a":
                queued, new = int(op[1:]), True; outs.append("ok")
            elif op[0] == "A":
                n_, st = op[1:].split(":")
                if int(n_) > 0:
                    queued, new = int(st) + int(n_) - 1, True
                outs.append("ok")
            elif op[0] == "w":
                cur = int(op[1:]); outs.append("ok")
            elif op == "u":
                if new:
                    cur, queued, new = queued, None, False; outs.append("true")
                else:
                    outs.append("false")
            elif op in ("g", "r"):
                outs.append(str(cur))
            else:
                outs.append("badop")
    return " ; ".join(outs)


# ------------------------------------------------------------------------------------ generators
def gen_B(r, maxlen):
    np_ = r.choice([1, 1, 2, 2, 3, 4, 5, 8])
    ops = []
    burst = r.random()
    for _ in range(r.randint(1, maxlen)):
        c = r.random()
        if c < 0.45 + 0.3 * burst:
            ops.append(r.choice("pm") + str(r.randrange(np_)))
        elif c < 0.75 + 0.1 * burst:
            ops.append("c")
        elif c < 0.9:
            ops.append("s")
        else:
            ops.append("e")
    return np_, ops


def gen_V(r, maxlen):
    v0 = r.choice(["-", "-", "0", "5", "77"])
    ops = []
    nxt = 100
    for _ in range(r.randint(1, maxlen)):
        c = r.random()
        if c < 0.35:
            nxt += r.randint(1, 3); ops.append("a%d" % nxt)
        elif c < 0.42:
            ops.append("w%d" % r.randint(1, 60))
        elif c < 0.7:
            ops.append("u")
        elif c < 0.88:
            ops.append("g")
        else:
            ops.append("r")
    return v0, ops


def exhaustive(length):
    alphaB = ["p0", "m1", "c", "s", "e"]
    alphaV = ["a7", "a9", "u", "g", "w5"]
    for n in range(1, length + 1):
        for t in itertools.product(alphaB, repeat=n):
            yield ("B", "2", list(t))
        for t in itertools.product(alphaV, repeat=n):
            yield ("V", "3", list(t))


def tsan_summary(err):
    """First report of a ThreadSanitizer log, reduced to the accesses inside the repository."""
    lines = err.splitlines()
    out = []
    for ln in lines:
        if re.search(r"WARNING: ThreadSanitizer|(Write|Read|Previous|Atomic)\b.* of size|#\d+ .*rkcommon/(containers|utility)/", ln, re.I):
            out.append(ln.strip())
        if len(out) > 14:
            break
    return out


class _S(object):
    """State shared by the stages of one run (defaults = what a failed stage leaves behind)."""
    def __init__(self):
        self.rows, self.iface, self.expected, self.table, self.lock_findings = [], [], [], [], []
        self.tb_unlocked, self.tv_unlocked, self.conflicts = [], [], []
        self.model = None
        self.exe = {}            # (sanitizer, part) -> harness exe; part in "buf", "val"
        self.inv_dir = None
        self.results = []
        self.big = 0


def _first_error(text):
    for ln in (text or "").splitlines():
        if re.search(r"\berror\b|Error", ln):
            return ln.strip()[:300]
    return (text or "").strip().splitlines()[-1][:300] if (text or "").strip() else ""


def _stage(ctx, name, fn, *a):
    """Run one stage; an exception is recorded (stage name + message) and the run continues."""
    try:
        return fn(ctx, *a)
    except Exception as ex:                                            # noqa: BLE001
        import traceback
        fr = traceback.extract_tb(ex.__traceback__)[-1]
        ctx.broken.append("stage %s raised %s: %s (%s:%d in %s)" % (name, type(ex).__name__, str(ex)[:200], os.path.basename(fr.filename), fr.lineno, fr.name))
        ctx.log("stage %s raised %r - continuing with the remaining stages" % (name, ex))
        return None


def _time_left(ctx):
    return ctx.deadline - time.time()


def stage_table(ctx, S):
    # ------------------------------------------------------------- (1) lock table from the source
    gen_v = os.path.join(ctx.coqdir, "gen", "Locks.v")
    # primary extractor: clang JSON AST (props/C12/lockgen_ast.py); the textual extractor (lockgen.py) is the cross-check
    key = lambda r: (r["cls"], r["method"], r["line"], r["field"], bool(r["write"]), bool(r["atomic"]), r["lock"])
    try:
        rows_txt, info = lockgen.analyse(ctx.repo)
    except Exception as ex:                                            # noqa: BLE001
        rows_txt, info = [], {"files": []}
        ctx.broken.append("textual lock-table extractor (lockgen.py) raised %r" % (ex,))
    try:
        rows, info_ast = lockgen_ast.analyse(ctx.repo, os.path.join(ctx.build, "ast"))
    except Exception as ex:                                            # noqa: BLE001
        rows, info_ast = [], {"notes": ["lockgen_ast raised %r" % (ex,)], "clang_rc": -1}
    ctx.cov["lock_table_extractor"] = {"clang_rc": info_ast.get("clang_rc"), "notes": info_ast.get("notes", [])[:5],
                                       "ast_rows": len(rows), "textual_rows": len(rows_txt)}
    if not rows:
        ctx.broken.append("clang AST extraction of the lock table failed: %s" % "; ".join(str(n) for n in info_ast.get("notes", []))[:400])
        rows = rows_txt
    elif sorted(map(key, rows)) != sorted(map(key, rows_txt)):
        only_a = sorted(set(map(key, rows)) - set(map(key, rows_txt)))
        only_t = sorted(set(map(key, rows_txt)) - set(map(key, rows)))
        ctx.broken.append("lock table: clang-AST and textual extractors disagree; only AST: %s; only textual: %s" % (only_a[:4], only_t[:4]))
    iface = [tuple(t) for t in info_ast.get("interface", [])]
    txt = lockgen_ast.coq_text(rows, iface, ctx.repo)
    # the member list the models cover: Model.v expected_members (single source; parsed only to word the finding)
    expected = [tuple(m) for m in re.findall(r'mkm "([^"]*)" "([^"]*)" "([^"]*)" "([^"]*)"', open(os.path.join(ctx.coqdir, "Model.v")).read())]
    iface_added = [t for t in iface if t not in expected]
    iface_removed = [t for t in expected if t not in iface]
    ctx.cov["interface"] = {"members": len(iface), "added": iface_added, "removed": iface_removed}
    os.makedirs(os.path.dirname(gen_v), exist_ok=True)
    changed = (not os.path.exists(gen_v)) or open(gen_v).read() != txt
    if changed:
        with open(gen_v, "w") as f:
            f.write(txt)
    for f in ("LocksetProp", os.path.join("gen", "Locks")):           # recompiled on every run
        for ext in (".vo", ".vos", ".vok", ".glob"):
            try:
                os.remove(os.path.join(ctx.coqdir, f + ext))
            except OSError:
                pass
    unknown, conflicts = lockgen.conflicts(rows)
    table = ["%s::%s %s:%d %s %s %s lock=%s" % (r["cls"], r["method"], os.path.basename(r["file"]), r["line"], r["field"],
                                                "W" if r["write"] else "R", "atomic" if r["atomic"] else "plain", r["lock"] or "-")
             for r in rows]
    ctx.cov["lock_table"] = table
    ctx.cov["lock_table_changed_since_last_run"] = bool(changed)
    missing = [h for h, st in info["files"] if st != "ok"]
    if missing:
        ctx.broken.append("anchored header missing: " + ", ".join(missing))
    # the two granularity conditions, evaluated independently of Coq (for the explanation only)
    tb_unlocked = [r for r in rows if r["cls"] == "TransactionalBuffer" and r["method"] not in ("<ctor>", "<dtor>") and not r["lock"]]
    tv_unlocked = [r for r in rows if r["cls"] == "TransactionalValue" and r["method"] in ("operator=", "update")
                   and not r["lock"] and not (r["atomic"] and not r["write"])]
    have = {(r["cls"], r["method"]) for r in rows}
    py_lockset_ok = not unknown and not conflicts
    py_gran_ok = (not tb_unlocked and not tv_unlocked and any(c == "TransactionalBuffer" for c, _ in have)
                  and ("TransactionalValue", "update") in have and ("TransactionalValue", "operator=") in have)

    def fmt(r):
        return "%s::%s %s:%d %s of %s%s, %s" % (r["cls"], r["method"], r["file"], r["line"], "write" if r["write"] else "read", r["field"],
                                                " (atomic)" if r["atomic"] else "", "holding " + r["lock"] if r["lock"] else "no lock held")

    lock_findings = []
    for t in iface_added:
        lock_findings.append("obligation interface_closed: declaration not covered by the models: %s::%s %s '%s'" % (t[0], t[2], t[1], t[3]))
    for t in iface_removed:
        lock_findings.append("obligation interface_closed: modelled declaration no longer present: %s::%s %s '%s'" % (t[0], t[2], t[1], t[3]))
    for a, b in conflicts:
        lock_findings.append("unprotected conflicting accesses: %s  <->  %s" % (fmt(a), fmt(b)))
    for u in unknown:
        lock_findings.append("method without a role in the documented usage: %s::%s" % u)
    for r in tb_unlocked:
        lock_findings.append("TransactionalBuffer method touches a member without the mutex (model granularity): " + fmt(r))
    for r in tv_unlocked:
        lock_findings.append("TransactionalValue operator=/update touches a member outside the mutex other than an atomic read (model granularity): " + fmt(r))
    ctx.cov["lockset_python"] = {"lockset_ok": py_lockset_ok, "granularity_ok": py_gran_ok, "findings": lock_findings}

    S.rows, S.iface, S.expected, S.table, S.lock_findings = rows, iface, expected, table, lock_findings
    S.tb_unlocked, S.tv_unlocked, S.conflicts = tb_unlocked, tv_unlocked, conflicts
    S.py_ok = (py_lockset_ok, py_gran_ok)


def stage_coq(ctx, S):
    rows, iface, expected, lock_findings = S.rows, S.iface, S.expected, S.lock_findings
    py_lockset_ok, py_gran_ok = getattr(S, "py_ok", (False, False))
    res = ctx.coq_check(PROP_FILES)
    coq_lock_ok = all(res.get(n) for n in ("lockset_race_free", "tbuf_methods_atomic", "tval_granularity", "interface_closed"))
    py_iface_ok = iface == expected
    if coq_lock_ok != (py_lockset_ok and py_gran_ok and py_iface_ok):
        ctx.broken.append("lockset/interface verdicts differ: Coq reflective check %s, python re-evaluation %s" % (coq_lock_ok, py_lockset_ok and py_gran_ok and py_iface_ok))
    if re.search(r"^Error|\bError:", getattr(ctx, "coq_log", ""), re.M) and not any(b.startswith("theorem") for b in ctx.broken):
        ctx.broken.append("coq build error (see log)")
    ctx.log("lock table: %d accesses, lockset %s, granularity %s, member list %s%s" % (len(rows), "ok" if py_lockset_ok else "VIOLATED",
                                                                        "ok" if py_gran_ok else "VIOLATED", "closed" if py_iface_ok else "CHANGED",
                                                                        "".join("\n    " + f for f in lock_findings)))



def stage_build(ctx, S):
    """Model and harnesses, each on its own: a failed build is recorded and the others are used."""
    mv, mvo = os.path.join(ctx.coqdir, "Model.v"), os.path.join(ctx.coqdir, "Model.vo")
    if not os.path.exists(mvo) or os.path.getmtime(mvo) < os.path.getmtime(mv):
        # Model.v did not build in this run: a left-over Model.vo must not be extracted as if it were the current model
        ctx.broken.append("coq/C12/Model.v does not build: %s - no model in this run" % _first_error(getattr(ctx, "coq_log", "")))
    else:
        try:
            S.model = ctx.extract(snippets=["conv_N.ml", "conv_nat.ml"])
        except Exception as ex:                                        # noqa: BLE001
            ctx.broken.append("model extraction raised %r" % (ex,))
    if not S.model:
        ctx.log("no extracted model: the harness runs are judged by the independent oracles only")
    jobs = [dict(sources=["harness.cpp"], out="harness_asan", sanitize="asan"), dict(sources=["harness.cpp"], out="harness_tsan", sanitize="tsan")]
    nb = len(ctx.broken)
    exes = ctx.cxx_many(jobs)
    for san, exe in zip(("asan", "tsan"), exes):
        if exe:
            S.exe[(san, "buf")] = S.exe[(san, "val")] = exe
    missing = [san for san, exe in zip(("asan", "tsan"), exes) if not exe]
    if missing:
        # the full harness does not compile against this tree: one class at a time
        fb = [dict(sources=["harness.cpp"], out="harness_%s_%s" % (san, part), sanitize=san, flags=[flag])
              for san in missing for part, flag in (("buf", "-DC12_ONLY_BUFFER"), ("val", "-DC12_ONLY_VALUE"))]
        fexes = ctx.cxx_many(fb)
        for kw, exe in zip(fb, fexes):
            san, part = kw["out"].split("_")[1:3]
            if exe:
                S.exe[(san, part)] = exe
                ctx.log("fallback harness built: %s (%s only)" % (kw["out"], part))
        # keep one entry per failed build in ctx.broken, worded with the class that no longer compiles
        del ctx.broken[nb:]
        for san in missing:
            parts = [p_ for p_ in ("buf", "val") if (san, p_) in S.exe]
            ctx.broken.append("harness build (%s) failed against this tree: the public interface used by the harness changed; fallback builds available: %s"
                              % (san, ", ".join(parts) or "none"))
    # any sanitizer will do for a part that one sanitizer build lacks
    for part in ("buf", "val"):
        have = [san for san in ("asan", "tsan") if (san, part) in S.exe]
        for san in ("asan", "tsan"):
            if (san, part) not in S.exe and have:
                S.exe[(san, part)] = S.exe[(have[0], part)]
    S.inv_dir = os.path.join(ctx.build, "inv")
    shutil.rmtree(S.inv_dir, ignore_errors=True)
    os.makedirs(S.inv_dir)
    os.environ["C12_INV_DIR"] = S.inv_dir
    ctx.log("built: model %s, harnesses %s" % ("yes" if S.model else "NO", sorted("%s/%s" % k for k in S.exe) or "NONE"))


def stage_seq(ctx, S):
    r = ctx.rng("seq")
    base = []
    for i in range(ctx.pick(1500, 15000)):
        if i % 3 < 2:
            np_, ops = gen_B(r, 60)
            base.append(("B", str(np_), ops))
        else:
            v0, ops = gen_V(r, 40)
            base.append(("V", v0, ops))
    for n_ in (255, 256, 257, 32768, 65535, 65536, 65537, 131072, 131073, 196608):
        base.append(("V", "0", ["A%d:1" % n_, "u", "g", "u", "g"]))
        base.append(("V", "7", ["a3", "u", "A%d:10" % n_, "u", "g", "A%d:%d" % (n_, 10 + n_), "u", "r"]))
    exh = list(exhaustive(ctx.pick(5, 6)))
    base += exh
    cases = ["%s %s %s %s" % (k, kind, a, " ".join(ops)) for (k, a, ops) in base for kind in (KINDS if k == "B" else KINDS + ["het"])]
    ctx.cov["seq_case_mix"] = {"random": len(base) - len(exh), "exhaustive_short": len(exh), "payload_kinds": KINDS + ["het"]}
    hist = {}
    total_mism = 0
    for part, tag in (("buf", "B"), ("val", "V")):
        exe = S.exe.get(("asan", part))
        pc = [c for c in cases if c[0] == tag]
        if not exe:
            ctx.broken.append("sequential differential skipped for %s cases: no harness build" % tag)
            continue
        tmo = max(30, min(ctx.pick(300, 900), _time_left(ctx)))
        mlines = None
        if S.model:
            mism, crashes, mlines = vlib.differential(ctx, pc, S.model, [("seq/" + part, exe, ["seq"])], timeout=tmo)
            if len(mlines) != len(pc):
                mlines = None                                          # model driver failed (recorded by differential): oracle only
        if mlines is None:
            rc, ilines, ierr = vlib.run_lines(ctx, exe, ["seq"], pc, timeout=tmo)
            crashes = {"seq/" + part: (rc, ierr[-3000:], len(ilines))} if rc != 0 else {}
            mism = []
            for i, c in enumerate(pc):
                il = ilines[i] if i < len(ilines) else "<no output: harness died>"
                if il != oracle_seq(c):
                    mism.append((i, "seq/" + part, il, None))
                    if len(mism) >= 30:
                        break
        ctx.count(len(pc))
        total_mism += len(mism)
        ref = mlines if mlines is not None else [oracle_seq(c) if c.split()[3:] and len(c) < 400 else "" for c in pc]
        for c, ml in zip(pc, ref):
            t = c.split()
            for op in t[3:]:
                key = t[0] + ":" + op[0]
                hist[key] = hist.get(key, 0) + 1
            outs = ml.split(" ; ")
            if t[0] == "B":
                nb = [o for o in outs if o.startswith("[") and o != "[]"]
                if len(nb) >= 2 or any(" " in o for o in nb):
                    ctx.nontriv("seq " + " ".join(t[:1] + t[2:]))
            elif "true" in outs and "false" in outs:
                ctx.nontriv("seq " + " ".join(t[:1] + t[2:]))
        for c in pc[:1]:
            ctx.sample({"seq_case": c, "model_and_impl": ref[0][:200] if ref else None, "judged_by": "extracted model" if mlines is not None else "python oracle"})
        for label, (rc, err, n) in crashes.items():
            ctx.violation("harness %s crashed (rc=%d) - sanitizer report / abort on the real code" % (label, rc),
                          {"label": label, "stderr_tail": err, "case": pc[n] if n < len(pc) else None,
                           "required": "no crash, no sanitizer report"}, found_input=n < len(pc))
        reported = False
        for (i, label, il, ml) in mism[:30]:
            if label in crashes or reported:
                continue
            t = pc[i].split()
            head, ops = t[:3], t[3:]

            def fails(o, head=head, exe=exe):
                line = " ".join(head + list(o))
                rc, out, err = ctx.run_exe(exe, ["seq"], stdin=line + "\n", timeout=60)
                return out.strip("\n") != oracle_seq(line)

            if il != oracle_seq(pc[i]):
                small = vlib.shrink_list(ops, fails, max_rounds=120) if _time_left(ctx) > 30 else ops
                line = " ".join(head + small)
                rc, out, err = ctx.run_exe(exe, ["seq"], stdin=line + "\n", timeout=60)
                ctx.violation("single-threaded history: the real %s disagrees with the sequential specification"
                              % ("TransactionalBuffer" if t[0] == "B" else "TransactionalValue"),
                              {"case": line, "format": "B <payload> <nprod> ops (p<i>/m<i> push by producer i, c consume, s size, e empty) | "
                                                       "V <payload> <initial> ops (a<v> assign, A<n>:<s> n assignments, w<v> write through ref(), u update, g get, r ref; payload het = TransactionalValue<std::string> fed const char*)",
                               "observed": out.strip(), "required": oracle_seq(line), "model": ml if small == ops else None,
                               "judged_by": "extracted model + python oracle" if ml is not None else "python oracle (no model in this run)",
                               "original_case": pc[i]})
                reported = True
            else:
                ctx.broken.append("correspondence C12 model vs real code on sequential case %r: impl=%r model=%r (impl satisfies the reference)"
                                  % (pc[i], il[:160], (ml or "")[:160]))
                reported = True
    ctx.cov["seq_op_histogram"] = hist
    ctx.cov["seq_mismatches"] = total_mism
    ctx.log("sequential differential done: %d cases, %d mismatches%s" % (len(cases), total_mism, "" if S.model else " (python oracle only: no model)"))


def stage_stress(ctx, S):
    tb_unlocked, tv_unlocked, conflicts, lock_findings, table, model = S.tb_unlocked, S.tv_unlocked, S.conflicts, S.lock_findings, S.table, S.model
    q = not ctx.thorough()
    big = 20000 if q else 100000
    tsan_cfg = [("stressbuf", "pod", 1, big, 0), ("stressbuf", "pod", 2, big, 0), ("stressbuf", "str", 3, big // 2, 0),
                ("stressbuf", "vec", 4, big // 2, 0), ("stressbuf", "pod", 8, big // 2, 0), ("stressbuf", "str", 8, big // 4, 40),
                ("stressbuf", "pod", 5, big // 4, 200),
                ("stressval", "pod", big, 0, 0), ("stressval", "str", big, 0, 0), ("stressval", "vec", big, 0, 30),
                ("stressval", "pod", big, 0, 150)]
    asan_cfg = [("stressbuf", "str", 4, big, 0), ("stressbuf", "vec", 8, big // 2, 0), ("stressbuf", "pod", 2, big, 10),
                ("stressval", "str", big, 0, 0), ("stressval", "vec", big, 0, 20)]
    if not q:
        tsan_cfg += [("stressbuf", "pod", n, 100000, 0) for n in (3, 4, 6, 7)] + [("stressbuf", "vec", 8, 100000, 0),
                                                                                   ("stressbuf", "str", 6, 100000, 15)]
        asan_cfg += [("stressbuf", "str", 8, 100000, 0), ("stressbuf", "vec", 5, 100000, 5)]
    # quiescent-observation runs: stressobs kind nprod bursts burstlen
    nb = 1000 if q else 20000
    tsan_cfg += [("stressobs", "pod", 4, nb, 4), ("stressobs", "str", 2, nb, 6), ("stressobs", "pod", 8, nb // 2, 2)]
    asan_cfg += [("stressobs", "vec", 3, nb, 3)]
    # targeted search for a concrete failing history when the lock table shows a member of the class touched outside the mutex
    tb_suspect = bool(tb_unlocked) or any(a["cls"] == "TransactionalBuffer" for a, _ in conflicts)
    tv_suspect = bool(tv_unlocked) or any(a["cls"] == "TransactionalValue" for a, _ in conflicts)
    if tb_suspect:
        tsan_cfg += [("stressobs", "pod", n, nb * 2, l) for n, l in ((2, 1), (3, 2), (6, 3), (8, 1))]
        asan_cfg += [("stressobs", "pod", n, nb * 4, l) for n, l in ((2, 2), (4, 1), (8, 2))]
    if tv_suspect:
        tsan_cfg += [("stressval", k, big * 2, 0, sp) for k, sp in (("pod", 5), ("str", 0), ("pod", 60))]
        asan_cfg += [("stressval", k, big * 4, 0, sp) for k, sp in (("pod", 0), ("pod", 25))]
    # counter / size boundaries: backlog of N elements at one consume() (sequential, exact; and piled up by real producer threads
    # while the consumer sleeps), N assignments between two update() calls
    bnd = [255, 256, 257, 32767, 32768, 32769, 65535, 65536, 65537, 131071, 131072, 131073]
    asan_cfg += [("seqbig", "pod", np_, n_, 0) for np_ in (1, 3) for n_ in bnd]
    asan_cfg += [("seqbig", "str", 3, 65537, 0), ("seqbig", "vec", 1, 65537, 0), ("seqbig", "str", 1, 131073, 0), ("seqbig", "vec", 3, 32769, 0)]
    tsan_cfg += [("stressobs", "pod", 3, 4, 21846), ("stressobs", "pod", 1, 4, 65537), ("stressobs", "pod", 2, 3, 65536), ("stressvalburst", "pod", 0, 0, 0)]
    asan_cfg += [("stressobs", "str", 2, 3, 32769), ("stressvalburst", "str", 0, 0, 0)]
    if not q:
        tsan_cfg += [("stressobs", "vec", 3, 6, 43691), ("stressvalburst", "vec", 0, 0, 0)]
    ctx.cov["boundary_sizes"] = bnd
    ctx.cov["targeted_search"] = {"TransactionalBuffer": tb_suspect, "TransactionalValue": tv_suspect}
    S.big = big
    BUF_MODES = ("stressbuf", "stressobs", "seqbig")
    jobs = []
    skipped_parts = set()
    for san, cfgs in (("tsan", tsan_cfg), ("asan", asan_cfg)):
        for c in cfgs:
            part = "buf" if c[0] in BUF_MODES else "val"
            exe = S.exe.get((san, part))
            if exe:
                jobs.append((san, exe) + c)
            else:
                skipped_parts.add(part)
    for part in sorted(skipped_parts):
        ctx.broken.append("stress runs skipped for %s: no harness build" % ("TransactionalBuffer" if part == "buf" else "TransactionalValue"))
    tdir = os.path.join(ctx.build, "traces")
    os.makedirs(tdir, exist_ok=True)

    def one(job):
        san, exe, mode, kind, a, b, sp = job
        if _time_left(ctx) < 15:
            return None                                  # wall-clock budget used up
        name = "%s-%s-%s-%d-%d-%d" % (san, mode, kind, a, b, sp)
        tp = os.path.join(tdir, name + ".trace")
        try:
            os.remove(tp)
        except OSError:
            pass
        def mkargs(a, b):
            if mode in ("stressbuf", "stressobs"):
                return [mode, kind, str(a), str(b), str(sp), tp]
            if mode == "stressval":
                return [mode, kind, str(a), str(sp), tp]
            if mode == "seqbig":
                return [mode, kind, str(a), str(b), tp]
            return [mode, kind, tp]                      # stressvalburst
        args = mkargs(a, b)
        t_start = time.time()
        tmo = max(15, min(ctx.pick(150, 900), _time_left(ctx)))
        rc, out, err = ctx.run_exe(exe, args, timeout=tmo)
        if rc == 124 and _time_left(ctx) > 30:
            # timed out (a loaded machine, or a hang): once more, a quarter of the size (stress modes), three times the time
            if mode == "stressval":
                a = max(1000, a // 4)
            elif mode in ("stressbuf", "stressobs") and not (mode == "stressobs" and sp >= 1024):
                b = max(500, b // 4)
            args = mkargs(a, b)
            name += "-retry"
            rc, out, err = ctx.run_exe(exe, args, timeout=max(20, min(3 * tmo, _time_left(ctx))))
        verdict = None
        if model and os.path.exists(tp):
            # (deep non-tail recursion of the extracted tagN on long programs: lift the stack limit)
            mrc, mout, merr = ctx.run_exe("/bin/bash", ["-c", 'ulimit -s unlimited 2>/dev/null; exec "$0" "$1" < "$2"', model,
                                                        "traceval" if mode in ("stressval", "stressvalburst") else "tracebuf", tp],
                                          timeout=max(30, min(ctx.pick(450, 1800), _time_left(ctx) + 30)))
            verdict = mout.strip() if mrc == 0 else "model-driver-failed rc=%d %s" % (mrc, merr[-300:])
        return dict(secs=round(time.time() - t_start, 1), name=name, san=san, args=args[:-1], cmd="%s %s" % (exe, " ".join(args)), rc=rc, out=out.strip(), err=err, verdict=verdict, trace=tp)

    with ThreadPoolExecutor(max_workers=3) as ex:
        results = [r_ for r_ in ex.map(one, jobs) if r_ is not None]
    S.results = results
    n_skipped = len(jobs) - len(results)
    if n_skipped:
        ctx.cov["stress_runs_skipped_wall_clock_budget"] = n_skipped
        ctx.log("%d stress runs skipped: wall-clock budget of the tier used up" % n_skipped)
    results.sort(key=lambda r_: 0 if r_["args"][0] == "seqbig" else 1)      # report the deterministic, exact runs first
    ctx.count(len(results))
    ctx.log("stress/boundary runs done: %d" % len(results))
    stress_cov = []
    race_reported = False
    seen_kinds = set()      # at most one report per (kind of failure, container)
    for res_ in results:
        out, rc, verdict = res_["out"], res_["rc"], res_["verdict"]
        stress_cov.append({"run": res_["name"], "rc": rc, "secs": res_["secs"], "harness": out[:160], "model": (verdict or "")[:120]})
        conf = {"command": res_["cmd"], "sanitizer": res_["san"], "rc": rc,
                "how_to_read": "stressbuf <payload> <producers> <pushes per producer> <spin>; stressobs <payload> <producers> <bursts> <pushes per burst> (size()/empty() checked while all producers are parked); stressval <payload> <assignments> <spin>; seqbig <payload> <producers> <N> (single-threaded: N pushes, then size(), empty(), consume(), 5 more pushes, drain); stressvalburst <payload> (bursts of 1,255,256,257,...,65536,...,131073 assignments between two update() calls)"}
        ok_line = out.startswith("OK")
        if ok_line:
            m = re.search(r"nonempty=(\d+).*multiproducer_batches=(\d+)", out)
            m2 = re.search(r"true_updates=(\d+).*quiescent_points=(\d+)", out)
            if re.match(r"OK (backlog|bursts)=", out):
                ctx.nontriv("stress " + res_["name"])
            m3 = re.search(r"overlapping_consumes=(\d+) nonempty_at_quiescence=(\d+)", out)
            if m3 and int(m3.group(1)) > 0 and int(m3.group(2)) > 0:
                ctx.nontriv("stress " + res_["name"])
            if (m and (int(m.group(2)) > 0 or (res_["args"][2] == "1" and int(m.group(1)) > 1))) or \
                    (m2 and int(m2.group(1)) > 1 and int(m2.group(2)) > 1):
                ctx.nontriv("stress " + res_["name"])
        if "ThreadSanitizer" in res_["err"] or rc == 97:
            if not race_reported:
                conf.update({"tsan_report": tsan_summary(res_["err"]), "tsan_raw_head": res_["err"][:3000],
                             "lockset_findings": lock_findings,
                             "required": "no C++ data race in the documented usage (producers push_back / operator=; one consumer consume,size,empty / update,get,ref)"})
                ctx.violation("data race reported by ThreadSanitizer in the documented usage (%s)" % " ".join(res_["args"]), conf)
                race_reported = True
            continue
        if rc == 124:
            ctx.broken.append("stress run %s did not terminate within the time limit (hang, an overloaded machine, or the wall-clock budget of the tier)" % res_["name"])
            continue
        if rc != 0:
            if ("crash", "val" if "val" in res_["args"][0] else "buf") in seen_kinds:
                continue
            seen_kinds.add(("crash", "val" if "val" in res_["args"][0] else "buf"))
            conf.update({"stderr_tail": res_["err"][-3000:], "stdout": out[-500:], "required": "no crash, no sanitizer report"})
            ctx.violation("stress run crashed / sanitizer report (rc=%d): %s" % (rc, " ".join(res_["args"])), conf)
            continue
        fails_ = [l for l in out.splitlines() if l.startswith("FAIL")]
        if fails_:
            if ("history", "val" if "val" in res_["args"][0] else "buf") in seen_kinds:
                continue
            seen_kinds.add(("history", "val" if "val" in res_["args"][0] else "buf"))
            conf.update({"observed": fails_, "model_acceptance": verdict, "history": res_["trace"],
                         "required": "every element in exactly one batch, once, in its producer's order; size()/empty() consistent; "
                                     "values seen in assignment order, update()==true iff newer, last value obtained once the producer is idle"})
            ctx.violation("the consumer's history violates the property (%s): %s" % (" ".join(res_["args"]), fails_[0][5:]), conf)
            continue
        if not ok_line:
            ctx.broken.append("stress run %s produced no verdict: %r" % (res_["name"], out[:200]))
        elif model and (verdict is None or not verdict.startswith("accept")):
            ctx.broken.append("history of %s passes the harness oracle but the extracted acceptance function says %r" % (res_["name"], verdict))
    ctx.cov["stress_runs"] = stress_cov
    if lock_findings and not race_reported and not ctx.violations:
        ctx.violation("lock discipline of the documented usage is broken: " + lock_findings[0],
                      {"findings": lock_findings, "lock_table": table,
                       "note": "no ThreadSanitizer report and no bad history were obtained in this run"}, found_input=False)
    for res_ in [r_ for r_ in results if r_["args"][0] == "stressbuf"][:1] + [r_ for r_ in results if r_["args"][0] == "stressval"][:1] + [r_ for r_ in results if r_["args"][0] == "stressobs"][:1]:
        ctx.sample({"stress": " ".join(res_["args"]), "sanitizer": res_["san"], "harness": res_["out"][:200], "model": res_["verdict"]})



def stage_inventory(ctx, S):
    exe = S.exe.get(("asan", "buf")) if S.exe.get(("asan", "buf")) == S.exe.get(("asan", "val")) else None
    if exe is None:
        ctx.broken.append("inventory: no full harness build in this run - execution counts and special-member facts are incomplete")
        exe = S.exe.get(("asan", "buf")) or S.exe.get(("asan", "val"))
    if exe is None or S.inv_dir is None:
        return
    ctx.cov["inventory"] = inventory(ctx, S.iface, exe, S.inv_dir)
    for b_ in ctx.broken:
        if b_.startswith("inventory:"):
            ctx.log(b_)
    if sorted(COVER) != sorted(S.expected):
        ctx.broken.append("inventory: COVER (props/C12/check.py) and Model.expected_members (coq/C12/Model.v) list different declarations")


def stage_meta(ctx, S):
    results, big = S.results, S.big
    ctx.rule = ("sequential: random histories (<=60 ops, 1-8 producers; TransactionalValue <=40 ops) and all histories up to length %d over a 5/4-op "
                "alphabet, each on trivially-copyable, std::string and std::vector<int> payloads, model vs real code; non-trivial = two non-empty "
                "batches or a batch with >=2 elements / both update() results seen.  stress: %d multi-threaded runs (1-8 producers x up to %d pushes of "
                "(producer,seq) with a consuming thread and a size()/empty() sampler; one producer assigning 1..N with quiescent points, one polling "
                "consumer; bursts of pushes separated by quiescent points at which size()/empty() must describe the next batch exactly) under TSan and ASan, each recorded history judged by the extracted acceptance function and the harness oracle; non-trivial = "
                "batches mixing producers / >1 true update and >1 quiescent point" % (ctx.pick(5, 6), len(results), big))
    ctx.trusted += ["props/C12/lockgen_ast.py (member accesses, lock_guard/unique_lock scopes and std::atomic declarations from clang 14's JSON AST of the two "
                    "headers' template patterns; conservative: anything not recognisably a read is a write; one lock per access, not inter-procedural), "
                    "cross-checked on every run against the independent textual extractor props/C12/lockgen.py (disagreement = broken)",
                    "ThreadSanitizer / AddressSanitizer of g++ 12 as the runtime witnesses for data races and payload lifetime",
                    "harness/C12/harness.cpp (stress driver, history recorder, independent oracle), generators in props/C12/check.py",
                    "std::mutex / std::lock_guard provide mutual exclusion, std::atomic<bool> accesses are atomic; std::vector move leaves the source empty "
                    "(observed by the differential run, not proved)"]
    ctx.assumptions += ["roles of the documented usage: producers call push_back / operator=, one consumer calls consume,size,empty / update,get,ref; "
                        "a single producer for TransactionalValue; constructors run before the object is shared",
                        "the C++ memory model is not formalised: 'no data race' is the lockset discipline (Coq, reflective) plus ThreadSanitizer on the stress runs",
                        "interleaving (sequentially consistent) semantics at statement granularity for the TransactionalValue model; "
                        "TransactionalBuffer methods are single atomic steps, justified by tbuf_methods_atomic on the regenerated table"]


def run(ctx):
    # wall-clock budget of the whole run: no tree may push the quick tier beyond about 4 minutes
    ctx.deadline = ctx.t0 + ctx.pick(200, 3000)
    S = _S()
    try:
        _stage(ctx, "lock-table/member-list extraction", stage_table, S)
        _stage(ctx, "Coq build", stage_coq, S)
        _stage(ctx, "model and harness builds", stage_build, S)
        if S.exe:
            _stage(ctx, "sequential differential", stage_seq, S)
            _stage(ctx, "stress and boundary runs", stage_stress, S)
            _stage(ctx, "inventory", stage_inventory, S)
        else:
            ctx.broken.append("no harness could be built against this tree (not even one class at a time): no run of the real code")
        if S.lock_findings and not ctx.violations and not any("lock discipline" in (v.get("what") or "") for v in ctx.violations):
            ctx.violation("lock discipline / member list of the documented usage is broken: " + S.lock_findings[0],
                          {"findings": S.lock_findings, "lock_table": S.table,
                           "note": "no ThreadSanitizer report and no bad history were obtained in this run"}, found_input=False)
        _stage(ctx, "evidence metadata", stage_meta, S)
        if ctx.thorough():
            _stage(ctx, "coqchk", lambda c: c.coq_thorough_chk(["C12.Properties", "C12.PropertiesTVal", "C12.LocksetProp"]))
    except BaseException as ex:                                        # noqa: BLE001  (bin/vcheck calls ctx.finish() next: evidence is always written)
        if isinstance(ex, (KeyboardInterrupt, SystemExit)):
            raise
        ctx.broken.append("check.py raised %r outside a stage" % (ex,))
